// mayfacts: rustc_private driver that dumps the type-checked program (drop-elaborated MIR with
// resolved callees, ADTs, impls) of every workspace crate as one JSON file per crate.
// Used as RUSTC_WORKSPACE_WRAPPER; output directory is taken from $MAYFACTS_OUT.
#![feature(rustc_private)]
#![allow(clippy::all)]

extern crate rustc_abi;
extern crate rustc_driver;
extern crate rustc_hir;
extern crate rustc_interface;
extern crate rustc_middle;
extern crate rustc_span;

use rustc_driver::{Callbacks, Compilation};
use rustc_hir::def::DefKind;
use rustc_hir::def_id::DefId;
use rustc_interface::interface::Compiler;
use rustc_middle::mir::{
    AggregateKind, BasicBlock, Body, BorrowKind, CastKind, Const, Operand, Place, PlaceElem,
    Rvalue, StatementKind, TerminatorKind, UnwindAction, VarDebugInfoContents,
};
use rustc_middle::ty::print::{with_crate_prefix, with_no_trimmed_paths};
use rustc_middle::ty::{self, Ty, TyCtxt};
use rustc_span::Span;
use std::fmt::Write as _;

fn esc(s: &str) -> String {
    let mut o = String::with_capacity(s.len() + 2);
    o.push('"');
    for c in s.chars() {
        match c {
            '"' => o.push_str("\\\""),
            '\\' => o.push_str("\\\\"),
            '\n' => o.push_str("\\n"),
            '\r' => o.push_str("\\r"),
            '\t' => o.push_str("\\t"),
            c if (c as u32) < 0x20 => {
                let _ = write!(o, "\\u{:04x}", c as u32);
            }
            c => o.push(c),
        }
    }
    o.push('"');
    o
}

fn jlist(items: Vec<String>) -> String {
    let mut o = String::from("[");
    o.push_str(&items.join(","));
    o.push(']');
    o
}

fn jobj(items: Vec<(&str, String)>) -> String {
    let mut o = String::from("{");
    let mut first = true;
    for (k, v) in items {
        if !first {
            o.push(',');
        }
        first = false;
        o.push_str(&esc(k));
        o.push(':');
        o.push_str(&v);
    }
    o.push('}');
    o
}

fn jbool(b: bool) -> String {
    if b { "true".into() } else { "false".into() }
}

fn jopt_bb(b: Option<BasicBlock>) -> String {
    match b {
        Some(b) => b.index().to_string(),
        None => "null".into(),
    }
}

struct Cx<'tcx> {
    tcx: TyCtxt<'tcx>,
    krate: String,
}

impl<'tcx> Cx<'tcx> {
    fn fix(&self, s: String) -> String {
        // `crate::` -> `<cratename>::`
        let pat = "crate::";
        if !s.contains(pat) {
            return s;
        }
        let mut out = String::with_capacity(s.len() + 8);
        let bytes = s.as_bytes();
        let mut i = 0;
        while i < bytes.len() {
            if s[i..].starts_with(pat) {
                let prev_ok = i == 0 || {
                    let p = bytes[i - 1] as char;
                    !(p.is_alphanumeric() || p == '_' || p == ':')
                };
                if prev_ok {
                    out.push_str(&self.krate);
                    out.push_str("::");
                    i += pat.len();
                    continue;
                }
            }
            let ch = s[i..].chars().next().unwrap();
            out.push(ch);
            i += ch.len_utf8();
        }
        out
    }

    fn path(&self, did: DefId) -> String {
        let s = with_crate_prefix!(with_no_trimmed_paths!(self.tcx.def_path_str(did)));
        self.fix(s)
    }

    fn path_args(&self, did: DefId, args: ty::GenericArgsRef<'tcx>) -> String {
        let s = with_crate_prefix!(with_no_trimmed_paths!(self.tcx.def_path_str_with_args(did, args)));
        self.fix(s)
    }

    fn ty(&self, t: Ty<'tcx>) -> String {
        let s = with_crate_prefix!(with_no_trimmed_paths!(t.to_string()));
        self.fix(s)
    }

    fn loc(&self, sp: Span) -> (String, usize) {
        let sm = self.tcx.sess.source_map();
        let lo = sm.lookup_char_pos(sp.lo());
        let name = match &lo.file.name {
            rustc_span::FileName::Real(r) => match r.local_path() {
                Some(p) => p.to_string_lossy().to_string(),
                None => format!("{:?}", r),
            },
            other => format!("{:?}", other),
        };
        (name, lo.line)
    }

    fn line(&self, sp: Span) -> String {
        // line of the outermost user call site when the span comes from an expansion
        let sp2 = sp.source_callsite();
        let (_, l) = self.loc(sp2);
        l.to_string()
    }

    fn place(&self, body: &Body<'tcx>, p: &Place<'tcx>) -> String {
        let tcx = self.tcx;
        let mut projs: Vec<String> = Vec::new();
        let mut pty = rustc_middle::mir::PlaceTy::from_ty(body.local_decls[p.local].ty);
        for elem in p.projection.iter() {
            match elem {
                PlaceElem::Deref => projs.push("\"*\"".into()),
                PlaceElem::Field(idx, fty) => {
                    let base = pty.ty;
                    let mut items: Vec<(&str, String)> = Vec::new();
                    match base.kind() {
                        ty::Adt(adt, _) => {
                            let vidx = pty.variant_index.unwrap_or(rustc_abi::FIRST_VARIANT);
                            let var = adt.variant(vidx);
                            let name = var.fields[idx].name.to_string();
                            items.push(("f", esc(&name)));
                            items.push(("a", esc(&self.path(adt.did()))));
                            if adt.is_enum() {
                                items.push(("v", esc(&var.name.to_string())));
                            }
                        }
                        ty::Tuple(_) => {
                            items.push(("f", esc(&idx.index().to_string())));
                            items.push(("a", esc("(tuple)")));
                        }
                        ty::Closure(did, _) => {
                            items.push(("f", esc(&idx.index().to_string())));
                            items.push(("a", esc(&format!("closure:{}", self.path(*did)))));
                        }
                        _ => {
                            items.push(("f", esc(&idx.index().to_string())));
                            items.push(("a", esc("(other)")));
                        }
                    }
                    items.push(("i", idx.index().to_string()));
                    items.push(("t", esc(&self.ty(fty))));
                    projs.push(jobj(items));
                }
                PlaceElem::Index(l) => projs.push(jobj(vec![("ix", l.index().to_string())])),
                PlaceElem::ConstantIndex { offset, from_end, .. } => projs.push(jobj(vec![
                    ("cix", offset.to_string()),
                    ("fe", jbool(from_end)),
                ])),
                PlaceElem::Subslice { .. } => projs.push("\"subslice\"".into()),
                PlaceElem::Downcast(sym, vidx) => {
                    let name = match sym {
                        Some(s) => s.to_string(),
                        None => vidx.index().to_string(),
                    };
                    projs.push(jobj(vec![("dc", esc(&name))]));
                }
                PlaceElem::OpaqueCast(_) => projs.push("\"opaque\"".into()),
                PlaceElem::UnwrapUnsafeBinder(_) => projs.push("\"unwrapbinder\"".into()),
            }
            pty = pty.projection_ty(tcx, elem);
        }
        jobj(vec![("l", p.local.index().to_string()), ("p", jlist(projs))])
    }

    fn fn_ref(&self, owner: DefId, did: DefId, args: ty::GenericArgsRef<'tcx>) -> Vec<(&'static str, String)> {
        let tcx = self.tcx;
        let mut items: Vec<(&'static str, String)> = Vec::new();
        items.push(("p", esc(&self.path(did))));
        items.push(("pa", esc(&self.path_args(did, args))));
        // resolve through trait selection where possible
        let env = ty::TypingEnv::post_analysis(tcx, owner);
        let resolved = match ty::Instance::try_resolve(tcx, env, did, args) {
            Ok(Some(inst)) => {
                let rd = inst.def_id();
                let kind = match inst.def {
                    ty::InstanceKind::Item(_) => "item",
                    ty::InstanceKind::Virtual(..) => "virtual",
                    ty::InstanceKind::Intrinsic(_) => "intrinsic",
                    ty::InstanceKind::ClosureOnceShim { .. } => "closure_once",
                    ty::InstanceKind::FnPtrShim(..) => "fnptr",
                    ty::InstanceKind::DropGlue(..) => "dropglue",
                    ty::InstanceKind::CloneShim(..) => "cloneshim",
                    _ => "shim",
                };
                items.push(("rk", esc(kind)));
                esc(&self.path(rd))
            }
            _ => "null".into(),
        };
        items.push(("r", resolved));
        let ga: Vec<String> = args
            .iter()
            .filter_map(|a| a.as_type().map(|t| esc(&self.ty(t))))
            .collect();
        items.push(("ga", jlist(ga)));
        // parent impl / trait info
        if let Some(parent) = tcx.opt_parent(did) {
            match tcx.def_kind(parent) {
                DefKind::Trait => items.push(("tr", esc(&self.path(parent)))),
                DefKind::Impl { .. } => {
                    let st = tcx.type_of(parent).instantiate_identity().skip_norm_wip();
                    items.push(("st", esc(&self.ty(st))));
                }
                _ => {}
            }
        }
        items
    }

    fn operand(&self, owner: DefId, body: &Body<'tcx>, o: &Operand<'tcx>) -> String {
        match o {
            Operand::Copy(p) => jobj(vec![("c", self.place(body, p))]),
            Operand::Move(p) => jobj(vec![("m", self.place(body, p))]),
            Operand::Constant(c) => {
                let t = c.const_.ty();
                let mut items: Vec<(&str, String)> = Vec::new();
                let txt = with_crate_prefix!(with_no_trimmed_paths!(format!("{}", c.const_)));
                items.push(("k", esc(&self.fix(txt))));
                items.push(("ty", esc(&self.ty(t))));
                match t.kind() {
                    ty::FnDef(did, args) => {
                        items.push(("fn", jobj(self.fn_ref(owner, *did, args))));
                    }
                    _ => {
                        // try to evaluate scalars to a plain integer
                        if let Some(v) = self.const_int(owner, &c.const_) {
                            items.push(("v", v));
                        }
                    }
                }
                if let Const::Unevaluated(uv, _) = &c.const_ {
                    items.push(("cdef", esc(&self.path(uv.def))));
                    if let Some(pidx) = uv.promoted {
                        // promoted constant: list the items its body mentions
                        let mut names: Vec<String> = Vec::new();
                        let proms = self.tcx.promoted_mir(uv.def);
                        if let Some(pb) = proms.get(pidx) {
                            for bb in pb.basic_blocks.iter() {
                                for st in &bb.statements {
                                    if let StatementKind::Assign(b) = &st.kind {
                                        let mut ops: Vec<&Operand<'tcx>> = Vec::new();
                                        match &b.1 {
                                            Rvalue::Use(o, ..) | Rvalue::Cast(_, o, _) | Rvalue::UnaryOp(_, o) => ops.push(o),
                                            Rvalue::Aggregate(k, os) => {
                                                // name the enum variant / struct that the promoted value is built from (`&Err(ParkError::Canceled)`)
                                                if let AggregateKind::Adt(adid, vidx, _, _, _) = &**k {
                                                    let adt = self.tcx.adt_def(*adid);
                                                    names.push(esc(&format!("{}::{}", self.path(*adid), adt.variant(*vidx).name)));
                                                }
                                                for o in os.iter() { ops.push(o); }
                                            }
                                            _ => {}
                                        }
                                        for o in ops {
                                            if let Operand::Constant(cc) = o {
                                                if let Const::Unevaluated(u2, _) = &cc.const_ {
                                                    names.push(esc(&self.path(u2.def)));
                                                } else {
                                                    let txt = with_crate_prefix!(with_no_trimmed_paths!(format!("{}", cc.const_)));
                                                    names.push(esc(&self.fix(txt)));
                                                }
                                            }
                                        }
                                    }
                                }
                            }
                        }
                        items.push(("pr", jlist(names)));
                    }
                }
                jobj(items)
            }
            _ => jobj(vec![("k", esc("runtime_checks")), ("ty", esc("bool"))]),
        }
    }

    fn const_int(&self, owner: DefId, c: &Const<'tcx>) -> Option<String> {
        let t = c.ty();
        if !(t.is_integral() || t.is_bool() || t.is_char()) {
            return None;
        }
        let env = ty::TypingEnv::post_analysis(self.tcx, owner);
        let si = c.try_eval_scalar_int(self.tcx, env)?;
        let size = si.size();
        if t.is_signed() {
            Some(si.to_int(size).to_string())
        } else {
            Some(si.to_uint(size).to_string())
        }
    }

    fn rvalue(&self, owner: DefId, body: &Body<'tcx>, rv: &Rvalue<'tcx>) -> String {
        let op = |o: &Operand<'tcx>| self.operand(owner, body, o);
        match rv {
            Rvalue::Use(o, ..) => jobj(vec![("r", esc("use")), ("o", op(o))]),
            Rvalue::Repeat(o, _) => jobj(vec![("r", esc("repeat")), ("o", op(o))]),
            Rvalue::Ref(_, bk, p) => jobj(vec![
                ("r", esc("ref")),
                ("pl", self.place(body, p)),
                ("mut", jbool(matches!(bk, BorrowKind::Mut { .. }))),
            ]),
            Rvalue::ThreadLocalRef(did) => jobj(vec![("r", esc("tlref")), ("did", esc(&self.path(*did)))]),
            Rvalue::RawPtr(k, p) => jobj(vec![
                ("r", esc("raw")),
                ("pl", self.place(body, p)),
                ("mut", jbool(format!("{:?}", k).contains("Mut"))),
            ]),
            Rvalue::Cast(ck, o, t) => {
                let k = match ck {
                    CastKind::Transmute => "transmute".to_string(),
                    other => format!("{:?}", other),
                };
                jobj(vec![("r", esc("cast")), ("o", op(o)), ("ty", esc(&self.ty(*t))), ("ck", esc(&k))])
            }
            Rvalue::BinaryOp(b, ops) => jobj(vec![
                ("r", esc("bin")),
                ("op", esc(&format!("{:?}", b))),
                ("a", op(&ops.0)),
                ("b", op(&ops.1)),
            ]),
            Rvalue::UnaryOp(u, o) => jobj(vec![("r", esc("un")), ("op", esc(&format!("{:?}", u))), ("o", op(o))]),
            Rvalue::Discriminant(p) => {
                let mut items: Vec<(&str, String)> = vec![("r", esc("discr")), ("pl", self.place(body, p))];
                let pty = p.ty(body, self.tcx).ty;
                if let ty::Adt(adt, _) = pty.kind() {
                    if adt.is_enum() && adt.variants().len() <= 96 {
                        let mut vs: Vec<String> = Vec::new();
                        for (vidx, d) in adt.discriminants(self.tcx) {
                            vs.push(format!("[{},{}]", d.val, esc(&adt.variant(vidx).name.to_string())));
                        }
                        items.push(("vars", jlist(vs)));
                        items.push(("adt", esc(&self.path(adt.did()))));
                    }
                }
                jobj(items)
            }
            Rvalue::Aggregate(kind, ops) => {
                let mut items: Vec<(&str, String)> = vec![("r", esc("agg"))];
                match &**kind {
                    AggregateKind::Array(_) => items.push(("ak", esc("array"))),
                    AggregateKind::Tuple => items.push(("ak", esc("tuple"))),
                    AggregateKind::Adt(did, vidx, _, _, _) => {
                        items.push(("ak", esc("adt")));
                        items.push(("adt", esc(&self.path(*did))));
                        let adt = self.tcx.adt_def(*did);
                        let var = adt.variant(*vidx);
                        items.push(("var", esc(&var.name.to_string())));
                        let names: Vec<String> = var.fields.iter().map(|f| esc(&f.name.to_string())).collect();
                        items.push(("fields", jlist(names)));
                    }
                    AggregateKind::Closure(did, _) => {
                        items.push(("ak", esc("closure")));
                        items.push(("did", esc(&self.path(*did))));
                    }
                    AggregateKind::Coroutine(did, _) | AggregateKind::CoroutineClosure(did, _) => {
                        items.push(("ak", esc("coroutine")));
                        items.push(("did", esc(&self.path(*did))));
                    }
                    AggregateKind::RawPtr(..) => items.push(("ak", esc("rawptr"))),
                }
                let os: Vec<String> = ops.iter().map(|o| op(o)).collect();
                items.push(("ops", jlist(os)));
                jobj(items)
            }
            Rvalue::CopyForDeref(p) => jobj(vec![("r", esc("cfd")), ("pl", self.place(body, p))]),
            Rvalue::WrapUnsafeBinder(o, _) => jobj(vec![("r", esc("wrapbinder")), ("o", op(o))]),
        }
    }

    fn unwind(&self, u: &UnwindAction) -> String {
        match u {
            UnwindAction::Cleanup(b) => b.index().to_string(),
            UnwindAction::Continue => "\"continue\"".into(),
            UnwindAction::Unreachable => "\"unreachable\"".into(),
            UnwindAction::Terminate(_) => "\"terminate\"".into(),
        }
    }

    fn body(&self, did: DefId, body: &Body<'tcx>) -> String {
        let tcx = self.tcx;
        let mut blocks: Vec<String> = Vec::new();
        for (_bb, data) in body.basic_blocks.iter_enumerated() {
            let mut stmts: Vec<String> = Vec::new();
            for st in &data.statements {
                let sp = st.source_info.span;
                match &st.kind {
                    StatementKind::Assign(b) => {
                        let (pl, rv) = &**b;
                        stmts.push(jobj(vec![
                            ("s", esc("=")),
                            ("l", self.place(body, pl)),
                            ("rv", self.rvalue(did, body, rv)),
                            ("ln", self.line(sp)),
                            ("x", jbool(sp.from_expansion())),
                        ]));
                    }
                    StatementKind::SetDiscriminant { place, variant_index } => {
                        let pty = place.ty(body, tcx).ty;
                        let vname = match pty.kind() {
                            ty::Adt(adt, _) => adt.variant(*variant_index).name.to_string(),
                            _ => variant_index.index().to_string(),
                        };
                        stmts.push(jobj(vec![
                            ("s", esc("setdiscr")),
                            ("l", self.place(body, place)),
                            ("var", esc(&vname)),
                            ("ln", self.line(sp)),
                        ]));
                    }
                    StatementKind::Intrinsic(i) => {
                        stmts.push(jobj(vec![
                            ("s", esc("intrinsic")),
                            ("txt", esc(&format!("{:?}", i))),
                            ("ln", self.line(sp)),
                        ]));
                    }
                    StatementKind::StorageDead(l) => {
                        stmts.push(jobj(vec![("s", esc("dead")), ("loc", l.index().to_string())]));
                    }
                    _ => {}
                }
            }
            let term = data.terminator();
            let sp = term.source_info.span;
            let mut t: Vec<(&str, String)> = Vec::new();
            match &term.kind {
                TerminatorKind::Goto { target } => {
                    t.push(("t", esc("goto")));
                    t.push(("ok", target.index().to_string()));
                }
                TerminatorKind::SwitchInt { discr, targets } => {
                    t.push(("t", esc("sw")));
                    t.push(("o", self.operand(did, body, discr)));
                    let tg: Vec<String> = targets
                        .iter()
                        .map(|(v, b)| format!("[{},{}]", v, b.index()))
                        .collect();
                    t.push(("tg", jlist(tg)));
                    t.push(("else", targets.otherwise().index().to_string()));
                    let dty = discr.ty(body, tcx);
                    t.push(("dty", esc(&self.ty(dty))));
                }
                TerminatorKind::UnwindResume => t.push(("t", esc("resume"))),
                TerminatorKind::UnwindTerminate(_) => t.push(("t", esc("terminate"))),
                TerminatorKind::Return => t.push(("t", esc("ret"))),
                TerminatorKind::Unreachable => t.push(("t", esc("unreachable"))),
                TerminatorKind::Drop { place, target, unwind, .. } => {
                    t.push(("t", esc("drop")));
                    t.push(("pl", self.place(body, place)));
                    let pty = place.ty(body, tcx).ty;
                    t.push(("ty", esc(&self.ty(pty))));
                    t.push(("ok", target.index().to_string()));
                    t.push(("uw", self.unwind(unwind)));
                }
                TerminatorKind::Call { func, args, destination, target, unwind, .. } => {
                    t.push(("t", esc("call")));
                    t.push(("f", self.operand(did, body, func)));
                    let a: Vec<String> = args.iter().map(|a| self.operand(did, body, &a.node)).collect();
                    t.push(("args", jlist(a)));
                    t.push(("d", self.place(body, destination)));
                    t.push(("ok", jopt_bb(*target)));
                    t.push(("uw", self.unwind(unwind)));
                }
                TerminatorKind::TailCall { func, args, .. } => {
                    t.push(("t", esc("tailcall")));
                    t.push(("f", self.operand(did, body, func)));
                    let a: Vec<String> = args.iter().map(|a| self.operand(did, body, &a.node)).collect();
                    t.push(("args", jlist(a)));
                }
                TerminatorKind::Assert { cond, expected, target, unwind, msg } => {
                    t.push(("t", esc("assert")));
                    t.push(("o", self.operand(did, body, cond)));
                    t.push(("exp", jbool(*expected)));
                    t.push(("ok", target.index().to_string()));
                    t.push(("uw", self.unwind(unwind)));
                    let m = format!("{:?}", msg);
                    let mk = m.split(|c: char| !c.is_alphanumeric()).next().unwrap_or("").to_string();
                    t.push(("msg", esc(&mk)));
                }
                TerminatorKind::InlineAsm { targets, unwind, .. } => {
                    t.push(("t", esc("asm")));
                    let tg: Vec<String> = targets.iter().map(|b| b.index().to_string()).collect();
                    t.push(("tg", jlist(tg)));
                    t.push(("uw", self.unwind(unwind)));
                }
                TerminatorKind::Yield { .. }
                | TerminatorKind::CoroutineDrop
                | TerminatorKind::FalseEdge { .. }
                | TerminatorKind::FalseUnwind { .. } => {
                    t.push(("t", esc("other")));
                    t.push(("txt", esc(&format!("{:?}", term.kind))));
                }
            }
            t.push(("ln", self.line(sp)));
            t.push(("x", jbool(sp.from_expansion())));
            blocks.push(jobj(vec![
                ("cl", jbool(data.is_cleanup)),
                ("st", jlist(stmts)),
                ("tm", jobj(t)),
            ]));
        }
        let locals: Vec<String> = body.local_decls.iter().map(|d| esc(&self.ty(d.ty))).collect();
        let mut dbg: Vec<String> = Vec::new();
        for v in &body.var_debug_info {
            if let VarDebugInfoContents::Place(p) = &v.value {
                dbg.push(jobj(vec![("n", esc(&v.name.to_string())), ("pl", self.place(body, p))]));
            }
        }
        jobj(vec![
            ("argc", body.arg_count.to_string()),
            ("locals", jlist(locals)),
            ("dbg", jlist(dbg)),
            ("blocks", jlist(blocks)),
        ])
    }

    fn function(&self, did: DefId) -> String {
        let tcx = self.tcx;
        let kind = tcx.def_kind(did);
        let body = tcx.optimized_mir(did);
        let (file, line) = self.loc(tcx.def_span(did));
        let mut items: Vec<(&str, String)> = Vec::new();
        items.push(("id", esc(&self.path(did))));
        items.push(("kind", esc(&format!("{:?}", kind))));
        items.push(("file", esc(&file)));
        items.push(("line", line.to_string()));
        if matches!(kind, DefKind::Fn | DefKind::AssocFn) {
            items.push(("vis", esc(&format!("{:?}", tcx.visibility(did)))));
            let sig = tcx.fn_sig(did).instantiate_identity().skip_norm_wip();
            items.push(("unsafe", jbool(!sig.safety().is_safe())));
            let name = tcx.item_name(did).to_string();
            items.push(("name", esc(&name)));
        }
        if let Some(parent) = tcx.opt_parent(did) {
            items.push(("parent", esc(&self.path(parent))));
            if let DefKind::Impl { .. } = tcx.def_kind(parent) {
                let st = tcx.type_of(parent).instantiate_identity().skip_norm_wip();
                items.push(("self_ty", esc(&self.ty(st))));
                if let ty::Adt(adt, _) = st.kind() {
                    items.push(("self_adt", esc(&self.path(adt.did()))));
                }
                if let Some(tr) = tcx.impl_opt_trait_ref(parent) {
                    let tr = tr.instantiate_identity().skip_norm_wip();
                    items.push(("trait", esc(&self.path(tr.def_id))));
                }
            }
        }
        items.push(("mir", self.body(did, body)));
        jobj(items)
    }

    fn adts_and_impls(&self) -> (String, String) {
        let tcx = self.tcx;
        let mut adts: Vec<String> = Vec::new();
        let mut impls: Vec<String> = Vec::new();
        for ldid in tcx.hir_crate_items(()).definitions() {
            let did = ldid.to_def_id();
            match tcx.def_kind(did) {
                DefKind::Struct | DefKind::Enum | DefKind::Union => {
                    let adt = tcx.adt_def(did);
                    let mut vars: Vec<String> = Vec::new();
                    for v in adt.variants().iter() {
                        let mut fs: Vec<String> = Vec::new();
                        for f in v.fields.iter() {
                            let fty = tcx.type_of(f.did).instantiate_identity().skip_norm_wip();
                            fs.push(jobj(vec![
                                ("n", esc(&f.name.to_string())),
                                ("t", esc(&self.ty(fty))),
                                ("vis", esc(&format!("{:?}", f.vis))),
                            ]));
                        }
                        vars.push(jobj(vec![("n", esc(&v.name.to_string())), ("fields", jlist(fs))]));
                    }
                    let (file, line) = self.loc(tcx.def_span(did));
                    adts.push(jobj(vec![
                        ("path", esc(&self.path(did))),
                        ("kind", esc(&format!("{:?}", tcx.def_kind(did)))),
                        ("vis", esc(&format!("{:?}", tcx.visibility(did)))),
                        ("file", esc(&file)),
                        ("line", line.to_string()),
                        ("variants", jlist(vars)),
                    ]));
                }
                DefKind::Impl { .. } => {
                    let st = tcx.type_of(did).instantiate_identity().skip_norm_wip();
                    let mut items: Vec<(&str, String)> = Vec::new();
                    items.push(("self_ty", esc(&self.ty(st))));
                    if let ty::Adt(adt, _) = st.kind() {
                        items.push(("self_adt", esc(&self.path(adt.did()))));
                    }
                    if let Some(tr) = tcx.impl_opt_trait_ref(did) {
                        let tr = tr.instantiate_identity().skip_norm_wip();
                        items.push(("trait", esc(&self.path(tr.def_id))));
                        items.push(("trait_ref", esc(&self.fix(with_crate_prefix!(with_no_trimmed_paths!(format!("{}", tr)))))));
                        items.push(("negative", jbool(matches!(tcx.impl_polarity(did), ty::ImplPolarity::Negative))));
                    }
                    let mut ms: Vec<String> = Vec::new();
                    for &m in tcx.associated_item_def_ids(did) {
                        if matches!(tcx.def_kind(m), DefKind::AssocFn) {
                            ms.push(jobj(vec![
                                ("n", esc(&tcx.item_name(m).to_string())),
                                ("id", esc(&self.path(m))),
                                ("vis", esc(&format!("{:?}", tcx.visibility(m)))),
                            ]));
                        }
                    }
                    items.push(("methods", jlist(ms)));
                    let (file, line) = self.loc(tcx.def_span(did));
                    items.push(("file", esc(&file)));
                    items.push(("line", line.to_string()));
                    impls.push(jobj(items));
                }
                _ => {}
            }
        }
        (jlist(adts), jlist(impls))
    }
}

struct Cb;

impl Callbacks for Cb {
    fn after_analysis<'tcx>(&mut self, _c: &Compiler, tcx: TyCtxt<'tcx>) -> Compilation {
        let out = match std::env::var("MAYFACTS_OUT") {
            Ok(o) => o,
            Err(_) => return Compilation::Continue,
        };
        let krate = tcx.crate_name(rustc_hir::def_id::LOCAL_CRATE).to_string();
        if krate.starts_with("build_script") {
            return Compilation::Continue;
        }
        let cx = Cx { tcx, krate: krate.clone() };
        let mut fns: Vec<String> = Vec::new();
        for ldid in tcx.mir_keys(()) {
            let did = ldid.to_def_id();
            match tcx.def_kind(did) {
                DefKind::Fn | DefKind::AssocFn | DefKind::Closure => {}
                _ => continue,
            }
            if tcx.is_constructor(did) {
                continue;
            }
            fns.push(cx.function(did));
        }
        let (adts, impls) = cx.adts_and_impls();
        let crate_types = format!("{:?}", tcx.crate_types());
        let doc = jobj(vec![
            ("crate", esc(&krate)),
            ("crate_types", esc(&crate_types)),
            ("fns", jlist(fns)),
            ("adts", adts),
            ("impls", impls),
        ]);
        let is_test = tcx.sess.opts.test;
        let fname = format!("{}/{}{}.json", out, krate, if is_test { ".test" } else { "" });
        std::fs::write(&fname, doc).expect("mayfacts: cannot write fact file");
        Compilation::Continue
    }
}

fn main() {
    let mut args: Vec<String> = std::env::args().collect();
    // RUSTC_WORKSPACE_WRAPPER passes the real rustc as argv[1]
    if args.len() > 1 && (args[1].ends_with("rustc") || args[1].contains("/rustc")) {
        args.remove(1);
    }
    let mut cb = Cb;
    rustc_driver::run_compiler(&args, &mut cb);
}
