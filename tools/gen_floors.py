#!/usr/bin/env python3
"""regenerate rules/floors.json: per property and rule family, 80 % of the number of distinct obligations that the quick tier
evaluates (and discharges) on the current tree - run only on a tree on which every check passes and after reading what was added"""
import json, glob, os, math, collections
V = os.path.dirname(os.path.dirname(os.path.abspath(__file__)))
out = {}
for f in sorted(glob.glob(os.path.join(V, "evidence", "C*.json"))):
    e = json.load(open(f))
    assert e["tier"] == "quick" and e["violations"] == 0, (f, e["tier"], e["violations"])
    c = collections.Counter()
    seen = set()
    for s in e["coverage"]["samples"]:
        if s["config"] != "default" or s["key"] in seen: continue
        seen.add(s["key"]); c[s["rule"]] += 1
    out[e["property_id"]] = {r: int(math.floor(0.8 * n)) for r, n in sorted(c.items()) if int(math.floor(0.8 * n)) >= 1}
json.dump(out, open(os.path.join(V, "rules", "floors.json"), "w"), indent=1, sort_keys=True)
print({k: sum(v.values()) for k, v in out.items()})
