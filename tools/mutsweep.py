#!/usr/bin/env python3
"""Automatic mutation sweep of the static checks (tooling; not a registered check).
Generates small source mutants (delete a call statement, negate a condition, shift a relational operator, drop a +-1,
flip a bool literal, drop a return/continue/break, swap two adjacent call statements) inside the functions of the given
files, applies each to a scratch copy of /repo, extracts the MIR facts and runs every property's rules once
(`rules/main.py scan-all`). A mutant is `caught` when a check reports an obligation that is discharged on the unchanged
tree, `nocompile` when the tree no longer builds, `silent` otherwise. Silent mutants are the blind-spot candidates that
are then triaged by reading (equivalent / harmless / property-breaking) - nothing here decides a property.

usage: mutsweep.py --out <jsonl> [--jobs N] [--files f1,f2,...] [--fn substr] [--ops A,B,..] [--limit N] [--list]
"""
import json, os, re, shutil, subprocess, sys, tempfile, collections
from concurrent.futures import ThreadPoolExecutor
VERIF = os.path.dirname(os.path.dirname(os.path.abspath(__file__)))
REPO = os.environ.get("MAY_REPO", "/repo")

def fn_ranges():
    sys.path.insert(0, os.path.join(VERIF, "rules")); os.environ["VERIF_NO_INLINE"] = "1"
    import main as M
    prog = M.load_program("default")
    r = collections.defaultdict(list)
    for k, f in prog.fns.items():
        if "{closure" in k: continue
        lns = [f.line]
        for b in f.blocks:
            if b.get("file", f.file) != f.file: continue
            for s in b["st"]:
                if s.get("ln"): lns.append(s["ln"])
            if b["tm"].get("ln"): lns.append(b["tm"]["ln"])
        lns = [l for l in lns if l >= f.line and l < f.line + 400]
        r[f.file].append((f.line, max(lns), k))
    del os.environ["VERIF_NO_INLINE"]
    return r

CALL_STMT = re.compile(r"^\s*(?!let |return|break|continue|assert|debug_assert|println|eprintln|info!|error!|warn!|trace!|debug!|unreachable|panic)[A-Za-z_\*\(&][^=]*\(.*\)\s*;\s*$")
IF_LINE = re.compile(r"^(\s*(?:\} else )?(?:if|while) )(?!let )(.*)( \{\s*)$")
RELOPS = [(" >= ", " > "), (" > ", " >= "), (" <= ", " < "), (" < ", " <= "), (" == ", " != "), (" != ", " == ")]

def mutants_for(path, src_lines, ranges, ops):
    out = []
    def infn(i):
        for a, b, k in ranges:
            if a <= i + 1 <= b: return k
        return None
    in_test = False
    for i, l in enumerate(src_lines):
        if re.match(r"\s*#\[cfg\((all\()?test", l) or re.match(r"\s*mod tests?\b", l): in_test = True
        if in_test: break
        s = l.strip()
        if not s or s.startswith("//") or s.startswith("#[") or s.startswith("debug_assert") or s.startswith("assert"): continue
        code = l.split("//")[0]
        k = infn(i)
        if not k: continue
        def add(op, new, extra=None):
            out.append(dict(file=path, line=i + 1, fn=k, op=op, old=l.rstrip("\n"), new=new if isinstance(new, str) else None, extra=extra))
        if "A" in ops and CALL_STMT.match(code) and code.count("(") == code.count(")"):
            add("del-call", re.match(r"^\s*", l).group(0) + "// mutant: deleted")
        if "B" in ops:
            m = IF_LINE.match(code.rstrip("\n"))
            if m and "&&" not in m.group(2) and "||" not in m.group(2):
                add("neg-cond", "%s!(%s)%s" % (m.group(1), m.group(2), m.group(3)))
        if "C" in ops and not s.startswith("fn ") and not s.startswith("pub ") and not s.startswith("impl") and "->" not in code:
            for a, b in RELOPS:
                if a in code:
                    add("relop", code.replace(a, b, 1).rstrip("\n")); break
        if "D" in ops:
            for a in (" + 1", " - 1"):
                if a in code and "<<" not in code:
                    add("off-by-one", code.replace(a, "", 1).rstrip("\n")); break
        if "E" in ops and not s.startswith("let ") and not s.startswith("const "):
            if re.search(r"\btrue\b", code): add("bool-flip", re.sub(r"\btrue\b", "false", code, 1).rstrip("\n"))
            elif re.search(r"\bfalse\b", code): add("bool-flip", re.sub(r"\bfalse\b", "true", code, 1).rstrip("\n"))
        if "F" in ops and s in ("return;", "continue;", "break;"):
            add("del-jump", re.match(r"^\s*", l).group(0) + "// mutant: deleted " + s)
        if "H" in ops and i + 1 < len(src_lines):
            n = src_lines[i + 1]
            if CALL_STMT.match(code) and CALL_STMT.match(n.split("//")[0]) and infn(i + 1) == k:
                add("swap-calls", n.rstrip("\n"), extra=l.rstrip("\n"))
    return out

def run_one(m, idx, base):
    wd = tempfile.mkdtemp(prefix="mutsweep-")
    try:
        sc = os.path.join(wd, "repo")
        subprocess.run(["rsync", "-a", "--exclude", "target", "--exclude", ".git", REPO + "/", sc + "/"], check=True)
        p = os.path.join(sc, m["file"])
        L = open(p).read().split("\n")
        assert L[m["line"] - 1] == m["old"], (L[m["line"] - 1], m["old"])
        L[m["line"] - 1] = m["new"]
        if m.get("extra") is not None: L[m["line"]] = m["extra"]
        open(p, "w").write("\n".join(L))
        env = dict(os.environ, MAY_REPO=sc, VERIF_CACHE=os.path.join(wd, "cache"), CARGO_NET_OFFLINE="true")
        r = subprocess.run([sys.executable, os.path.join(VERIF, "rules", "main.py"), "scan-all"], env=env, stdout=subprocess.PIPE, stderr=subprocess.PIPE, text=True, timeout=900)
        last = r.stdout.strip().split("\n")[-1] if r.stdout.strip() else ""
        try: res = json.loads(last)
        except Exception: res = {"error": (r.stdout + r.stderr)[-300:]}
        if "error" in res:
            m["verdict"] = "nocompile" if "does not compile" in res["error"] else "error"; m["detail"] = res["error"][-200:]
        else:
            caught = {k: [x for x in v if x not in base.get(k, [])] for k, v in res.items()}
            caught = {k: v for k, v in caught.items() if v}
            m["verdict"] = "caught" if caught else "silent"
            m["caught"] = {k: [x.split("|", 1)[1] for x in v][:4] for k, v in caught.items()}
    except Exception as e:
        m["verdict"] = "error"; m["detail"] = repr(e)[:300]
    finally:
        shutil.rmtree(wd, ignore_errors=True)
    m["idx"] = idx
    return m

def main():
    a = sys.argv[1:]
    def opt(n, d=None): return a[a.index(n) + 1] if n in a else d
    out = opt("--out", "/tmp/mutsweep.jsonl"); jobs = int(opt("--jobs", "8")); ops = set(opt("--ops", "A,B,C,D,E,F,H").split(","))
    files = opt("--files"); fnsub = opt("--fn"); limit = int(opt("--limit", "0"))
    R = fn_ranges()
    sel = []
    for path, ranges in sorted(R.items()):
        if not (path.startswith("src/") or path.startswith("may_queue/src/")): continue
        if files and not any(path.endswith(f) for f in files.split(",")): continue
        if fnsub: ranges = [x for x in ranges if fnsub in x[2]]
        src = open(os.path.join(REPO, path)).read().split("\n")
        sel += mutants_for(path, src, ranges, ops)
    if limit: sel = sel[:limit]
    print("mutants: %d" % len(sel), file=sys.stderr)
    if "--list" in a:
        for m in sel: print("%s:%d %s | %s -> %s" % (m["file"], m["line"], m["op"], m["old"].strip(), (m["new"] or "").strip()))
        return
    done = set()
    if os.path.exists(out):
        for l in open(out):
            d = json.loads(l); done.add((d["file"], d["line"], d["op"]))
    sel = [m for m in sel if (m["file"], m["line"], m["op"]) not in done]
    r = subprocess.run([sys.executable, os.path.join(VERIF, "rules", "main.py"), "scan-all"], stdout=subprocess.PIPE, text=True)
    base = json.loads(r.stdout.strip().split("\n")[-1])
    with ThreadPoolExecutor(jobs) as ex, open(out, "a") as fh:
        for m in ex.map(lambda im: run_one(im[1], im[0], base), enumerate(sel)):
            fh.write(json.dumps(m) + "\n"); fh.flush()
            print("%s %s:%d %s %s" % (m["verdict"], m["file"], m["line"], m["op"], json.dumps(m.get("caught", ""))[:150]), file=sys.stderr)

if __name__ == "__main__":
    main()
