#!/usr/bin/env python3
"""Confirm a seeded defect and run the checks against it.
usage: seedcheck.py <seed-dir> [--props C01,C02,...] [--env K=V ...] [--skip-suite] [--skip-demo]
 <seed-dir> contains patch.diff, demo.rs, optional inject.diff, notes.txt
Steps (all in a scratch git worktree under /tmp, removed afterwards):
  1 patch applies + builds   2 pinned suite passes with the patch   3 demo FAILS with the patch (+inject)
  4 demo PASSES without the patch (+inject)   5 ./check <props> on a scratch copy with the patch applied
Writes <seed-dir>/verify.json."""
import json, os, re, shutil, subprocess, sys, tempfile, time

VERIF = os.path.dirname(os.path.dirname(os.path.abspath(__file__)))

def sh(cmd, cwd=None, env=None, timeout=1800):
    try:
        r = subprocess.run(cmd, shell=True, cwd=cwd, env=env, stdout=subprocess.PIPE, stderr=subprocess.STDOUT, text=True, timeout=timeout)
        return r.returncode, r.stdout
    except subprocess.TimeoutExpired as e:
        return 124, (e.stdout or "") + "\nTIMEOUT"

def main():
    sd = os.path.abspath(sys.argv[1])
    args = sys.argv[2:]
    props = None; extra_env = {}; skip_suite = "--skip-suite" in args; skip_demo = "--skip-demo" in args
    for i, a in enumerate(args):
        if a == "--props": props = args[i + 1].split(",")
        if a == "--env":
            k, v = args[i + 1].split("=", 1); extra_env[k] = v
    patch = os.path.join(sd, "patch.diff"); demo = os.path.join(sd, "demo.rs"); inject = os.path.join(sd, "inject.diff")
    res = {"seed": sd, "time": time.strftime("%F %T")}
    wt = tempfile.mkdtemp(prefix="may-seedverify-")
    os.rmdir(wt)
    env = dict(os.environ, CARGO_NET_OFFLINE="true", CARGO_TARGET_DIR=os.path.join(wt, "target"))
    env.update(extra_env)
    try:
        rc, out = sh("git -C /repo worktree add --detach %s HEAD" % wt)
        assert rc == 0, out
        shutil.copy("/repo/Cargo.lock", wt)
        rc, out = sh("git apply --check %s && git apply %s" % (patch, patch), cwd=wt)
        res["patch_applies"] = rc == 0
        if rc != 0:
            res["error"] = out[-800:]; return res
        if not skip_suite:
            rc, out = sh("cargo test --workspace --no-fail-fast --offline 2>&1 | grep -E '^test result|FAILED|error(\\[|:)' | head -40", cwd=wt, env=env, timeout=2400)
            oks = re.findall(r"test result: ok\. (\d+) passed; 0 failed", out)
            fails = re.findall(r"test result: FAILED", out)
            res["suite_with_patch"] = {"passed": sum(int(x) for x in oks), "failed_groups": len(fails), "compile_error": "error" in out and not oks}
            res["suite_ok"] = (not fails) and sum(int(x) for x in oks) >= 300
        if not skip_demo and os.path.exists(demo):
            src = open(demo).read()
            is_test = "#[test]" in src
            if is_test:
                shutil.copy(demo, os.path.join(wt, "tests", "seed_demo.rs")); cmd = "cargo test --offline --test seed_demo -- --test-threads=1 2>&1 | tail -25"
            else:
                shutil.copy(demo, os.path.join(wt, "examples", "seed_demo.rs")); cmd = "cargo run --offline --example seed_demo 2>&1 | tail -25; exit ${PIPESTATUS[0]}"
            if os.path.exists(inject):
                rc, out = sh("git apply %s || git apply --unidiff-zero %s" % (inject, inject), cwd=wt)
                if rc != 0:
                    # try the other order: inject first, then the seeded change
                    sh("git checkout -- src may_queue/src", cwd=wt)
                    rc1, out1 = sh("git apply %s && git apply %s" % (inject, patch), cwd=wt)
                    rc = rc1
                res["inject_applies"] = rc == 0
            def run_demo():
                rc, out = sh("bash -c '%s'" % cmd.replace("'", "'\\''"), cwd=wt, env=env, timeout=900)
                if is_test:
                    ok = bool(re.search(r"test result: ok", out)) and not re.search(r"test result: FAILED|error(\[|:)|panicked", out.split("test result")[0][-0:] if False else "") and "FAILED" not in out
                else:
                    ok = rc == 0
                return ok, out[-1500:]
            ok_with, out_with = run_demo()
            res["demo_with_patch_passes"] = ok_with; res["demo_with_patch_tail"] = out_with[-600:]
            sh("git checkout -- src may_queue/src", cwd=wt)
            if os.path.exists(inject):
                rc, out = sh("git apply %s || git apply --unidiff-zero %s" % (inject, inject), cwd=wt)
                assert rc == 0, out
            ok_wo, out_wo = run_demo()
            res["demo_without_patch_passes"] = ok_wo; res["demo_without_patch_tail"] = out_wo[-400:]
            res["demo_ok"] = (not ok_with) and ok_wo
    finally:
        sh("git -C /repo worktree remove --force %s" % wt)
        shutil.rmtree(wt, ignore_errors=True)
    # checks on a scratch copy
    sc = tempfile.mkdtemp(prefix="may-seedscan-"); evd = tempfile.mkdtemp(prefix="may-seedscan-ev-")
    try:
        sh("rsync -a --exclude target --exclude .git /repo/ %s/" % sc)
        env2 = dict(os.environ, MAY_REPO=sc, VERIF_EVIDENCE_DIR=evd)
        man = json.load(open(os.path.join(VERIF, "MANIFEST.json")))
        allp = [c["property_id"] for c in man["checks"]]
        props = props or allp
        def scan():
            rc, out = sh("python3 %s/rules/main.py scan-all %s" % (VERIF, " ".join(props)), env=env2)
            last = out.strip().split("\n")[-1] if out.strip() else "{}"
            try: d = json.loads(last)
            except Exception: d = {"error": out[-300:]}
            return d
        base = scan()
        rc, out = sh("git apply --unsafe-paths --directory=%s %s || (cd %s && patch -p1 < %s)" % (sc, patch, sc, patch), cwd="/")
        got = scan()
        caught = {}
        if "error" in got:
            caught = {p: ["BROKEN-CHECKER: " + str(got["error"])[-300:]] for p in props}
        else:
            for p in props:
                new = sorted(k for k in set(got.get(p, [])) - set(base.get(p, [])) if k)
                if new: caught[p] = new
        res["checks_caught"] = caught
    finally:
        shutil.rmtree(sc, ignore_errors=True); shutil.rmtree(evd, ignore_errors=True)
    return res

if __name__ == "__main__":
    r = main()
    if "--rescan" in sys.argv:
        old = os.path.join(r["seed"], "verify.json")
        if os.path.exists(old):
            o = json.load(open(old)); o["checks_caught"] = r.get("checks_caught", {}); o["rescanned_at"] = r["time"]; r = o
    if "--no-write" not in sys.argv:
        json.dump(r, open(os.path.join(r["seed"], "verify.json"), "w"), indent=1)
    print(json.dumps({k: v for k, v in r.items() if not k.endswith("_tail")}, indent=1))
