#!/usr/bin/env python3
"""Blind-spot map: for every property, the functions defined in its anchor files (properties.jsonl) and how many
obligations of that property's check are anchored in each (from evidence/<id>.json). Functions with zero obligations
in an anchored file are where a seeded change is most likely to go unnoticed.
usage: coverage_map.py [Cxx ...] [--all-props]   (--all-props: count obligations of every property, not only its own)"""
import json, os, sys, collections
VERIF = os.path.dirname(os.path.dirname(os.path.abspath(__file__)))
sys.path.insert(0, os.path.join(VERIF, "rules"))
os.environ.setdefault("VERIF_NO_INLINE", "1")
import main as M

def nstmts(f):
    return sum(len(b["st"]) + 1 for b in f.blocks if not b["cl"])

def run(sel, allprops):
    prog = M.load_program("default")
    byfile = collections.defaultdict(list)
    for k, f in prog.fns.items():
        byfile[f.file].append(f)
    props = [json.loads(l) for l in open(os.path.join(VERIF, "properties.jsonl"))]
    ev = {}
    for p in props:
        e = json.load(open(os.path.join(VERIF, "evidence", p["id"] + ".json")))
        c = collections.Counter()
        for s in e["coverage"]["samples"]:
            c[s["item"]] += 1
        ev[p["id"]] = c
    tot = collections.Counter()
    for c in ev.values(): tot.update(c)
    for p in props:
        if sel and p["id"] not in sel: continue
        cnt = tot if allprops else ev[p["id"]]
        print("== %s %s" % (p["id"], p["title"]))
        for af in p["anchors"]["files"]:
            fns = [f for file, l in byfile.items() if file.endswith(af) for f in l]
            fns.sort(key=lambda f: f.line)
            cov = unc = 0
            lines = []
            for f in fns:
                base = f.id.split("::{closure")[0]
                n = cnt.get(f.id, 0)
                nb = cnt.get(base, 0) if base != f.id else 0
                sz = nstmts(f)
                if n or nb: cov += 1
                else:
                    unc += 1
                    if sz >= 6: lines.append("      - %-90s line %-4d size %d" % (f.id[-90:], f.line, sz))
            print("   %s: %d functions, %d with obligations (or inside one that has), %d without" % (af, len(fns), cov, unc))
            for l in lines: print(l)

if __name__ == "__main__":
    a = sys.argv[1:]
    run([x for x in a if not x.startswith("--")], "--all-props" in a)
