#!/bin/bash
# collect finished seeds of round R (dirs 1,2 -> Cxx-(2R-1), Cxx-(2R)), scan them, remove the agent worktree
# usage: collect_round.sh <R> <Cxx>...
cd /verif
R=$1; shift
for p in "$@"; do
  o=/tmp/seed$R-$p-out
  [ -f $o/1/patch.diff ] && [ -f $o/2/patch.diff ] || { echo "$p not ready"; continue; }
  for k in 1 2; do
    n=$((2*R-2+k)); d=seeded/$p-$n; mkdir -p $d
    cp $o/$k/patch.diff $o/$k/demo.rs $d/ 2>/dev/null; cp $o/$k/notes.txt $d/ 2>/dev/null; cp $o/$k/inject.diff $d/ 2>/dev/null
    (cd /repo && git apply --check /verif/$d/patch.diff 2>/dev/null && echo "$p-$n applies" || echo "$p-$n DOES NOT APPLY")
    r=$(python3 tools/seedcheck.py $d --skip-suite --skip-demo --no-write 2>/dev/null | python3 -c "import json,sys; d=json.load(sys.stdin); print({k:[x.split('|')[-1] for x in v] for k,v in d.get('checks_caught',{}).items()})")
    echo "$p-$n caught: $r"
  done
  git -C /repo worktree remove --force /tmp/seed$R-$p 2>/dev/null; rm -rf $o
done
