#!/bin/bash
# verify every seed that has no verify.json with suite/demo results yet (PAR at a time, default 2)
cd /verif
PAR=${PAR:-2}
todo=""
for d in seeded/*/; do
  d=${d%/}
  if [ -f "$d/verify.json" ] && grep -q '"demo_ok"' "$d/verify.json"; then continue; fi
  [ -f "$d/patch.diff" ] || continue
  todo="$todo $d"
done
echo "to verify:$todo"
echo $todo | tr ' ' '\n' | xargs -P $PAR -I{} sh -c 'echo "=== {} $(date +%T)"; python3 tools/seedcheck.py {} > {}/verify.log 2>&1; grep -E "\"(suite_ok|demo_ok|patch_applies)\"" {}/verify.log | tr "\n" " "; echo'
