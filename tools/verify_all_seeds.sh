#!/bin/bash
# verify every seed that has no verify.json with suite/demo results yet (sequential)
cd /verif
for d in seeded/*/; do
  d=${d%/}
  if [ -f "$d/verify.json" ] && grep -q '"demo_ok"' "$d/verify.json"; then continue; fi
  [ -f "$d/patch.diff" ] || continue
  echo "=== $d $(date +%T)"
  python3 tools/seedcheck.py "$d" > "$d/verify.log" 2>&1
  tail -3 "$d/verify.log"
done
