#!/bin/bash
# re-run all checks against every seed (static scan only) and record which checks catch it; prints seeds not caught by their own property
cd /verif
ls -d seeded/*/ | xargs -P ${PAR:-5} -I{} sh -c 'python3 tools/seedcheck.py {} --skip-suite --skip-demo --rescan > /dev/null 2>&1'
python3 - <<'PY'
import json, glob, os
miss = []; n = 0
for d in sorted(glob.glob("/verif/seeded/*/")):
    v = os.path.join(d, "verify.json")
    if not os.path.exists(v): miss.append((os.path.basename(d[:-1]), "no verify.json")); continue
    j = json.load(open(v)); n += 1
    sid = os.path.basename(d[:-1]); own = sid.split("-")[0]
    cc = j.get("checks_caught", {})
    if own not in cc: miss.append((sid, "caught only by %s" % sorted(cc) if cc else "NOT CAUGHT"))
print("seeds: %d, not caught by own property: %d" % (n, len(miss)))
for m in miss: print("  ", m)
PY
