#!/usr/bin/env python3
"""list the silent mutants of a mutsweep result file   usage: mutsilent.py <jsonl> [file-substr ...]"""
import json, sys
for l in open(sys.argv[1]):
    r = json.loads(l)
    if r["verdict"] != "silent": continue
    if sys.argv[2:] and not any(s in r["file"] for s in sys.argv[2:]): continue
    print("%s:%d [%s] %s | %s" % (r["file"], r["line"], r["fn"].split("::", 2)[-1][:44], r["op"], r["old"].strip()[:90]))
