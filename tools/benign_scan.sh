#!/bin/bash
# run all checks against each benign refactoring patch in /verif/benign/<id>/patch.diff; any new violation key is a false alarm
# usage: [PAR=4] benign_scan.sh [id-prefix ...]   (default: all)
cd /verif
sel="${@:-}"
list=""
for d in /verif/benign/*/; do
  k=$(basename $d)
  if [ -n "$sel" ]; then ok=0; for s in $sel; do [[ $k == $s* ]] && ok=1; done; [ $ok = 1 ] || continue; fi
  list="$list $k"
done
echo $list | tr ' ' '\n' | xargs -P ${PAR:-4} -I@@ sh -c 'r=$(python3 tools/seedcheck.py /verif/benign/@@ --skip-suite --skip-demo --no-write 2>/dev/null | python3 -c "import json,sys; d=json.load(sys.stdin); print(d.get(\"patch_applies\"), json.dumps(d.get(\"checks_caught\",{})))"); echo "BENIGN @@: $r"' | sort
