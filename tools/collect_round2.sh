#!/bin/bash
# collect finished round-2 seeds (dirs 1,2 -> Cxx-3, Cxx-4), scan them, remove the agent worktree
cd /verif
for p in "$@"; do
  o=/tmp/seed2-$p-out
  [ -f $o/1/patch.diff ] && [ -f $o/2/patch.diff ] || { echo "$p not ready"; continue; }
  for k in 1 2; do
    n=$((k+2)); d=seeded/$p-$n; mkdir -p $d
    cp $o/$k/patch.diff $o/$k/demo.rs $d/ 2>/dev/null; cp $o/$k/notes.txt $d/ 2>/dev/null; cp $o/$k/inject.diff $d/ 2>/dev/null
    (cd /repo && git apply --check /verif/$d/patch.diff 2>/dev/null && echo "$p-$n applies" || echo "$p-$n DOES NOT APPLY")
    r=$(python3 tools/seedcheck.py $d --skip-suite --skip-demo --no-write 2>/dev/null | python3 -c "import json,sys; d=json.load(sys.stdin); print({k:[x.split('|')[-1] for x in v] for k,v in d.get('checks_caught',{}).items()})")
    echo "$p-$n caught: $r"
  done
  git -C /repo worktree remove --force /tmp/seed2-$p 2>/dev/null; rm -rf $o
done
