#!/usr/bin/env python3
"""debug aid: print the edge atoms of every switch of a function   usage: atoms.py <fn-id-substr> [config]"""
import sys, os
V = os.path.dirname(os.path.dirname(os.path.abspath(__file__)))
sys.path.insert(0, os.path.join(V, "rules"))
import main as M
from engine import *
prog = M.load_program(sys.argv[2] if len(sys.argv) > 2 else "default")
for k, f in sorted(prog.fns.items()):
    if sys.argv[1] not in k: continue
    print("==", k)
    for bi in range(f.nblocks()):
        if f.is_cleanup(bi) or f.term(bi)["t"] != "sw": continue
        print(" bb%d  line %s  switch on %s" % (bi, f.term(bi).get("ln"), fmt_origin(switch_info(f, bi))[:160]))
        for tb, lab in f.term_succs(bi):
            print("     -> bb%d %s: %s" % (tb, lab, [repr(a)[:220] for a in edge_atoms(prog, f, bi, lab) if a.kind not in ("truth",)]))
