#!/bin/bash
# usage: scratch.sh <name> <patch>...  -> /tmp/scr-<name> = copy of /repo with the patches applied
d=/tmp/scr-$1; shift
rm -rf $d; rsync -a --exclude target --exclude .git /repo/ $d/
for p in "$@"; do (cd $d && patch -p1 -s < $p) || echo "PATCH FAILED $p"; done
echo $d
