#![cfg(all(unix, feature = "io_cancel", feature = "io_timeout"))]
use std::sync::Arc;
use std::thread;
use std::time::{Duration, Instant};

#[macro_use]
extern crate may;

fn socks(n: usize, to_ms: u64) -> Vec<Arc<may::net::UdpSocket>> {
    (0..n)
        .map(|_| {
            let s = may::net::UdpSocket::bind("127.0.0.1:0").unwrap();
            s.set_read_timeout(Some(Duration::from_millis(to_ms))).unwrap();
            Arc::new(s)
        })
        .collect()
}

fn wave(socks: &[Arc<may::net::UdpSocket>]) -> Vec<may::coroutine::JoinHandle<(bool, Duration)>> {
    socks
        .iter()
        .map(|s| {
            let s = s.clone();
            go!(move || {
                let mut buf = [0u8; 8];
                let st = Instant::now();
                let r = s.recv_from(&mut buf);
                (r.is_err(), st.elapsed())
            })
        })
        .collect()
}

// scratch stress 1: cancel well before the io timer expires, then block again on the same sockets
#[test]
fn stress_cancel_then_reuse() {
    may::config().set_workers(4);
    let socks = socks(16, 30);
    let mut early = 0usize;
    let mut cancelled = 0usize;
    for round in 0..150u64 {
        let hs = wave(&socks);
        thread::sleep(Duration::from_micros(1_000 + (round % 40) * 100));
        for h in &hs {
            unsafe { h.coroutine().cancel() };
        }
        for h in hs {
            if h.join().is_err() {
                cancelled += 1;
            }
        }
        // second wave must run into its own full timeout
        thread::sleep(Duration::from_micros((round % 25) * 1000));
        for h in wave(&socks) {
            let (is_err, el) = h.join().unwrap();
            assert!(is_err);
            if el < Duration::from_millis(29) {
                early += 1;
            }
        }
    }
    println!("reuse: cancelled={cancelled} early={early}");
    assert_eq!(cancelled, 150 * 16);
    assert_eq!(early, 0);
}

// scratch stress 2 (adversarial): cancel right around the instant the io timer expires
#[test]
#[ignore]
fn stress_cancel_vs_timeout() {
    may::config().set_workers(4);
    let socks = socks(16, 10);
    let mut cancelled = 0usize;
    let mut timed_out = 0usize;
    let mut early = 0usize;
    for round in 0..400u64 {
        let hs = wave(&socks);
        // sweep the cancel point across the expiry instant
        thread::sleep(Duration::from_micros(9_000 + (round % 40) * 50));
        for h in &hs {
            unsafe { h.coroutine().cancel() };
        }
        for h in hs {
            match h.join() {
                Ok((is_err, el)) => {
                    assert!(is_err);
                    if el < Duration::from_millis(9) {
                        early += 1;
                    }
                    timed_out += 1;
                }
                Err(_) => cancelled += 1,
            }
        }
    }
    println!("adversarial: cancelled={cancelled} timed_out={timed_out} early={early}");
    assert_eq!(early, 0);
}
