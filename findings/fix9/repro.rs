// Reproduction for F9: `CancelIoImpl::cancel` (src/io/sys/unix/cancel.rs) leaves the
// io timeout timer of the cancelled socket operation armed; the stale timer later
// times out an unrelated, later operation on the same socket too early.
//
// WHERE TO PUT: copy this file to `tests/repro_f9.rs` of the `may` crate.
// HOW TO RUN:   cargo test --offline --test repro_f9 -- --nocapture
// EXPECTED:     unfixed tree -> FAILS (B is timed out after ~300 ms instead of ~600 ms)
//               fixed tree   -> passes (B is timed out after ~600 ms)
// Needs the default features (`io_cancel` + `io_timeout`), unix (epoll/kqueue) only.
#![cfg(all(unix, feature = "io_cancel", feature = "io_timeout"))]

use std::io::ErrorKind;
use std::sync::Arc;
use std::thread;
use std::time::{Duration, Instant};

#[macro_use]
extern crate may;

const READ_TIMEOUT: Duration = Duration::from_millis(600);

#[test]
fn cancelled_io_timer_does_not_hit_later_io_on_same_socket() {
    may::config().set_workers(2);

    let s = Arc::new(may::net::UdpSocket::bind("127.0.0.1:0").unwrap());
    s.set_read_timeout(Some(READ_TIMEOUT)).unwrap();

    let t0 = Instant::now();

    // coroutine A: blocks in recv_from at t=0, arms a 600 ms io timer
    let sa = s.clone();
    let a = go!(move || {
        let mut buf = [0u8; 16];
        let r = sa.recv_from(&mut buf);
        // not reached when the cancel is delivered (cancel unwinds the coroutine)
        println!("A: recv_from returned {r:?}");
    });

    // t=100 ms: cancel A while it is blocked in the socket io
    thread::sleep(Duration::from_millis(100));
    unsafe { a.coroutine().cancel() };
    assert!(a.join().is_err(), "A should end with the Cancel panic");
    println!("A cancelled at {:?}", t0.elapsed());

    // t=300 ms: coroutine B starts a fresh recv_from on the same socket
    let wait = Duration::from_millis(300).saturating_sub(t0.elapsed());
    thread::sleep(wait);
    let sb = s.clone();
    let b = go!(move || {
        let mut buf = [0u8; 16];
        let start = Instant::now();
        let r = sb.recv_from(&mut buf);
        (r.map(|_| ()).map_err(|e| e.kind()), start.elapsed())
    });

    let (res, elapsed) = b.join().unwrap();
    println!("B: result={res:?} elapsed={elapsed:?} (read timeout {READ_TIMEOUT:?})");

    assert_eq!(res, Err(ErrorKind::TimedOut));
    assert!(
        elapsed >= Duration::from_millis(550),
        "B was timed out after {elapsed:?}, well before its own {READ_TIMEOUT:?} timeout: \
         the timer armed by the cancelled operation of A fired on B"
    );
    assert!(elapsed < Duration::from_millis(1500), "B took {elapsed:?}");
}
