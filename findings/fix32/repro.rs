//! a coroutine that keeps yielding (polls a flag with `yield_now`) keeps the local run queue
//! of its worker non-empty, `Scheduler::run_queued_tasks` never returns to the event loop
//! and the io events (and io timers) of that worker are never served again. With as many
//! such coroutines as workers no io event is served at all: the coroutine that waits for
//! a datagram - and would set the flag - is never resumed.
//!
//! H3_WORKERS=n (default 1) runs it with n workers and n polling coroutines
#[macro_use]
extern crate may;

use may::coroutine;
use may::net::UdpSocket;
use std::sync::atomic::{AtomicBool, Ordering};
use std::sync::mpsc::channel;
use std::sync::Arc;
use std::thread;
use std::time::Duration;

#[test]
fn yielding_coroutines_do_not_starve_io() {
    let workers: usize = std::env::var("H3_WORKERS")
        .ok()
        .and_then(|v| v.parse().ok())
        .unwrap_or(1);
    may::config().set_workers(workers);

    let sock = UdpSocket::bind("127.0.0.1:0").unwrap();
    let addr = sock.local_addr().unwrap();
    let flag = Arc::new(AtomicBool::new(false));

    let f = flag.clone();
    let reader = go!(move || {
        let mut buf = [0u8; 16];
        let (n, _) = sock.recv_from(&mut buf).unwrap();
        assert_eq!(&buf[..n], b"ping");
        f.store(true, Ordering::SeqCst);
    });

    let spinners: Vec<_> = (0..workers)
        .map(|_| {
            let f = flag.clone();
            go!(move || {
                while !f.load(Ordering::SeqCst) {
                    coroutine::yield_now();
                }
            })
        })
        .collect();

    thread::sleep(Duration::from_millis(200));
    let s = std::net::UdpSocket::bind("127.0.0.1:0").unwrap();
    s.send_to(b"ping", addr).unwrap();

    let (tx, rx) = channel();
    thread::spawn(move || {
        reader.join().unwrap();
        for s in spinners {
            s.join().unwrap();
        }
        tx.send(()).ok();
    });
    if rx.recv_timeout(Duration::from_secs(5)).is_err() {
        // let the polling coroutines go so that the process can end
        let delivered = flag.swap(true, Ordering::SeqCst);
        panic!(
            "the datagram was sent 5s ago, the reader has not been resumed (flag = {delivered})"
        );
    }
}
