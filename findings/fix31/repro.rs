//! the initialiser of a coroutine local key may read an other coroutine local key,
//! just like the initialiser of a `thread_local!` may read an other thread local
#[macro_use]
extern crate may;

use std::sync::mpsc;
use std::time::Duration;

coroutine_local!(static BASE: u32 = 40);
// the initialiser of DERIVED reads an other coroutine local key
coroutine_local!(static DERIVED: u32 = BASE.with(|b| *b + 2));

#[test]
fn nested_init_in_coroutine() {
    let (tx, rx) = mpsc::channel();
    let h = go!(move || {
        let v = DERIVED.with(|d| *d);
        tx.send(v).unwrap();
    });
    let r = rx.recv_timeout(Duration::from_secs(5));
    let j = h.join();
    assert_eq!(
        r.ok(),
        Some(42),
        "the coroutine panicked: {:?}",
        j.map_err(|e| e.downcast_ref::<String>().cloned())
    );
}

#[test]
fn nested_init_in_thread() {
    let v = std::thread::spawn(|| DERIVED.with(|d| *d)).join();
    assert_eq!(v.ok(), Some(42));
}

// every coroutine still gets its own value, the value is created once per coroutine
#[test]
fn nested_init_is_per_coroutine_and_runs_once() {
    use std::sync::atomic::{AtomicUsize, Ordering};
    static INITS: AtomicUsize = AtomicUsize::new(0);
    coroutine_local!(static A: AtomicUsize = AtomicUsize::new(1));
    coroutine_local!(static B: AtomicUsize = {
        INITS.fetch_add(1, Ordering::SeqCst);
        AtomicUsize::new(A.with(|a| a.load(Ordering::SeqCst)) + 1)
    });
    let hs: Vec<_> = (0..8)
        .map(|i| {
            go!(move || {
                A.with(|a| a.store(10 * i, Ordering::SeqCst));
                may::coroutine::yield_now();
                let b = B.with(|b| b.load(Ordering::SeqCst));
                may::coroutine::yield_now();
                let b2 = B.with(|b| b.load(Ordering::SeqCst));
                (b, b2)
            })
        })
        .collect();
    for (i, h) in hs.into_iter().enumerate() {
        let r = h.join().map_err(|e| e.downcast_ref::<String>().cloned());
        assert_eq!(r, Ok((10 * i + 1, 10 * i + 1)));
    }
    assert_eq!(INITS.load(Ordering::SeqCst), 8);
}

// reference behaviour of std
#[test]
fn std_thread_local_reference_behaviour() {
    thread_local!(static B: u32 = 40);
    thread_local!(static D: u32 = B.with(|b| *b + 2));
    assert_eq!(D.with(|d| *d), 42);
}
