//! Repro for F10: a stale "passed-in result" (`Canceled`) left in a pooled
//! coroutine stack is inherited by the next coroutine spawned on that stack.
//!
//! WHERE TO PUT: copy this file to `<may checkout>/tests/repro_f10.rs`.
//!
//! HOW TO RUN (offline):
//!   CARGO_TARGET_DIR=/tmp/fix10/target \
//!     cargo test --offline --test repro_f10 -- --test-threads=1 --nocapture
//!
//! There are two tests:
//!
//! * `wait_io_short_circuit_does_not_leak_canceled`
//!     needs NO modification of the library. It fails on the unfixed tree and
//!     passes with fix.diff applied.
//!
//! * `cqueue_send_short_circuit_does_not_leak_canceled`
//!     the race window in `EventSender::send` (between `cancel.check_cancel()`
//!     and the `cancel.is_canceled()` test at the top of `yield_with(self)`) is
//!     only a few instructions wide, so to hit it deterministically a
//!     TEMPORARY 200 ms `thread::sleep` has to be injected there
//!     (`git apply inject.diff`, test only, never ship it).
//!       - unfixed tree + inject.diff  -> FAILS  (join() == Err(Cancel))
//!       - fix.diff     + inject.diff  -> passes
//!       - without inject.diff         -> passes either way (window not hit)
//!
//! Both tests rely on `set_workers(1)` + `set_pool_capacity(1)` so that the
//! victim coroutine is guaranteed to get the very stack the cancelled
//! coroutine just gave back to the `CoroutinePool`. They are serialised by a
//! lock because that configuration is process wide.

#[macro_use]
extern crate may;

use may::cqueue;
use may::io::WaitIo;
use may::sync::Semphore;

use std::sync::{Arc, Mutex, MutexGuard};
use std::thread;
use std::time::Duration;

static SERIAL: Mutex<()> = Mutex::new(());

fn setup() -> MutexGuard<'static, ()> {
    let g = SERIAL.lock().unwrap_or_else(|e| e.into_inner());
    // one worker, one pooled stack: every coroutine of this process that runs
    // after another one finished reuses the same `CoroutineImpl`
    may::config().set_workers(1).set_pool_capacity(1);
    g
}

/// Spawn a coroutine that is NEVER cancelled, let it really park on a
/// semaphore, wake it up and return what `join()` gives.
fn run_victim() -> thread::Result<usize> {
    // give the previous coroutine time to be put back into the pool
    thread::sleep(Duration::from_millis(100));

    let sem = Arc::new(Semphore::new(0));
    let sem2 = sem.clone();
    let h = go!(move || {
        // first blocking call of a brand new coroutine
        sem2.wait();
        42usize
    });
    // make sure the victim is parked before it is woken up, so that it goes
    // through `Park::park_timeout` -> `get_co_para()`
    thread::sleep(Duration::from_millis(100));
    sem.post();
    h.join()
}

fn describe(r: &thread::Result<usize>) -> String {
    match r {
        Ok(v) => format!("Ok({v})"),
        Err(e) => match e.downcast_ref::<generator::Error>() {
            Some(e) => format!("Err({e:?})"),
            None => "Err(<other panic>)".to_owned(),
        },
    }
}

#[test]
fn cqueue_send_short_circuit_does_not_leak_canceled() {
    let _g = setup();

    cqueue::scope(|cqueue| {
        // a select arm with an empty top half and an empty bottom half
        let selector = go!(cqueue, 0, |es| {
            es.send(0);
        });
        // with inject.diff the arm is now stalled for 200 ms inside
        // `EventSender::send`, after `check_cancel()`, before `yield_with()`
        thread::sleep(Duration::from_millis(80));
        // cancel the arm (this is what `select!` / dropping a cqueue does)
        selector.remove();
        // leaving the scope drops the cqueue: waits until the arm is finished
    });

    let r = run_victim();
    println!("victim after cancelled select arm: {}", describe(&r));
    assert_eq!(
        r.ok(),
        Some(42),
        "a coroutine that was never cancelled observed a cancellation \
         (stale `Canceled` result inherited through the pooled stack)"
    );
}

#[test]
fn wait_io_short_circuit_does_not_leak_canceled() {
    let _g = setup();

    // a listening socket never gets an event unless somebody connects, so its
    // `io_flag` stays 0 and `wait_io()` goes down to `yield_with_io()`
    let listener = may::net::TcpListener::bind("127.0.0.1:0").unwrap();

    let a = go!(move || {
        // stay on the cpu (not blocked inside the runtime) while the cancel
        // request arrives: only the cancel bit gets set
        thread::sleep(Duration::from_millis(200));
        // the cancel bit is set -> `yield_with()` short-circuits, injects the
        // `Canceled` result and `RawIoBlock::yield_back()` swallows the cancel
        let _ = listener.wait_io();
        // ... and the coroutine finishes without any other blocking call
    });
    thread::sleep(Duration::from_millis(80));
    unsafe { a.coroutine().cancel() };
    // whatever the outcome for `a` is, it is not what is tested here
    let _ = a.join();

    let r = run_victim();
    println!("victim after cancelled wait_io: {}", describe(&r));
    assert_eq!(
        r.ok(),
        Some(42),
        "a coroutine that was never cancelled observed a cancellation \
         (stale `Canceled` result inherited through the pooled stack)"
    );
}
