// NOT a test of the delivered fix. shows why "withdraw the release request and park again on
// the same blocker" (variant_hazard.diff, with two injected stalls) loses the wakeup.
#[macro_use]
extern crate may;

use may::sync::{Condvar, Mutex};
use std::sync::atomic::{AtomicBool, Ordering::SeqCst};
use std::sync::Arc;
use std::thread;
use std::time::{Duration, Instant};

#[test]
fn f14_hazard_cancel_between_token_and_flag() {
    may::config().set_workers(2);
    let pair = Arc::new((Mutex::new(()), Condvar::new()));
    let c_waiting = Arc::new(AtomicBool::new(false));
    let c = {
        let (pair, c_waiting) = (pair.clone(), c_waiting.clone());
        go!(move || {
            let (m, cv) = &*pair;
            let g = m.lock().unwrap();
            c_waiting.store(true, SeqCst);
            let g = cv.wait(g).unwrap();
            println!("C: got the mutex back");
            drop(g);
        })
    };
    while !c_waiting.load(SeqCst) {
        thread::sleep(Duration::from_millis(5));
    }
    let g = pair.0.lock().unwrap();
    thread::sleep(Duration::from_millis(100));
    pair.1.notify_one();
    // C parks in the re-lock (cancel disabled)
    thread::sleep(Duration::from_millis(500));
    // t0: the cancel takes C out of the park slot, C resumes and stalls 100 ms (inject A)
    unsafe { c.coroutine().cancel() };
    thread::sleep(Duration::from_millis(10));
    // t0+10: unlock pops C: Park.state = true (nobody in the slot), stalls 300 ms (inject B);
    // t0+100: C clears the token, sees !is_unparked, ...; t0+310: unparked = true, take_release
    drop(g);
    let end = Instant::now() + Duration::from_secs(3);
    while !c.is_done() && Instant::now() < end {
        thread::sleep(Duration::from_millis(10));
    }
    println!("C done = {}, try_lock ok = {}", c.is_done(), pair.0.try_lock().is_ok());
    assert!(c.is_done(), "C hangs: it owns the mutex and is parked without a waker");
}
