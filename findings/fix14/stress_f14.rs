// Stress for F14 (not a deterministic reproduction): a cancel races with the unlock while the
// waiter C sits in the cancel-disabled re-lock of Condvar::wait, a second waiter D contends.
// invariants: never two owners, nobody hangs, the mutex is free at the end of every round.
//
// RUN: CARGO_TARGET_DIR=/tmp/fix14/target cargo test --offline --test stress_f14 -- --nocapture
#[macro_use]
extern crate may;

use may::sync::{Condvar, Mutex};
use std::sync::atomic::{AtomicBool, AtomicUsize, Ordering::SeqCst};
use std::sync::Arc;
use std::thread;
use std::time::{Duration, Instant};

fn spin(us: u64) {
    let end = Instant::now() + Duration::from_micros(us);
    while Instant::now() < end {
        std::hint::spin_loop();
    }
}

fn wait_for(f: impl Fn() -> bool) -> bool {
    let end = Instant::now() + Duration::from_secs(5);
    while !f() {
        if Instant::now() > end {
            return false;
        }
        thread::yield_now();
    }
    true
}

struct Probe {
    busy: AtomicBool,
    violations: AtomicUsize,
}

impl Probe {
    fn critical(&self) {
        if self.busy.swap(true, SeqCst) {
            self.violations.fetch_add(1, SeqCst);
        }
        spin(20);
        self.busy.store(false, SeqCst);
    }
}

#[test]
fn f14_stress_cancel_vs_unlock() {
    may::config().set_workers(2);
    let rounds: usize = std::env::var("F14_ROUNDS")
        .ok()
        .and_then(|s| s.parse().ok())
        .unwrap_or(3000);
    let mut seed = 0x9e3779b97f4a7c15u64;
    let mut rnd = move |n: u64| {
        seed ^= seed << 13;
        seed ^= seed >> 7;
        seed ^= seed << 17;
        seed % n
    };
    let mut c_canceled_in_wait = 0;

    for round in 0..rounds {
        let pair = Arc::new((Mutex::new(()), Condvar::new()));
        let probe = Arc::new(Probe {
            busy: AtomicBool::new(false),
            violations: AtomicUsize::new(0),
        });
        let c_waiting = Arc::new(AtomicBool::new(false));
        let c = {
            let (pair, probe, c_waiting) = (pair.clone(), probe.clone(), c_waiting.clone());
            go!(move || {
                let (m, cv) = &*pair;
                let g = m.lock().unwrap();
                c_waiting.store(true, SeqCst);
                let g = cv.wait(g).unwrap();
                probe.critical();
                drop(g);
            })
        };
        assert!(wait_for(|| c_waiting.load(SeqCst)), "round {round}: C never started");
        let g = pair.0.lock().unwrap();
        probe.critical();
        pair.1.notify_one();
        // most of the time long enough for C to park in the re-lock
        spin(rnd(150));
        let d = {
            let (pair, probe) = (pair.clone(), probe.clone());
            go!(move || {
                let g = pair.0.lock().unwrap();
                probe.critical();
                drop(g);
            })
        };
        let (t_cancel, t_unlock) = (rnd(120), rnd(120));
        thread::scope(|s| {
            s.spawn(|| {
                spin(t_cancel);
                unsafe { c.coroutine().cancel() };
            });
            spin(t_unlock);
            drop(g);
        });

        assert!(
            wait_for(|| c.is_done() && d.is_done()),
            "round {round}: hang, c done={} d done={}",
            c.is_done(),
            d.is_done()
        );
        assert_eq!(probe.violations.load(SeqCst), 0, "round {round}: two owners");
        assert!(pair.0.try_lock().is_ok(), "round {round}: idle mutex is not free");
        if c.join().is_err() {
            c_canceled_in_wait += 1;
        }
    }
    println!("{rounds} rounds ok, C ended with a Cancel panic in {c_canceled_in_wait} of them");
}
