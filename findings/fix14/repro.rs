// Reproduction for F14: `may::sync::Mutex::lock` keeps a stale "release" request when a
// waiter is cancelled while its cancel is disabled (the re-lock inside `Condvar::wait`).
//
// WHERE:  copy this file to `<may checkout>/tests/repro_f14.rs` (integration test, public API only)
// RUN:    CARGO_TARGET_DIR=/tmp/fix14/target cargo test --offline --test repro_f14 -- --nocapture
//
// unmodified tree (906a9d4): all three tests FAIL
//   f14_two_owners              max_inside == 2 (C and D in the critical section together)
//   f14_try_lock_while_owned    main's try_lock() succeeds while C is inside its critical section
//   f14_lock_usable_afterwards  after C and D left, the counter wrapped to usize::MAX, lock() hangs
// fixed tree: all three pass.
//
// no sleep is injected into the library, every step of the schedule ends in a state where the
// involved coroutine is parked, the sleeps in the test only wait for these stable states.
#[macro_use]
extern crate may;

use may::sync::{Condvar, Mutex};
use std::sync::atomic::{AtomicBool, AtomicUsize, Ordering::SeqCst};
use std::sync::{mpsc, Arc, TryLockError};
use std::thread;
use std::time::{Duration, Instant};

// the tests block the worker threads with thread::sleep on purpose (C has a pending cancel,
// a coroutine sleep would be a cancellation point), so run them one after the other
static SERIAL: std::sync::Mutex<()> = std::sync::Mutex::new(());

const STEP: Duration = Duration::from_millis(150);
const HOLD: Duration = Duration::from_millis(500);

struct Probe {
    inside: AtomicUsize,
    max_inside: AtomicUsize,
    entered: AtomicUsize,
}

impl Probe {
    fn new() -> Arc<Self> {
        Arc::new(Probe {
            inside: AtomicUsize::new(0),
            max_inside: AtomicUsize::new(0),
            entered: AtomicUsize::new(0),
        })
    }
    // the body of every critical section
    fn critical(&self, who: &str) {
        let n = self.inside.fetch_add(1, SeqCst) + 1;
        self.max_inside.fetch_max(n, SeqCst);
        self.entered.fetch_add(1, SeqCst);
        println!("{who}: enter, inside={n}");
        // not a coroutine API: no cancellation point, no reschedule
        thread::sleep(HOLD);
        let n = self.inside.fetch_sub(1, SeqCst) - 1;
        println!("{who}: leave, inside={n}");
    }
}

fn wait_for(what: &str, f: impl Fn() -> bool) -> bool {
    let end = Instant::now() + Duration::from_secs(5);
    while !f() {
        if Instant::now() > end {
            println!("timeout while waiting for: {what}");
            return false;
        }
        thread::sleep(Duration::from_millis(5));
    }
    true
}

type Shared = Arc<(Mutex<()>, Condvar)>;

// brings coroutine C into the state "parked a second time inside Mutex::lock (the re-lock of
// Condvar::wait, cancel disabled) after it was woken by a cancel", the mutex is held by the
// caller (the returned guard belongs to the calling thread)
fn setup<'a>(
    pair: &'a Shared,
    probe: &Arc<Probe>,
) -> (may::coroutine::JoinHandle<()>, may::sync::MutexGuard<'a, ()>) {
    may::config().set_workers(2);

    let c_waiting = Arc::new(AtomicBool::new(false));
    let c = {
        let pair = pair.clone();
        let probe = probe.clone();
        let c_waiting = c_waiting.clone();
        go!(move || {
            let (m, cv) = &*pair;
            let g = m.lock().unwrap();
            c_waiting.store(true, SeqCst);
            // wait_impl: unlock, park on the condvar, then disable_cancel() + m.lock()
            let g = cv.wait(g).unwrap();
            // C owns the mutex (that is what the returned guard says)
            probe.critical("C");
            drop(g);
        })
    };

    assert!(wait_for("C holds the mutex", || c_waiting.load(SeqCst)));
    // C released the mutex inside cv.wait, we get it when C is (about to be) parked on the condvar
    let g = pair.0.lock().unwrap();
    thread::sleep(STEP);
    // C wakes, its re-lock blocks: the mutex is ours. C parks in Mutex::lock with cancel disabled
    pair.1.notify_one();
    thread::sleep(STEP);
    // C is taken out of the park with Canceled: `b_ignore` path, `set_release()`, `continue`,
    // C parks again (the cancel is disabled, so it really parks)
    unsafe { c.coroutine().cancel() };
    thread::sleep(STEP);
    (c, g)
}

#[test]
fn f14_two_owners() {
    let _s = SERIAL.lock().unwrap_or_else(|e| e.into_inner());
    let pair: Shared = Arc::new((Mutex::new(()), Condvar::new()));
    let probe = Probe::new();
    let (c, g) = setup(&pair, &probe);

    // D queues behind C
    let d = {
        let pair = pair.clone();
        let probe = probe.clone();
        go!(move || {
            let g = pair.0.lock().unwrap();
            probe.critical("D");
            drop(g);
        })
    };
    thread::sleep(STEP);
    assert_eq!(probe.entered.load(SeqCst), 0, "nobody may enter while main owns the mutex");

    // unlock: pops C. broken tree: C's stale release flag makes unpark_one() call unlock()
    // once more "for C" which pops and wakes D too
    println!("main: unlock");
    drop(g);

    assert!(wait_for("C and D done", || c.is_done() && d.is_done()));
    let max = probe.max_inside.load(SeqCst);
    println!("max_inside = {max}");
    assert_eq!(probe.entered.load(SeqCst), 2);
    assert_eq!(max, 1, "C and D were inside the critical section at the same time");
}

#[test]
fn f14_try_lock_while_owned() {
    let _s = SERIAL.lock().unwrap_or_else(|e| e.into_inner());
    let pair: Shared = Arc::new((Mutex::new(()), Condvar::new()));
    let probe = Probe::new();
    let (c, g) = setup(&pair, &probe);

    // unlock: C is the only waiter. broken tree: the extra unlock() "for C" brings cnt to 0
    println!("main: unlock");
    drop(g);
    assert!(wait_for("C inside", || probe.inside.load(SeqCst) == 1));

    let r = pair.0.try_lock();
    let c_inside = probe.inside.load(SeqCst);
    let got_it = !matches!(r, Err(TryLockError::WouldBlock));
    println!("main: try_lock acquired = {got_it}, C inside = {c_inside}");
    // keep what we got (if any) until C is out, C's and our unlock don't overlap then
    assert!(wait_for("C done", || c.is_done()));
    drop(r);
    assert_eq!(c_inside, 1, "test schedule broken, C should still be inside");
    assert!(!got_it, "try_lock() succeeded while C owns the mutex");
}

#[test]
fn f14_lock_usable_afterwards() {
    let _s = SERIAL.lock().unwrap_or_else(|e| e.into_inner());
    let pair: Shared = Arc::new((Mutex::new(()), Condvar::new()));
    let probe = Probe::new();
    let (c, g) = setup(&pair, &probe);
    let d = {
        let pair = pair.clone();
        let probe = probe.clone();
        go!(move || {
            let g = pair.0.lock().unwrap();
            probe.critical("D");
            drop(g);
        })
    };
    thread::sleep(STEP);
    drop(g);
    assert!(wait_for("C and D done", || c.is_done() && d.is_done()));

    // everybody is out. broken tree: three unlocks for two acquisitions, cnt wrapped
    // around to usize::MAX: try_lock() never succeeds again, lock() parks forever
    let (tx, rx) = mpsc::channel();
    let p = pair.clone();
    thread::spawn(move || {
        let free = p.0.try_lock().is_ok();
        tx.send(free).ok();
        drop(p.0.lock());
        tx.send(true).ok();
    });
    let free = rx.recv_timeout(Duration::from_secs(2)).unwrap();
    let locked = rx.recv_timeout(Duration::from_secs(2)).is_ok();
    println!("idle mutex: try_lock ok = {free}, lock() returned = {locked}");
    assert!(free, "try_lock() fails on a mutex that nobody owns");
    assert!(locked, "lock() hangs on a mutex that nobody owns");
}
