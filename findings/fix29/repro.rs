//! The timer thread samples the clock once, runs the expired handlers (they resume
//! the timed out coroutines in place, on the timer thread) and then parks for
//! `next_expire - <the clock sampled before the handlers ran>`: the time the handlers
//! took is slept a second time, a timer that became due meanwhile is not fired when
//! the timer thread gets free but one "handler run time" later.
#[macro_use]
extern crate may;

use std::time::{Duration, Instant};

#[test]
fn pending_timer_is_late_twice_the_handler_time() {
    may::config().set_workers(2);
    go!(|| {}).join().unwrap();

    let mut worst = Duration::ZERO;
    for _ in 0..3 {
        let t0 = Instant::now();
        // A: times out after 10ms and then computes for 60ms before it blocks again.
        // it is resumed by the timer thread, so the timer thread is busy until t0+70ms
        let a = go!(move || {
            may::coroutine::sleep(Duration::from_millis(10));
            let s = Instant::now();
            while s.elapsed() < Duration::from_millis(60) {
                std::hint::spin_loop();
            }
            t0.elapsed()
        });
        // B: due at t0+40ms, while the timer thread is busy with A
        let b = go!(move || {
            may::coroutine::sleep(Duration::from_millis(40));
            t0.elapsed()
        });
        let a_done = a.join().unwrap();
        let b_done = b.join().unwrap();
        // nothing delays B's timer after A is done (the timer thread is idle again)
        let late = b_done.saturating_sub(a_done);
        println!("A done at {a_done:?}, B woke at {b_done:?}, {late:?} after the timer thread got free");
        worst = worst.max(late);
    }
    assert!(
        worst < Duration::from_millis(10),
        "the timer that was due while the timer thread was busy fired {worst:?} after the timer thread got free"
    );
}
