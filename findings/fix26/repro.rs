// the owner of a cqueue is cancelled while `poll` joins a select coroutine that has
// sent its Done event but is still running (it drops the values captured by its closure)
#[macro_use]
extern crate may;

use may::cqueue;
use may::cqueue::PollError;

use std::sync::atomic::{AtomicBool, AtomicUsize, Ordering};
use std::sync::Arc;
use std::time::Duration;

// a value owned by the select coroutine, its destructor takes some time
struct SlowDrop {
    finished: Arc<AtomicBool>,
}

impl Drop for SlowDrop {
    fn drop(&mut self) {
        std::thread::sleep(Duration::from_millis(400));
        self.finished.store(true, Ordering::SeqCst);
    }
}

// dropped by the owner right after `cqueue::scope` is left, normally or by unwinding
struct ScopeLeft {
    finished: Arc<AtomicBool>,
    // 1: the select coroutine was finished, 2: it was still running
    verdict: Arc<AtomicUsize>,
}

impl Drop for ScopeLeft {
    fn drop(&mut self) {
        let v = if self.finished.load(Ordering::SeqCst) { 1 } else { 2 };
        self.verdict.store(v, Ordering::SeqCst);
    }
}

#[test]
fn cqueue_owner_cancelled_in_done_join() {
    may::config().set_workers(4);
    let finished = Arc::new(AtomicBool::new(false));
    let verdict = Arc::new(AtomicUsize::new(0));

    let finished1 = finished.clone();
    let verdict1 = verdict.clone();
    let owner = go!(move || {
        let _left = ScopeLeft {
            finished: finished1.clone(),
            verdict: verdict1,
        };
        cqueue::scope(|cqueue| {
            let slow = SlowDrop {
                finished: finished1.clone(),
            };
            go!(cqueue, 0, move |es| {
                // the closure owns `slow`, it's dropped after the parameter `es`
                let _use = &slow;
                let _token = es.get_token();
            });

            loop {
                match cqueue.poll(None) {
                    Ok(_) => {}
                    Err(PollError::Finished) => break,
                    Err(PollError::Timeout) => unreachable!(),
                }
            }
        });
    });

    // the select coroutine is in `SlowDrop::drop`, the owner waits for it in `poll`
    std::thread::sleep(Duration::from_millis(100));
    unsafe { owner.coroutine().cancel() };
    owner.join().ok();

    let v = verdict.load(Ordering::SeqCst);
    assert_ne!(v, 0, "the owner never left the scope");
    assert_eq!(
        v, 1,
        "cqueue::scope was left while one of its select coroutines was still running"
    );
}
