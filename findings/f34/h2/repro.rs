//! `Sleep::subscribe` and `Park::subscribe` keep using the coroutine's `Cancel` after
//! the coroutine was handed to the timer (`Sleep`: `add_timer`, `Park`: armed timer +
//! `wait_co.store`). From that moment the timer thread may resume the coroutine, and
//! if the coroutine runs to completion and nobody else holds its handle (a detached
//! `go!`), the `Cancel` (it lives in the `Arc<Inner>` of the coroutine handle, owned
//! by the coroutine local storage) is freed: `cancel.set_co()` / `cancel.is_canceled()`
//! write to / read from freed memory.
//!
//! The window (the worker must be stalled in `subscribe` for as long as the timeout
//! takes) is opened with inject.diff (env MAY_H2_STALL_SLEEP_SUBSCRIBE /
//! MAY_H2_STALL_PARK_SUBSCRIBE).
//!
//! The use after free is observed with a quarantine allocator: blocks freed while
//! the test is armed are zeroed and never handed out again, so any non-zero byte
//! found in them afterwards was written after the free. (Zero is chosen so that the
//! library's stale accesses stay harmless: `None` in the slot, "not cancelled".)
#[macro_use]
extern crate may;

use std::alloc::{GlobalAlloc, Layout, System};
use std::sync::atomic::{AtomicBool, AtomicUsize, Ordering};
use std::time::Duration;

const CAP: usize = 1 << 16;
static ARMED: AtomicBool = AtomicBool::new(false);
static N: AtomicUsize = AtomicUsize::new(0);
static PTRS: [AtomicUsize; CAP] = [const { AtomicUsize::new(0) }; CAP];
static SIZES: [AtomicUsize; CAP] = [const { AtomicUsize::new(0) }; CAP];

struct Quarantine;

unsafe impl GlobalAlloc for Quarantine {
    unsafe fn alloc(&self, layout: Layout) -> *mut u8 {
        System.alloc(layout)
    }
    unsafe fn dealloc(&self, ptr: *mut u8, layout: Layout) {
        let size = layout.size();
        if ARMED.load(Ordering::Relaxed) && (64..=512).contains(&size) {
            let i = N.fetch_add(1, Ordering::Relaxed);
            if i < CAP {
                std::ptr::write_bytes(ptr, 0, size);
                SIZES[i].store(size, Ordering::Relaxed);
                PTRS[i].store(ptr as usize, Ordering::Release);
                return; // keep it forever
            }
        }
        System.dealloc(ptr, layout)
    }
}

#[global_allocator]
static ALLOC: Quarantine = Quarantine;

fn dirty_blocks(from: usize) -> Vec<(usize, usize, usize)> {
    let n = N.load(Ordering::SeqCst).min(CAP);
    let mut v = Vec::new();
    for i in from.min(n)..n {
        let p = PTRS[i].load(Ordering::Acquire) as *const u8;
        if p.is_null() {
            continue;
        }
        let size = SIZES[i].load(Ordering::Relaxed);
        let bytes = unsafe { std::slice::from_raw_parts(p, size) };
        if let Some(off) = bytes.iter().position(|b| *b != 0) {
            v.push((p as usize, size, off));
        }
    }
    v
}

#[test]
fn detached_coroutine_finishes_while_sleep_is_subscribing() {
    std::env::set_var("MAY_H2_STALL_SLEEP_SUBSCRIBE", "1");
    may::config().set_workers(2);
    // start the scheduler before we arm the quarantine
    go!(|| {}).join().unwrap();

    static DONE: AtomicUsize = AtomicUsize::new(0);
    let from = N.load(Ordering::SeqCst);
    ARMED.store(true, Ordering::SeqCst);
    let n = 8;
    for _ in 0..n {
        // detached: the join handle (and its coroutine handle) is dropped at once
        let h = go!(|| {
            may::coroutine::sleep(Duration::from_millis(1));
            DONE.fetch_add(1, Ordering::SeqCst);
        });
        drop(h);
    }
    let start = std::time::Instant::now();
    while DONE.load(Ordering::SeqCst) < n {
        assert!(start.elapsed() < Duration::from_secs(10), "sleep hangs");
        std::thread::sleep(Duration::from_millis(10));
    }
    // let the stalled workers finish their `subscribe`
    std::thread::sleep(Duration::from_millis(500));
    ARMED.store(false, Ordering::SeqCst);
    std::env::remove_var("MAY_H2_STALL_SLEEP_SUBSCRIBE");

    check_dirty(from);
}

fn check_dirty(from: usize) {
    let dirty = dirty_blocks(from);
    assert!(
        dirty.is_empty(),
        "{} freed blocks were written after they were freed: (addr, size, first dirty offset) = {:?}",
        dirty.len(),
        dirty
    );
}

#[test]
fn detached_coroutine_finishes_while_park_is_subscribing() {
    std::env::set_var("MAY_H2_STALL_PARK_SUBSCRIBE", "1");
    may::config().set_workers(2);
    // start the scheduler before we arm the quarantine
    go!(|| {}).join().unwrap();

    static DONE: AtomicUsize = AtomicUsize::new(0);
    // the sender lives on, so the channel keeps the `Blocker` of the timed out
    // `recv_timeout` (it stays in its `to_wake` slot) and the coroutine doesn't wait
    // for the "kernel" in `Park::drop` when it finishes
    let (tx, rx) = may::sync::mpsc::channel::<()>();
    let from = N.load(Ordering::SeqCst);
    ARMED.store(true, Ordering::SeqCst);
    let h = go!(move || {
        assert!(rx.recv_timeout(Duration::from_millis(1)).is_err());
        DONE.fetch_add(1, Ordering::SeqCst);
    });
    // detached
    drop(h);
    let start = std::time::Instant::now();
    while DONE.load(Ordering::SeqCst) < 1 {
        assert!(start.elapsed() < Duration::from_secs(10), "recv_timeout hangs");
        std::thread::sleep(Duration::from_millis(10));
    }
    // let the stalled worker finish its `subscribe`
    std::thread::sleep(Duration::from_millis(500));
    ARMED.store(false, Ordering::SeqCst);
    drop(tx);
    std::env::remove_var("MAY_H2_STALL_PARK_SUBSCRIBE");

    check_dirty(from);
}
