//! same defect as h2_sleep_cancel_uaf.rs, observed with the system allocator:
//! the stale `cancel.set_co()` drops the dangling `Arc` that the freed `Cancel`
//! still names (the `sleep_co` of the previous sleep) a second time.
#[macro_use]
extern crate may;

use std::sync::atomic::{AtomicUsize, Ordering};
use std::time::Duration;

#[test]
fn detached_coroutine_two_sleeps() {
    std::env::set_var("MAY_H2_STALL_SLEEP_SUBSCRIBE", "1");
    may::config().set_workers(2);
    static DONE: AtomicUsize = AtomicUsize::new(0);
    let n = 64;
    for _ in 0..n {
        let h = go!(|| {
            may::coroutine::sleep(Duration::from_millis(1));
            may::coroutine::sleep(Duration::from_millis(1));
            DONE.fetch_add(1, Ordering::SeqCst);
        });
        drop(h);
    }
    let start = std::time::Instant::now();
    while DONE.load(Ordering::SeqCst) < n {
        assert!(start.elapsed() < Duration::from_secs(20), "sleep hangs");
        std::thread::sleep(Duration::from_millis(10));
    }
    std::thread::sleep(Duration::from_millis(500));
    // some more traffic on the allocator
    for _ in 0..n {
        go!(|| {
            may::coroutine::sleep(Duration::from_millis(1));
        })
        .join()
        .unwrap();
    }
}
