//! `Park::subscribe` registers the coroutine for cancellation (`cancel.set_co`) *after*
//! it published the coroutine in `wait_co`. If the coroutine is unparked in between it
//! runs on an other worker and blocks on something else, which registers a new cancel
//! target. The late `set_co` of the first park then replaces the new registration by a
//! stale (empty) one and a following `cancel()` finds nobody to wake up: the coroutine
//! stays blocked for ever and `join()` hangs.
//!
//! `Sleep::subscribe` has the same late registration: the timer is armed first, if it
//! fires before `set_co` the coroutine is already somewhere else.
//!
//! needs `inject.diff` (the worker thread 0 is preempted in `Park::subscribe` right after
//! it published the coroutine / in `Sleep::subscribe` right after it armed the timer, only
//! if MAY_INJECT_PARK_SUBSCRIBE_STALL_MS / MAY_INJECT_SLEEP_SUBSCRIBE_STALL_MS is set)
//!
//! run: cargo test --offline --test park_stale_cancel_reg -- --test-threads=1
extern crate may;

use may::coroutine;
use may::sync::{Mutex, Semphore};
use std::sync::atomic::{AtomicUsize, Ordering};
use std::sync::mpsc;
use std::sync::Arc;
use std::thread;
use std::time::Duration;

const ROUNDS: usize = 8;

fn setup() {
    std::env::set_var("MAY_INJECT_PARK_SUBSCRIBE_STALL_MS", "300");
    std::env::set_var("MAY_INJECT_SLEEP_SUBSCRIBE_STALL_MS", "300");
    // the woken coroutine must be able to run on an other worker than the stalled one
    may::config().set_workers(4);
}

// only the worker 0 is stalled by the injection
fn spawn_on_worker_0<F>(f: F) -> coroutine::JoinHandle<()>
where
    F: FnOnce() + Send + 'static,
{
    unsafe { coroutine::Builder::new().id(0).spawn(f).unwrap() }
}

// join with a watchdog, Some(true) if the coroutine ended with a Cancel panic
fn join_is_cancel(j: coroutine::JoinHandle<()>) -> Option<bool> {
    let (tx, rx) = mpsc::channel();
    thread::spawn(move || {
        let r = j.join();
        let _ = tx.send(match r {
            Ok(()) => false,
            Err(e) => matches!(
                e.downcast_ref::<generator::Error>(),
                Some(&generator::Error::Cancel)
            ),
        });
    });
    rx.recv_timeout(Duration::from_secs(10)).ok()
}

#[test]
fn cancel_reaches_a_coroutine_blocked_on_a_semphore_after_an_unpark() {
    setup();
    for round in 0..ROUNDS {
        let sem = Arc::new(Semphore::new(0));
        let stage = Arc::new(AtomicUsize::new(0));

        let (sem2, stage2) = (sem.clone(), stage.clone());
        let j = spawn_on_worker_0(move || {
            // the worker thread 0 is stalled in `subscribe` of the coroutine's own park
            coroutine::park();
            stage2.store(1, Ordering::SeqCst);
            // nobody posts: blocked until cancelled
            sem2.wait();
            stage2.store(2, Ordering::SeqCst);
        });

        // the coroutine is parked now
        thread::sleep(Duration::from_millis(100));
        j.coroutine().unpark();
        // the coroutine is blocked in `sem.wait()`, the stalled worker is done
        thread::sleep(Duration::from_millis(800));
        assert_eq!(stage.load(Ordering::SeqCst), 1, "round {round}");

        unsafe { j.coroutine().cancel() };
        match join_is_cancel(j) {
            Some(cancelled) => assert!(cancelled, "round {round}: not a Cancel"),
            None => panic!(
                "round {round}: cancel() lost: the coroutine is still blocked in \
                 Semphore::wait (stage {}), join() hangs",
                stage.load(Ordering::SeqCst)
            ),
        }
        assert_eq!(sem.get_value(), 0);
    }
}

#[test]
fn cancel_reaches_a_coroutine_blocked_on_a_mutex_after_an_unpark() {
    setup();
    for round in 0..ROUNDS {
        let m = Arc::new(Mutex::new(()));
        let stage = Arc::new(AtomicUsize::new(0));
        // never released before the join
        let g = m.lock().unwrap();

        let (m2, stage2) = (m.clone(), stage.clone());
        let j = spawn_on_worker_0(move || {
            coroutine::park();
            stage2.store(1, Ordering::SeqCst);
            drop(m2.lock().unwrap());
            stage2.store(2, Ordering::SeqCst);
        });

        thread::sleep(Duration::from_millis(100));
        j.coroutine().unpark();
        thread::sleep(Duration::from_millis(800));
        assert_eq!(stage.load(Ordering::SeqCst), 1, "round {round}");

        unsafe { j.coroutine().cancel() };
        match join_is_cancel(j) {
            Some(cancelled) => assert!(cancelled, "round {round}: not a Cancel"),
            None => panic!(
                "round {round}: cancel() lost: the coroutine is still blocked in \
                 Mutex::lock (stage {}), join() hangs",
                stage.load(Ordering::SeqCst)
            ),
        }
        drop(g);
        assert!(m.try_lock().is_ok(), "round {round}: mutex leaked");
    }
}

#[test]
fn cancel_reaches_a_coroutine_blocked_on_a_semphore_after_a_sleep() {
    setup();
    for round in 0..ROUNDS {
        let sem = Arc::new(Semphore::new(0));
        let stage = Arc::new(AtomicUsize::new(0));

        let (sem2, stage2) = (sem.clone(), stage.clone());
        let j = spawn_on_worker_0(move || {
            // the worker thread 0 is stalled in `subscribe` for longer than the sleep
            coroutine::sleep(Duration::from_millis(10));
            stage2.store(1, Ordering::SeqCst);
            // nobody posts: blocked until cancelled
            sem2.wait();
            stage2.store(2, Ordering::SeqCst);
        });

        // the coroutine is blocked in `sem.wait()`, the stalled worker is done
        thread::sleep(Duration::from_millis(900));
        assert_eq!(stage.load(Ordering::SeqCst), 1, "round {round}");

        unsafe { j.coroutine().cancel() };
        match join_is_cancel(j) {
            Some(cancelled) => assert!(cancelled, "round {round}: not a Cancel"),
            None => panic!(
                "round {round}: cancel() lost: the coroutine is still blocked in \
                 Semphore::wait (stage {}), join() hangs",
                stage.load(Ordering::SeqCst)
            ),
        }
        assert_eq!(sem.get_value(), 0);
    }
}
