//! `Sleep::subscribe` and `Park::subscribe` publish the coroutine (arm the timer / store
//! it in `wait_co`) and only afterwards register the wait in the cancel data of the
//! coroutine. When the subscriber is stalled for longer than the sleep / the park timeout,
//! the timer thread resumes the coroutine, which goes on and blocks somewhere else or
//! finishes, before the subscriber writes its registration: over a newer one (a later
//! cancel() is lost) or into freed memory (the cancel data lives in the coroutine handle).
//!
//! needs inject.diff, run with `-- --test-threads=1`
#[macro_use]
extern crate may;

use may::coroutine;
use may::sync::mpsc;
use std::sync::atomic::{AtomicBool, Ordering};
use std::sync::mpsc::channel;
use std::sync::Arc;
use std::thread;
use std::time::Duration;

// select the injected stall (behaviour neutral sleeps of the subscriber thread)
fn stall(sleep: bool) {
    may::config().set_workers(2);
    let (on, off) = if sleep {
        ("H3_STALL_SLEEP_SUBSCRIBE", "H3_STALL_PARK_SUBSCRIBE")
    } else {
        ("H3_STALL_PARK_SUBSCRIBE", "H3_STALL_SLEEP_SUBSCRIBE")
    };
    std::env::set_var(on, "1");
    std::env::remove_var(off);
}

fn join_after_cancel(h: coroutine::JoinHandle<()>) {
    unsafe { h.coroutine().cancel() };
    let (tx, rx) = channel();
    thread::spawn(move || {
        tx.send(h.join().is_err()).ok();
    });
    match rx.recv_timeout(Duration::from_secs(3)) {
        Ok(r) => assert!(r, "a cancelled coroutine ends with an error"),
        Err(_) => panic!("cancel lost: the coroutine is still parked 3s after cancel()"),
    }
}

// runs in a coroutine that was resumed by the timer thread: grab the memory that the
// timer thread has freed just before from its allocator cache and keep it, zeroed
fn grab_freed_memory() -> Vec<Vec<u8>> {
    let mut bufs = Vec::new();
    // the biggest request of a size class first, so that the buffer covers the chunk
    for size in (64..=160).rev().step_by(8) {
        for _ in 0..8 {
            // not `vec![0; size]`: calloc doesn't use the thread cache of glibc
            let mut b: Vec<u8> = Vec::with_capacity(size);
            b.resize(size, 0);
            bufs.push(b);
        }
    }
    bufs
}

fn check_untouched(bufs: &[Vec<u8>]) {
    for b in bufs {
        assert!(
            b.iter().all(|x| *x == 0),
            "somebody wrote into a buffer of {} bytes that we own: {:x?}",
            b.len(),
            b
        );
    }
}

#[test]
fn sleep_cancel_is_delivered_to_a_coroutine_that_slept_before() {
    stall(true);
    let parked = Arc::new(AtomicBool::new(false));
    let p = parked.clone();
    let h = go!(move || {
        coroutine::sleep(Duration::from_millis(5));
        p.store(true, Ordering::SeqCst);
        // block until we are cancelled, `park` is a cancellation point
        loop {
            coroutine::park();
        }
    });

    // the coroutine is parked now and the stalled subscriber of the sleep has finished
    thread::sleep(Duration::from_millis(800));
    assert!(parked.load(Ordering::SeqCst));
    assert!(!h.is_done());
    join_after_cancel(h);
}

#[test]
fn sleep_late_subscriber_does_not_write_into_freed_memory() {
    stall(true);
    // detached: nobody else holds the coroutine handle. it is resumed by the timer
    // thread after 5ms, finishes there and its handle is freed there
    drop(go!(|| coroutine::sleep(Duration::from_millis(5))));

    // resumed by the timer thread after 50ms
    let (tx, rx) = channel();
    let h = go!(move || {
        coroutine::sleep(Duration::from_millis(50));
        tx.send(grab_freed_memory()).unwrap();
    });

    let bufs = rx.recv_timeout(Duration::from_secs(5)).unwrap();
    // wait until the stalled subscriber of the first coroutine has finished
    thread::sleep(Duration::from_millis(800));
    check_untouched(&bufs);
    h.join().unwrap();
}

#[test]
fn park_cancel_is_delivered_after_a_timed_out_recv() {
    stall(false);
    let parked = Arc::new(AtomicBool::new(false));
    let p = parked.clone();
    let (tx, rx) = mpsc::channel::<()>();
    let h = go!(move || {
        let r = rx.recv_timeout(Duration::from_millis(5));
        assert!(r.is_err());
        p.store(true, Ordering::SeqCst);
        // block until we are cancelled, `park` is a cancellation point
        loop {
            coroutine::park();
        }
    });

    // the coroutine is parked now and the stalled subscriber has finished
    thread::sleep(Duration::from_millis(800));
    assert!(parked.load(Ordering::SeqCst));
    assert!(!h.is_done());
    join_after_cancel(h);
    drop(tx);
}

#[test]
fn park_late_subscriber_does_not_write_into_freed_memory() {
    stall(false);
    // detached: nobody else holds the coroutine handle. it is resumed by the timer
    // thread after 5ms, finishes there and its handle is freed there
    let (tx, rx) = mpsc::channel::<()>();
    drop(go!(move || {
        rx.recv_timeout(Duration::from_millis(5)).ok();
    }));

    // resumed by the timer thread after 50ms
    let (btx, brx) = channel();
    let h = go!(move || {
        coroutine::sleep(Duration::from_millis(50));
        btx.send(grab_freed_memory()).unwrap();
    });

    let bufs = brx.recv_timeout(Duration::from_secs(5)).unwrap();
    // wait until the stalled subscriber of the first coroutine has finished
    thread::sleep(Duration::from_millis(800));
    drop(tx);
    check_untouched(&bufs);
    h.join().unwrap();
}
