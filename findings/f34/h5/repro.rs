//! the subscriber of a blocked socket read keeps working with the coroutine's cancel
//! data after it has published the coroutine. If it is preempted there, it registers
//! the socket for the cancel of a coroutine that is long done with that read.
//! needs inject.diff (a sleep after the publish while MAY_H5_STALL_AFTER_PUBLISH_MS is set)

use std::io::{Read, Write};
use std::os::fd::AsRawFd;
use std::sync::mpsc::channel;
use std::time::Duration;

use may::coroutine::Builder;
use may::net::{TcpListener, TcpStream};
use may::sync::mpsc;

const WORKERS: usize = 2;
const STALL: &str = "MAY_H5_STALL_AFTER_PUBLISH_MS";

fn round(n: usize) {
    let listener = TcpListener::bind("127.0.0.1:0").unwrap();
    let addr = listener.local_addr().unwrap();
    let mut peer = std::net::TcpStream::connect(addr).unwrap();
    let (mut a, _) = listener.accept().unwrap();
    // the events of `a` are handled by this worker
    let selector = a.as_raw_fd() as usize % WORKERS;

    let (hand_tx, hand_rx) = mpsc::channel::<TcpStream>();
    let (never_tx, never_rx) = mpsc::channel::<()>();
    let (y_tx, y_rx) = channel();

    // Y: gets the stream from X and reads the rest of it
    let y = may::go!(move || {
        let mut a = hand_rx.recv().unwrap();
        let mut buf = [0u8; 16];
        let n = a.read(&mut buf).unwrap();
        y_tx.send(buf[..n].to_vec()).unwrap();
    });

    // X: reads the header, passes the stream on and waits for something else.
    // it blocks in the read on the worker that is not the selector of `a`
    std::env::set_var(STALL, "400");
    let x = unsafe {
        Builder::new().id(selector + 1).spawn(move || {
            let mut buf = [0u8; 1];
            a.read_exact(&mut buf).unwrap();
            assert_eq!(&buf, b"h");
            hand_tx.send(a).unwrap();
            never_rx.recv().ok();
        })
    }
    .unwrap();

    // X is blocked in the read now and its subscriber is "preempted"
    std::thread::sleep(Duration::from_millis(100));
    std::env::remove_var(STALL);
    peer.write_all(b"h").unwrap();

    // X is blocked on the channel, Y is blocked in the read and the subscriber went on
    std::thread::sleep(Duration::from_millis(600));
    unsafe { x.coroutine().cancel() };

    let (dtx, drx) = channel();
    std::thread::spawn(move || {
        dtx.send(x.join().is_err()).ok();
    });
    match drx.recv_timeout(Duration::from_secs(3)) {
        Ok(is_err) => assert!(is_err, "X was cancelled"),
        Err(_) => panic!("round {n}: the cancelled coroutine X is still blocked after 3s"),
    }

    // Y is not disturbed
    peer.write_all(b"body").unwrap();
    assert_eq!(y_rx.recv_timeout(Duration::from_secs(3)).unwrap(), b"body");
    y.join().unwrap();
    drop(never_tx);
}

#[test]
fn cancel_after_late_io_registration() {
    may::config().set_workers(WORKERS);
    for n in 0..6 {
        round(n);
    }
}

/// no stall needed: a cancel that comes while the coroutine is about to block in a
/// read is never lost (checks the cancel/publish handshake, passes before the fix too)
#[test]
fn cancel_races_with_blocking_read() {
    may::config().set_workers(WORKERS);
    let listener = TcpListener::bind("127.0.0.1:0").unwrap();
    let addr = listener.local_addr().unwrap();
    let (dtx, drx) = channel();
    for i in 0..3000u32 {
        let peer = std::net::TcpStream::connect(addr).unwrap();
        let (mut a, _) = listener.accept().unwrap();
        a.set_read_timeout(Some(Duration::from_secs(30))).unwrap();
        let x = may::go!(move || {
            let mut buf = [0u8; 1];
            a.read_exact(&mut buf).unwrap();
        });
        // cancel at some point around the moment the coroutine blocks
        let t = std::time::Instant::now();
        let spin = Duration::from_nanos((i as u64 * 7919) % 60_000);
        while t.elapsed() < spin {
            std::hint::spin_loop();
        }
        unsafe { x.coroutine().cancel() };
        let dtx = dtx.clone();
        std::thread::spawn(move || {
            dtx.send(x.join().is_err()).ok();
        });
        match drx.recv_timeout(Duration::from_secs(5)) {
            Ok(is_err) => assert!(is_err),
            Err(_) => panic!("iteration {i}: the cancelled coroutine is still blocked after 5s"),
        }
        drop(peer);
    }
}
