// Reproduction for the AtomicDuration millisecond-truncation defect
// (src/sync/atomic_dur.rs, `AtomicDuration::{new, store}`).
//
// WHERE: copy this file to `tests/repro_f1.rs` of the `may` crate.
// RUN:   CARGO_TARGET_DIR=/tmp/fix1/target \
//          cargo test --offline --test repro_f1 -- --test-threads=1 --nocapture
//
// Property under test: "timed waits never fire early and always fire, for every
// duration including zero, sub-millisecond and non-integral-millisecond values".
//
// Before the fix `Some(d)` was encoded as `d.as_millis()` with 0 == None, so
//   * every d < 1ms (incl. Duration::ZERO) became "no timeout" -> the coroutine
//     parks forever (tests `sub_ms_*`, `zero_*` fail through the watchdog);
//   * 1.5ms was truncated to 1ms -> the wait returns before the requested
//     duration elapsed (test `non_integral_ms_semphore_wait_is_not_early`).
//
// Every case runs inside a coroutine and is supervised from the test thread by
// a std channel with a hard limit, so on a broken tree the test FAILS instead
// of hanging. (The leaked, forever-parked coroutine is harmless for the test
// process: the scheduler threads do not block process exit.)

#[macro_use]
extern crate may;

use std::sync::mpsc as std_mpsc;
use std::sync::Arc;
use std::time::{Duration, Instant};

use may::sync::mpsc;
use std::sync::mpsc::RecvTimeoutError;
use may::sync::{Blocker, Semphore};

const WATCHDOG: Duration = Duration::from_secs(2);
// generous upper bound for a sub-ms timeout to be observed on a loaded machine
const PROMPT: Duration = Duration::from_millis(200);

/// run `f` inside a coroutine; fail (do not hang) if it doesn't finish in time
fn in_coroutine_with_watchdog<T, F>(what: &str, f: F) -> T
where
    T: Send + 'static,
    F: FnOnce() -> T + Send + 'static,
{
    let (done_tx, done_rx) = std_mpsc::channel();
    // keep the JoinHandle alive but never join it: on a broken tree the
    // coroutine never finishes
    let _h = go!(move || {
        let r = f();
        let _ = done_tx.send(r);
    });
    match done_rx.recv_timeout(WATCHDOG) {
        Ok(r) => r,
        Err(e) => panic!(
            "{what}: coroutine did not finish within {WATCHDOG:?} ({e:?}) - \
             the timed wait never fired"
        ),
    }
}

#[test]
fn sub_ms_mpsc_recv_timeout_fires() {
    let (res, elapsed) = in_coroutine_with_watchdog("recv_timeout(500us)", || {
        // keep the sender alive so that the only way out is the timeout
        let (tx, rx) = mpsc::channel::<()>();
        let start = Instant::now();
        let r = rx.recv_timeout(Duration::from_micros(500));
        let elapsed = start.elapsed();
        drop(tx);
        (r, elapsed)
    });
    assert_eq!(res, Err(RecvTimeoutError::Timeout));
    assert!(
        elapsed >= Duration::from_micros(500),
        "fired early: {elapsed:?}"
    );
    assert!(elapsed < PROMPT, "fired far too late: {elapsed:?}");
}

#[test]
fn sub_ms_semphore_wait_timeout_fires() {
    let (acquired, elapsed) = in_coroutine_with_watchdog("Semphore::wait_timeout(500us)", || {
        let sem = Semphore::new(0);
        let start = Instant::now();
        let r = sem.wait_timeout(Duration::from_micros(500));
        (r, start.elapsed())
    });
    assert!(!acquired);
    assert!(
        elapsed >= Duration::from_micros(500),
        "fired early: {elapsed:?}"
    );
    assert!(elapsed < PROMPT, "fired far too late: {elapsed:?}");
}

#[test]
fn sub_ms_blocker_park_fires() {
    let (res_is_timeout, elapsed) = in_coroutine_with_watchdog("Blocker::park(500us)", || {
        let b = Blocker::current();
        let start = Instant::now();
        let r = b.park(Some(Duration::from_micros(500)));
        (
            matches!(r, Err(may::coroutine::ParkError::Timeout)),
            start.elapsed(),
        )
    });
    assert!(res_is_timeout);
    assert!(
        elapsed >= Duration::from_micros(500),
        "fired early: {elapsed:?}"
    );
    assert!(elapsed < PROMPT, "fired far too late: {elapsed:?}");
}

#[test]
fn sub_ms_coroutine_park_timeout_fires() {
    let elapsed = in_coroutine_with_watchdog("coroutine::park_timeout(500us)", || {
        let start = Instant::now();
        may::coroutine::park_timeout(Duration::from_micros(500));
        start.elapsed()
    });
    assert!(
        elapsed >= Duration::from_micros(500),
        "fired early: {elapsed:?}"
    );
    assert!(elapsed < PROMPT, "fired far too late: {elapsed:?}");
}

// socket read timeout goes through the `read_timeout: AtomicDuration` field of
// the net types (needs the default `io_timeout` feature)
#[test]
fn sub_ms_udp_read_timeout_fires() {
    let (kind, reported, elapsed) =
        in_coroutine_with_watchdog("UdpSocket read_timeout(500us) + recv_from", || {
            let sock = may::net::UdpSocket::bind("127.0.0.1:0").unwrap();
            sock.set_read_timeout(Some(Duration::from_micros(500)))
                .unwrap();
            let reported = sock.read_timeout().unwrap();
            let mut buf = [0u8; 16];
            let start = Instant::now();
            let r = sock.recv_from(&mut buf);
            let elapsed = start.elapsed();
            (r.map(|_| ()).map_err(|e| e.kind()), reported, elapsed)
        });
    // a configured timeout must never read back as "no timeout"
    assert!(reported.is_some(), "read_timeout() reads back None");
    assert!(reported.unwrap() >= Duration::from_micros(500));
    assert_eq!(kind, Err(std::io::ErrorKind::TimedOut));
    assert!(
        elapsed >= Duration::from_micros(500),
        "fired early: {elapsed:?}"
    );
    assert!(elapsed < PROMPT, "fired far too late: {elapsed:?}");
}

#[test]
fn zero_semphore_wait_timeout_fires() {
    let (acquired, elapsed) = in_coroutine_with_watchdog("Semphore::wait_timeout(0)", || {
        let sem = Semphore::new(0);
        let start = Instant::now();
        let r = sem.wait_timeout(Duration::ZERO);
        (r, start.elapsed())
    });
    assert!(!acquired);
    assert!(elapsed < PROMPT, "fired far too late: {elapsed:?}");
}

#[test]
fn zero_mpsc_recv_timeout_fires() {
    let (res, elapsed) = in_coroutine_with_watchdog("recv_timeout(0)", || {
        let (tx, rx) = mpsc::channel::<()>();
        let start = Instant::now();
        let r = rx.recv_timeout(Duration::ZERO);
        let elapsed = start.elapsed();
        drop(tx);
        (r, elapsed)
    });
    assert_eq!(res, Err(RecvTimeoutError::Timeout));
    assert!(elapsed < PROMPT, "fired far too late: {elapsed:?}");
}

#[test]
fn non_integral_ms_semphore_wait_is_not_early() {
    const REQ: Duration = Duration::from_micros(1500);
    const ROUNDS: usize = 200;

    let samples = in_coroutine_with_watchdog("200 x Semphore::wait_timeout(1500us)", || {
        let sem = Arc::new(Semphore::new(0));
        let mut samples = Vec::with_capacity(ROUNDS);
        for _ in 0..ROUNDS {
            let start = Instant::now();
            let acquired = sem.wait_timeout(REQ);
            let elapsed = start.elapsed();
            assert!(!acquired, "nobody posts, the wait must time out");
            samples.push(elapsed);
        }
        samples
    });

    let min = *samples.iter().min().unwrap();
    let max = *samples.iter().max().unwrap();
    let early = samples.iter().filter(|e| **e < REQ).count();
    println!("wait_timeout({REQ:?}) x {ROUNDS}: min={min:?} max={max:?} early={early}");
    assert_eq!(
        early, 0,
        "{early}/{ROUNDS} waits returned before the requested {REQ:?} (min {min:?})"
    );
}
