// Companion of repro_f6.rs, needs its own test binary because it runs with ONE worker.
//
// Where to put it: `tests/repro_f6_one_worker.rs` of the `may` crate.
// How to run it  : cargo test --offline --test repro_f6_one_worker -- --nocapture
//
// A coroutine that is blocked in `select!` is cancelled.  The Cancel panic unwinds out of
// `Cqueue::poll`, `Cqueue::drop` cancels the select coroutines and waits for them with
// `poll(None)`.  On the unmodified tree the park inside that poll returns at once
// (cancelled + already unwinding), so the drop loop spins without ever giving the worker
// back; with a single worker the select coroutines can never run => the owner never
// finishes (the test reports a hang after 3 s).  With the fix the drain loop runs with
// the cancel disabled and really blocks.

#[macro_use]
extern crate may;

use std::sync::mpsc;
use std::thread;
use std::time::Duration;

use may::coroutine;

#[test]
fn select_owner_cancelled_one_worker() {
    may::config().set_workers(1);

    let owner = go!(|| {
        select!(
            _ = coroutine::sleep(Duration::from_secs(10)) => {},
            _ = coroutine::sleep(Duration::from_secs(10)) => {}
        );
    });

    thread::sleep(Duration::from_millis(50));
    unsafe { owner.coroutine().cancel() };

    let (tx, rx) = mpsc::channel();
    thread::spawn(move || {
        let r = owner.join();
        tx.send(r.is_err()).ok();
    });

    match rx.recv_timeout(Duration::from_secs(3)) {
        Ok(is_err) => {
            println!("one_worker: owner finished, is_err = {is_err}");
            assert!(is_err);
        }
        Err(_) => panic!("cancelled select! owner did not finish within 3 s (worker is spinning in Cqueue::drop)"),
    }
}
