// Reproduction for "a scope can be left while one of its coroutines is still running"
// (Join::wait returns on an early return of park / JoinState::join and Cqueue::drop are
// cancellation points).
//
// Where to put it: copy this file to `tests/repro_f6.rs` of the `may` crate.
// How to run it  : cargo test --offline --test repro_f6 -- --nocapture
//
// Expected on the unmodified tree: tests t1, t2, t3, t5 FAIL, t4 passes (t4 only pins down
// behaviour that has to stay as it is).  Expected with the fix: all pass.
//
// Every test cancels a coroutine 50 ms after it blocked and the interesting child needs
// 300 ms, so the outcome does not depend on a tight race.  All observations are taken
// first and asserted at the very end, after the stragglers had time to finish.

#[macro_use]
extern crate may;
extern crate generator;

use std::sync::atomic::{AtomicBool, AtomicUsize, Ordering::SeqCst};
use std::sync::{Mutex, MutexGuard, Once};
use std::thread;
use std::time::{Duration, Instant};

use may::coroutine;
use may::cqueue;

const CANCEL_AFTER: Duration = Duration::from_millis(50);
const CHILD_TIME: Duration = Duration::from_millis(300);
const SETTLE: Duration = Duration::from_millis(600);

// the tests block worker threads on purpose and measure time, so they must not run
// concurrently; this lock makes the file independent of `--test-threads`
static SERIAL: Mutex<()> = Mutex::new(());

fn init() -> MutexGuard<'static, ()> {
    static ONCE: Once = Once::new();
    ONCE.call_once(|| {
        may::config().set_workers(2);
    });
    SERIAL.lock().unwrap_or_else(|e| e.into_inner())
}

fn is_cancel(r: &std::thread::Result<()>) -> bool {
    match r {
        Ok(_) => false,
        Err(e) => matches!(
            e.downcast_ref::<generator::Error>(),
            Some(&generator::Error::Cancel)
        ),
    }
}

/// sets the flag when dropped, lives in the frame of the scope owner
struct Canary<'a>(&'a AtomicBool);
impl Drop for Canary<'_> {
    fn drop(&mut self) {
        self.0.store(true, SeqCst);
    }
}

// t1: the owner of a `coroutine::scope` is cancelled while it waits for its child
#[test]
fn t1_scope_owner_cancelled_while_joining() {
    let _serial = init();
    static CHILD_DONE: AtomicBool = AtomicBool::new(false);
    static FRAME_DROPPED: AtomicBool = AtomicBool::new(false);
    static CHILD_RAN_AFTER_FRAME_DROPPED: AtomicBool = AtomicBool::new(false);
    static OWNER_LEFT_SCOPE_NORMALLY: AtomicBool = AtomicBool::new(false);
    static OWNER_SURVIVED_NEXT_CANCEL_POINT: AtomicBool = AtomicBool::new(false);

    let owner = go!(|| {
        // data in the owner's frame that the child borrows
        let canary = Canary(&FRAME_DROPPED);
        let counter = AtomicUsize::new(0);
        coroutine::scope(|s| {
            go!(s, || {
                let borrowed: &Canary = &canary;
                coroutine::sleep(CHILD_TIME);
                if FRAME_DROPPED.load(SeqCst) {
                    // the borrowed data is gone, don't touch it
                    CHILD_RAN_AFTER_FRAME_DROPPED.store(true, SeqCst);
                } else {
                    let _ = borrowed.0.load(SeqCst);
                    counter.fetch_add(1, SeqCst);
                }
                CHILD_DONE.store(true, SeqCst);
            });
        });
        OWNER_LEFT_SCOPE_NORMALLY.store(true, SeqCst);
        // the pending cancel has to be delivered here
        coroutine::sleep(Duration::from_millis(1));
        OWNER_SURVIVED_NEXT_CANCEL_POINT.store(true, SeqCst);
    });

    thread::sleep(CANCEL_AFTER);
    let start = Instant::now();
    unsafe { owner.coroutine().cancel() };
    let res = owner.join();
    let waited = start.elapsed();
    let child_done_when_owner_finished = CHILD_DONE.load(SeqCst);

    thread::sleep(SETTLE);
    println!(
        "t1: owner finished {waited:?} after cancel, result is cancel = {}, \
         child done at that time = {child_done_when_owner_finished}, \
         child ran after the borrowed frame was dropped = {}, \
         owner left scope normally = {}, owner survived next cancel point = {}",
        is_cancel(&res),
        CHILD_RAN_AFTER_FRAME_DROPPED.load(SeqCst),
        OWNER_LEFT_SCOPE_NORMALLY.load(SeqCst),
        OWNER_SURVIVED_NEXT_CANCEL_POINT.load(SeqCst),
    );
    assert!(
        child_done_when_owner_finished,
        "scope was left while its child was still running"
    );
    assert!(
        !CHILD_RAN_AFTER_FRAME_DROPPED.load(SeqCst),
        "child was running after the data it borrows was dropped"
    );
    // the cancel is not lost, it is delivered at the next cancellation point
    assert!(is_cancel(&res));
    assert!(!OWNER_SURVIVED_NEXT_CANCEL_POINT.load(SeqCst));
}

// t2: same thing with safe code only: `join!` inside a select coroutine that gets removed
#[test]
fn t2_join_macro_in_removed_selector() {
    let _serial = init();
    static CHILD_DONE: AtomicBool = AtomicBool::new(false);
    static FRAME_DROPPED: AtomicBool = AtomicBool::new(false);
    static CHILD_RAN_AFTER_FRAME_DROPPED: AtomicBool = AtomicBool::new(false);

    let mut child_done_when_selector_finished = false;
    cqueue::scope(|cq| {
        let sel = go!(cq, 0, |_es| {
            let canary = Canary(&FRAME_DROPPED);
            join!(
                {
                    let borrowed: &Canary = &canary;
                    coroutine::sleep(CHILD_TIME);
                    if FRAME_DROPPED.load(SeqCst) {
                        CHILD_RAN_AFTER_FRAME_DROPPED.store(true, SeqCst);
                    } else {
                        let _ = borrowed.0.load(SeqCst);
                    }
                    CHILD_DONE.store(true, SeqCst);
                },
                {}
            );
        });

        thread::sleep(CANCEL_AFTER);
        sel.remove();
        // returns Finished when the select coroutine is finished (it is joined by poll)
        loop {
            match cq.poll(None) {
                Ok(_) => {}
                Err(cqueue::PollError::Finished) => break,
                Err(cqueue::PollError::Timeout) => unreachable!(),
            }
        }
        child_done_when_selector_finished = CHILD_DONE.load(SeqCst);
    });

    thread::sleep(SETTLE);
    println!(
        "t2: child done when the removed selector finished = {child_done_when_selector_finished}, \
         child ran after the borrowed frame was dropped = {}",
        CHILD_RAN_AFTER_FRAME_DROPPED.load(SeqCst)
    );
    assert!(
        child_done_when_selector_finished,
        "join! was left while its child was still running"
    );
    assert!(!CHILD_RAN_AFTER_FRAME_DROPPED.load(SeqCst));
}

// t3: JoinHandle::wait()/join() called while a Cancel panic unwinds the caller
#[test]
fn t3_join_returns_for_running_child_while_unwinding() {
    let _serial = init();
    static WAIT_RETURNED: AtomicBool = AtomicBool::new(false);
    static DONE_AFTER_WAIT: AtomicBool = AtomicBool::new(false);
    static JOIN_RESULT_OK: AtomicBool = AtomicBool::new(false);

    struct WaitOnDrop(Option<coroutine::JoinHandle<usize>>);
    impl Drop for WaitOnDrop {
        fn drop(&mut self) {
            let h = self.0.take().unwrap();
            h.wait();
            DONE_AFTER_WAIT.store(h.is_done(), SeqCst);
            JOIN_RESULT_OK.store(matches!(h.join(), Ok(7)), SeqCst);
            WAIT_RETURNED.store(true, SeqCst);
        }
    }

    let owner = go!(|| {
        let child = go!(|| {
            coroutine::sleep(CHILD_TIME);
            7usize
        });
        let _g = WaitOnDrop(Some(child));
        // cancelled here, the unwinding runs WaitOnDrop::drop
        coroutine::park();
    });

    thread::sleep(CANCEL_AFTER);
    unsafe { owner.coroutine().cancel() };
    let res = owner.join();

    thread::sleep(SETTLE);
    println!(
        "t3: wait returned = {}, child done when wait() returned = {}, join() gave Ok(7) = {}",
        WAIT_RETURNED.load(SeqCst),
        DONE_AFTER_WAIT.load(SeqCst),
        JOIN_RESULT_OK.load(SeqCst)
    );
    assert!(is_cancel(&res));
    assert!(WAIT_RETURNED.load(SeqCst));
    assert!(
        DONE_AFTER_WAIT.load(SeqCst),
        "wait() returned although the child was still running"
    );
    assert!(
        JOIN_RESULT_OK.load(SeqCst),
        "join() reported an error for a child that was still running"
    );
}

// t4: a plain JoinHandle::join() has to stay a cancellation point (passes before and after)
#[test]
fn t4_plain_join_is_still_a_cancellation_point() {
    let _serial = init();
    static PASSED_JOIN: AtomicBool = AtomicBool::new(false);

    let owner = go!(|| {
        let child = go!(|| coroutine::sleep(CHILD_TIME));
        child.join().ok();
        PASSED_JOIN.store(true, SeqCst);
    });

    thread::sleep(CANCEL_AFTER);
    let start = Instant::now();
    unsafe { owner.coroutine().cancel() };
    let res = owner.join();
    let waited = start.elapsed();

    thread::sleep(SETTLE);
    println!("t4: owner finished {waited:?} after cancel");
    assert!(is_cancel(&res));
    assert!(!PASSED_JOIN.load(SeqCst));
    assert!(
        waited < CHILD_TIME / 2,
        "join() did not react to the cancel: {waited:?}"
    );
}

// t5: a Cqueue is dropped normally by an owner that has a pending cancel
#[test]
fn t5_cqueue_dropped_with_pending_cancel() {
    let _serial = init();
    static SELECTOR_STARTED: AtomicBool = AtomicBool::new(false);
    static SELECTOR_DONE: AtomicBool = AtomicBool::new(false);
    static OWNER_LEFT_CQUEUE_NORMALLY: AtomicBool = AtomicBool::new(false);

    // keeps the cancelled select coroutine busy while it unwinds
    struct SlowDrop;
    impl Drop for SlowDrop {
        fn drop(&mut self) {
            thread::sleep(CHILD_TIME);
            SELECTOR_DONE.store(true, SeqCst);
            // the EventSender of the select coroutine is dropped after this
            // and touches the Cqueue
        }
    }

    let owner = go!(|| {
        cqueue::scope(|cq| {
            go!(cq, 0, |_es| {
                let _slow = SlowDrop;
                SELECTOR_STARTED.store(true, SeqCst);
                coroutine::sleep(Duration::from_secs(10));
            });
            // not a cancellation point: the cancel that arrives meanwhile stays pending
            thread::sleep(CANCEL_AFTER * 2);
            // leave the closure normally => Cqueue::drop cancels the selector and waits
        });
        OWNER_LEFT_CQUEUE_NORMALLY.store(true, SeqCst);
    });

    thread::sleep(CANCEL_AFTER);
    unsafe { owner.coroutine().cancel() };
    let res = owner.join();
    let started = SELECTOR_STARTED.load(SeqCst);
    let selector_done_when_owner_finished = SELECTOR_DONE.load(SeqCst);

    thread::sleep(SETTLE);
    println!(
        "t5: owner result is cancel = {}, selector started = {started}, \
         selector done when owner finished = {selector_done_when_owner_finished}, \
         owner left cqueue scope normally = {}",
        is_cancel(&res),
        OWNER_LEFT_CQUEUE_NORMALLY.load(SeqCst)
    );
    assert!(started);
    assert!(
        selector_done_when_owner_finished,
        "Cqueue was dropped while its select coroutine was still running"
    );
}
