// One-off probe, NOT part of the F6 reproduction (it always "passes", read its output).
// Question: does a coroutine that blocks while unwinding leak `thread::panicking()`
// to other coroutines on the same worker?  (workers = 1)
// Where to put it: tests/zz_probe_panicking.rs of the `may` crate.
// How to run it  : cargo test --offline --test zz_probe_panicking -- --nocapture
// Observed on the UNMODIFIED tree:
//   probe: x.join is_err = false, X survived its cancel = true,
//          X saw thread::panicking() = true, p.join is_err = true
// i.e. X loses its cancel because the worker thread's panic count is still 1 while
// P is parked in the middle of its unwinding (Scope::drop joining a child).
#[macro_use]
extern crate may;
use may::coroutine;
use std::sync::atomic::{AtomicBool, Ordering::SeqCst};
use std::thread;
use std::time::Duration;

static X_SURVIVED_CANCEL: AtomicBool = AtomicBool::new(false);
static X_SAW_PANICKING: AtomicBool = AtomicBool::new(false);

#[test]
fn probe() {
    may::config().set_workers(1);
    // X: blocks in sleep, will be cancelled
    let x = go!(|| {
        coroutine::sleep(Duration::from_secs(10));
        X_SAW_PANICKING.store(thread::panicking(), SeqCst);
        X_SURVIVED_CANCEL.store(true, SeqCst);
    });
    // P: panics inside a scope with a running child => Scope::drop joins while unwinding
    let p = go!(|| {
        coroutine::scope(|s| {
            go!(s, || coroutine::sleep(Duration::from_millis(300)));
            // panic on the worker thread (a sleep would resume us on the timer thread)
            panic!("boom");
        });
    });
    thread::sleep(Duration::from_millis(100));
    unsafe { x.coroutine().cancel() };
    let rx = x.join();
    let rp = p.join();
    println!(
        "probe: x.join is_err = {}, X survived its cancel = {}, X saw thread::panicking() = {}, p.join is_err = {}",
        rx.is_err(), X_SURVIVED_CANCEL.load(SeqCst), X_SAW_PANICKING.load(SeqCst), rp.is_err()
    );
}
