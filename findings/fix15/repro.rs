// Repro for the two cqueue defects (F15):
//   (A) `Cqueue::poll` reports `Finished` (and `cqueue::scope` / `select!` returns) while the last
//       select coroutine is still running: its Done event is queued but not yet consumed, so the
//       `join()` that normally waits for the real end of the coroutine is skipped.
//   (B) a selector panic that is re-raised by `check_panic` inside the drain loop of
//       `Drop for Cqueue` unwinds out of the scope while other (just cancelled) select coroutines
//       are still running; once `is_panicking` is set, Done events are consumed without a join.
//
// WHERE:  copy this file to `tests/repro_f15.rs` of the `may` crate.
// HOW:    every test in its own process (a failing run may leave a worker thread blocked forever
//         on purpose, see `SlowDrop`), e.g.
//
//   for t in a1_finished_reported_while_selector_running a2_scope_returns_while_selector_running \
//            a3_select_returns_while_arm_running b1_scope_unwinds_while_other_selector_running \
//            b2_select_unwinds_while_other_arm_running b3_user_poll_reraise_then_drop \
//            b4_body_panic_and_selector_panic \
//            b5_scope_in_coroutine_unwinds_while_other_selector_running \
//            b6_done_after_panic_is_still_joined ; do
//       CARGO_TARGET_DIR=/tmp/fix15/target cargo test --offline --test repro_f15 -- --exact $t ; done
//
//   the a* tests need the window widening of inject.diff to fail deterministically on the unfixed
//   crate (the race window in `poll` is only a few instructions wide); the stress test
//       cargo test --offline --release --test repro_f15 -- --ignored --exact a4_stress_no_injection
//   tries to hit (A) without any injection.
//   b3 / b4 abort the whole test process (panic in a destructor during cleanup) on the unfixed crate.
//
// The "still running" detection uses only statics, so a failing run does not depend on freed memory
// in the test itself.  (The runtime itself touches the dead `Cqueue` in the failing runs of b1/b2,
// which is the defect; `SlowDrop` blocks the coroutine forever in that case so that it never does.)

#[macro_use]
extern crate may;

use may::cqueue::PollError::*;
use may::sync::mpsc::channel;
use may::{coroutine, cqueue};

use std::panic::{catch_unwind, AssertUnwindSafe};
use std::sync::atomic::{AtomicBool, AtomicUsize, Ordering::SeqCst};
use std::time::Duration;

fn ms(n: u64) -> Duration {
    Duration::from_millis(n)
}

fn init() {
    may::config().set_workers(4);
}

/// A value whose drop takes `delay` ms (blocking the worker, it's not a cancellation point)
/// and then sets `done`.  When `left` is already set after the delay, i.e. the test thread has
/// observed that the scope was left, the drop never returns: the coroutine must not go on and
/// touch the `Cqueue` that is gone.
struct SlowDrop {
    delay: u64,
    done: &'static AtomicBool,
    left: &'static AtomicBool,
}

impl Drop for SlowDrop {
    fn drop(&mut self) {
        std::thread::sleep(ms(self.delay));
        if self.left.load(SeqCst) {
            eprintln!("SlowDrop: scope already left while this select coroutine is still running; blocking forever");
            loop {
                std::thread::sleep(ms(1000));
            }
        }
        self.done.store(true, SeqCst);
    }
}

// ---------------------------------------------------------------------------------------------
// (A) Finished vs queued Done
// ---------------------------------------------------------------------------------------------

/// property: poll reports Finished only when all select coroutines have ended
#[test]
fn a1_finished_reported_while_selector_running() {
    static DONE: AtomicBool = AtomicBool::new(false);
    static NEVER: AtomicBool = AtomicBool::new(false);
    init();

    let mut seen_running_at_finished = false;
    cqueue::scope(|cq| {
        // captured by value: dropped when the closure is dropped, that is *after* the `EventSender`
        // parameter is dropped (Done pushed, cnt decremented) => the coroutine is provably still
        // running for 300ms after it decremented `cnt`
        let g = SlowDrop {
            delay: 300,
            done: &DONE,
            left: &NEVER,
        };
        go!(cq, 0, move |_es| {
            let _g = &g;
            coroutine::sleep(ms(30));
        });

        loop {
            match cq.poll(None) {
                Ok(_) => {}
                Err(Finished) => break,
                Err(Timeout) => unreachable!(),
            }
        }
        seen_running_at_finished = !DONE.load(SeqCst);
    });
    assert!(
        DONE.load(SeqCst),
        "scope returned while the select coroutine is still running"
    );
    assert!(
        !seen_running_at_finished,
        "poll reported Finished while the select coroutine is still running"
    );
}

/// property: cqueue::scope does not return until every coroutine spawned in it has finished
#[test]
fn a2_scope_returns_while_selector_running() {
    static DONE: AtomicBool = AtomicBool::new(false);
    static NEVER: AtomicBool = AtomicBool::new(false);
    init();

    cqueue::scope(|cq| {
        let g = SlowDrop {
            delay: 300,
            done: &DONE,
            left: &NEVER,
        };
        go!(cq, 0, move |_es| {
            let _g = &g;
            coroutine::sleep(ms(10_000));
        });
        // let it block in the sleep, the drop of the cqueue cancels it and drains
        std::thread::sleep(ms(20));
    });
    assert!(
        DONE.load(SeqCst),
        "cqueue::scope returned while the select coroutine is still running"
    );
}

fn never() -> bool {
    std::env::var_os("REPRO_F15_NEVER_SET").is_some()
}

/// same for select!
#[test]
fn a3_select_returns_while_arm_running() {
    static DONE: AtomicBool = AtomicBool::new(false);
    static NEVER: AtomicBool = AtomicBool::new(false);
    init();

    let (tx1, rx1) = channel::<u32>();
    let (_tx2, rx2) = channel::<u32>();
    tx1.send(1).unwrap();
    let g = SlowDrop {
        delay: 300,
        done: &DONE,
        left: &NEVER,
    };
    let id = select!(
        _ = rx1.recv() => {},
        // `g` is (conditionally) moved => captured by value by the arm closure => dropped after
        // the EventSender when the cancelled arm unwinds
        _ = { if never() { drop(g); } rx2.recv() } => {}
    );
    assert_eq!(id, 0);
    assert!(
        DONE.load(SeqCst),
        "select! returned while the cancelled arm is still running"
    );
}

/// (A) without any injection: a selector that ends right when the drop of the cqueue polls.
/// spin instead of sleep in the drop to keep the iterations short
#[test]
#[ignore]
fn a4_stress_no_injection() {
    static RUNNING: AtomicUsize = AtomicUsize::new(0);
    init();

    struct Spin;
    impl Drop for Spin {
        fn drop(&mut self) {
            let t = std::time::Instant::now();
            while t.elapsed() < Duration::from_micros(100) {
                std::hint::spin_loop();
            }
            RUNNING.fetch_sub(1, SeqCst);
        }
    }

    let iters: usize = std::env::var("REPRO_F15_ITERS")
        .ok()
        .and_then(|s| s.parse().ok())
        .unwrap_or(300_000);
    let mut hits = 0usize;
    let mut first = None;
    for i in 0..iters {
        RUNNING.store(1, SeqCst);
        cqueue::scope(|cq| {
            let g = Spin;
            go!(cq, 0, move |_es| {
                let _g = &g;
            });
            // vary the point where the drop starts to poll
            for _ in 0..(i % 257) * 8 {
                std::hint::spin_loop();
            }
        });
        if RUNNING.load(SeqCst) != 0 {
            hits += 1;
            first.get_or_insert(i);
            // wait for the straggler before the next round
            while RUNNING.load(SeqCst) != 0 {
                std::thread::yield_now();
            }
        }
    }
    assert_eq!(
        hits, 0,
        "cqueue::scope returned {hits} times (of {iters}, first at {first:?}) while its select coroutine was still running"
    );
}

// ---------------------------------------------------------------------------------------------
// (B) selector panic re-raised out of Drop for Cqueue
// ---------------------------------------------------------------------------------------------

/// scope body returns, a selector has panicked meanwhile, another one is cancelled by the drop and
/// needs some time to unwind
#[test]
fn b1_scope_unwinds_while_other_selector_running() {
    static DONE: AtomicBool = AtomicBool::new(false);
    static LEFT: AtomicBool = AtomicBool::new(false);
    init();

    let r = catch_unwind(|| {
        cqueue::scope(|cq| {
            go!(cq, 0, |_es| {
                panic!("selector 0 panics");
            });
            go!(cq, 1, |_es| {
                // a local: dropped during the cancel unwind, *before* the EventSender
                let _g = SlowDrop {
                    delay: 300,
                    done: &DONE,
                    left: &LEFT,
                };
                coroutine::sleep(ms(10_000));
            });
            std::thread::sleep(ms(50));
        })
    });
    let done = DONE.load(SeqCst);
    LEFT.store(true, SeqCst);
    assert!(r.is_err(), "the selector panic must be propagated");
    assert!(
        done,
        "cqueue::scope was left (by unwinding) while a select coroutine is still running"
    );
}

fn boom() {
    coroutine::sleep(ms(20));
    panic!("arm 1 panics in its top half");
}

/// select! returns arm 0's token, arm 1 panicked while the bottom half of arm 0 was running,
/// arm 2 is cancelled by the drop and needs some time to unwind
#[test]
fn b2_select_unwinds_while_other_arm_running() {
    static DONE: AtomicBool = AtomicBool::new(false);
    static LEFT: AtomicBool = AtomicBool::new(false);
    init();

    let (tx1, rx1) = channel::<u32>();
    tx1.send(1).unwrap();
    let r = catch_unwind(AssertUnwindSafe(|| {
        select!(
            _ = rx1.recv() => std::thread::sleep(ms(100)),
            _ = boom() => {},
            _ = {
                let _g = SlowDrop { delay: 300, done: &DONE, left: &LEFT };
                coroutine::sleep(ms(10_000))
            } => {}
        )
    }));
    let done = DONE.load(SeqCst);
    LEFT.store(true, SeqCst);
    assert!(r.is_err(), "the arm panic must be propagated");
    assert!(
        done,
        "select! was left (by unwinding) while an arm is still running"
    );
}

/// the user's own poll re-raises the selector panic, the drop then runs while unwinding.
/// the other selector must still be waited for, and the process must not abort
#[test]
fn b3_user_poll_reraise_then_drop() {
    static DONE: AtomicBool = AtomicBool::new(false);
    static LEFT: AtomicBool = AtomicBool::new(false);
    init();

    let r = catch_unwind(|| {
        cqueue::scope(|cq| {
            go!(cq, 0, |_es| {
                panic!("selector 0 panics");
            });
            go!(cq, 1, |_es| {
                let _g = SlowDrop {
                    delay: 300,
                    done: &DONE,
                    left: &LEFT,
                };
                coroutine::sleep(ms(10_000));
            });
            loop {
                match cq.poll(None) {
                    Ok(_) => {}
                    Err(Finished) => break,
                    Err(Timeout) => unreachable!(),
                }
            }
        })
    });
    let done = DONE.load(SeqCst);
    LEFT.store(true, SeqCst);
    assert!(r.is_err(), "the selector panic must be propagated");
    assert!(
        done,
        "cqueue::scope was left (by unwinding) while a select coroutine is still running"
    );
}

/// the scope body panics itself and a selector has panicked too: the drop runs while unwinding
/// and must not raise a second panic (abort)
#[test]
fn b4_body_panic_and_selector_panic() {
    static DONE: AtomicBool = AtomicBool::new(false);
    static LEFT: AtomicBool = AtomicBool::new(false);
    init();

    let r = catch_unwind(|| {
        cqueue::scope(|cq| {
            go!(cq, 0, |_es| {
                panic!("selector 0 panics");
            });
            go!(cq, 1, |_es| {
                let _g = SlowDrop {
                    delay: 300,
                    done: &DONE,
                    left: &LEFT,
                };
                coroutine::sleep(ms(10_000));
            });
            std::thread::sleep(ms(50));
            panic!("scope body panics");
        })
    });
    let done = DONE.load(SeqCst);
    LEFT.store(true, SeqCst);
    let payload = r.expect_err("the body panic must be propagated");
    assert_eq!(payload.downcast_ref::<&str>(), Some(&"scope body panics"));
    assert!(
        done,
        "cqueue::scope was left (by unwinding) while a select coroutine is still running"
    );
}

/// b1 with a coroutine as the owner of the cqueue (the drop then waits with the coroutine park)
#[test]
fn b5_scope_in_coroutine_unwinds_while_other_selector_running() {
    static DONE: AtomicBool = AtomicBool::new(false);
    static LEFT: AtomicBool = AtomicBool::new(false);
    init();

    let r = go!(|| {
        cqueue::scope(|cq| {
            go!(cq, 0, |_es| {
                panic!("selector 0 panics");
            });
            go!(cq, 1, |_es| {
                let _g = SlowDrop {
                    delay: 300,
                    done: &DONE,
                    left: &LEFT,
                };
                coroutine::sleep(ms(10_000));
            });
            coroutine::sleep(ms(50));
        })
    })
    .join();
    let done = DONE.load(SeqCst);
    LEFT.store(true, SeqCst);
    assert!(r.is_err(), "the selector panic must be propagated");
    assert!(
        done,
        "cqueue::scope was left (by unwinding) while a select coroutine is still running"
    );
}

/// b1, but the cancelled selector also owns a captured value that is dropped *after* its
/// EventSender (after its Done event and the cnt decrease).  catching the re-raised panic in the drop
/// of the cqueue is not enough for this one: once `is_panicking` is set the unfixed `check_panic`
/// consumes the Done events without joining, so the drop would still see Finished too early
#[test]
fn b6_done_after_panic_is_still_joined() {
    static DONE_LOCAL: AtomicBool = AtomicBool::new(false);
    static DONE_CAPTURED: AtomicBool = AtomicBool::new(false);
    static LEFT: AtomicBool = AtomicBool::new(false);
    static NEVER: AtomicBool = AtomicBool::new(false);
    init();

    let r = catch_unwind(|| {
        cqueue::scope(|cq| {
            go!(cq, 0, |_es| {
                panic!("selector 0 panics");
            });
            let g = SlowDrop {
                delay: 300,
                done: &DONE_CAPTURED,
                left: &NEVER,
            };
            go!(cq, 1, move |_es| {
                let _g = &g;
                // blocks forever instead of touching a dead cqueue on the unfixed crate
                let _l = SlowDrop {
                    delay: 100,
                    done: &DONE_LOCAL,
                    left: &LEFT,
                };
                coroutine::sleep(ms(10_000));
            });
            std::thread::sleep(ms(50));
        })
    });
    let done = (DONE_LOCAL.load(SeqCst), DONE_CAPTURED.load(SeqCst));
    LEFT.store(true, SeqCst);
    assert!(r.is_err(), "the selector panic must be propagated");
    assert_eq!(
        done,
        (true, true),
        "cqueue::scope was left (by unwinding) while a select coroutine is still running (local dropped, captured dropped)"
    );
}
