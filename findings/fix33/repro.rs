// `Cqueue` is (auto) `Sync` and `poll` takes `&self`: safe code can poll one cqueue from
// two coroutines at the same time, but its event queue is a single consumer queue
#[macro_use]
extern crate may;

use may::cqueue::PollError;
use may::{coroutine, cqueue};

use std::sync::atomic::{AtomicUsize, Ordering};

const ARMS: usize = 8;
const EVENTS: usize = 20_000;

#[test]
fn cqueue_two_pollers() {
    may::config().set_workers(4);
    // watchdog
    std::thread::spawn(|| {
        std::thread::sleep(std::time::Duration::from_secs(60));
        eprintln!("watchdog: the test hangs");
        std::process::exit(3);
    });

    let bottoms = AtomicUsize::new(0);
    let polled = AtomicUsize::new(0);

    cqueue::scope(|cqueue| {
        for token in 0..ARMS {
            let bottoms = &bottoms;
            go!(cqueue, token, move |es| {
                for i in 0..EVENTS {
                    // top half: nothing to wait for
                    es.send(i);
                    // bottom half
                    bottoms.fetch_add(1, Ordering::Relaxed);
                }
            });
        }

        let poller = || loop {
            match cqueue.poll(None) {
                Ok(_ev) => {
                    polled.fetch_add(1, Ordering::Relaxed);
                }
                Err(PollError::Finished) => break,
                Err(PollError::Timeout) => unreachable!(),
            }
        };

        coroutine::scope(|s| {
            go!(s, poller);
            if std::env::var("ONE_POLLER").is_err() {
                go!(s, poller);
            }
        });
    });

    assert_eq!(polled.load(Ordering::Relaxed), ARMS * EVENTS, "events returned by poll");
    assert_eq!(bottoms.load(Ordering::Relaxed), ARMS * EVENTS, "bottom halves run");
}
