// Reproductions for src/sync/spsc.rs (coroutine receiver side).
//
// WHERE TO PUT:  <may checkout>/tests/repro_f4.rs
// HOW TO RUN:    cargo test --offline --test repro_f4 -- --nocapture --test-threads=1
//   ignored ones: cargo test --offline --test repro_f4 -- --ignored --nocapture --test-threads=1
//
// DEFECT 1 - lost disconnect (fixed by fix.diff)
//   The sender is dropped between the receiver's failed `try_recv` and the
//   moment `Park::subscribe` has published the coroutine in `wait_co`;
//   `subscribe` re-checked only `queue.is_empty()`, so the coroutine stayed
//   parked forever.
//   * stress_disconnect_vs_park: NO injection needed.  Unfixed tree (release
//     build) hangs in iteration 0..3 (3/3 runs); fixed tree passes 3 x 100_000
//     iterations (F4_ITERS=100000 ... --release).
//   * disconnect_while_parking / drain_then_disconnect_while_parking:
//     deterministic schedule; apply inject.diff first (TEMPORARY
//     `thread::sleep(200ms)` at the top of `Park::subscribe`, before
//     `wait_co.store`).  With the injection: unfixed tree fails
//     `disconnect_while_parking` after the 2 s watchdog, fixed tree returns
//     `Err(RecvError)` after ~200 ms.  Without the injection they are plain
//     regression tests and pass on both trees.
//
// DEFECT 2 - `impl Drop for Park` spins forever for a cancelled coroutine
//   (triage; NOT fixed by fix.diff, fixed by the optional fix2_cancel_spin.diff).
//   #[ignore]d because on an unrepaired tree they leave a worker thread
//   spinning at 100% CPU (set F4_LONG=1 to keep it alive 20 s for gdb).
//   * cancel_before_recv_park: no injection needed, hangs 100% on unfixed tree.
//   * cancel_while_in_subscribe: needs inject.diff to hit the window.

use std::sync::atomic::{AtomicBool, Ordering};
use std::sync::mpsc as std_mpsc;
use std::sync::Arc;
use std::time::{Duration, Instant};

#[macro_use]
extern crate may;

fn setup() {
    may::config().set_workers(2);
}

/// Sender dropped while the coroutine receiver is between `try_recv() == Empty`
/// and `wait_co.store(co)`.
#[test]
fn disconnect_while_parking() {
    setup();
    let (tx, rx) = may::sync::spsc::channel::<i32>();
    let (done_tx, done_rx) = std_mpsc::channel();

    let start = Instant::now();
    let _h = go!(move || {
        let r = rx.recv();
        let _ = done_tx.send(r);
    });

    // the coroutine is now (with the injected stall) inside Park::subscribe,
    // before it has published itself in `wait_co`
    std::thread::sleep(Duration::from_millis(50));
    drop(tx);

    match done_rx.recv_timeout(Duration::from_secs(2)) {
        Ok(r) => {
            println!("recv returned {:?} after {:?}", r, start.elapsed());
            assert!(r.is_err(), "expected Err(RecvError), got {:?}", r);
        }
        Err(e) => panic!(
            "HANG: receiver coroutine did not observe the disconnect within 2s ({:?})",
            e
        ),
    }
}

/// Same schedule but a value is queued before the drop: the receiver must
/// first drain the value and only then see Disconnected.
#[test]
fn drain_then_disconnect_while_parking() {
    setup();
    let (tx, rx) = may::sync::spsc::channel::<i32>();
    let (done_tx, done_rx) = std_mpsc::channel();

    let _h = go!(move || {
        let a = rx.recv();
        let b = rx.recv();
        let _ = done_tx.send((a, b));
    });

    std::thread::sleep(Duration::from_millis(50));
    tx.send(7).unwrap();
    drop(tx);

    match done_rx.recv_timeout(Duration::from_secs(2)) {
        Ok((a, b)) => {
            assert_eq!(a, Ok(7));
            assert!(b.is_err());
        }
        Err(e) => panic!("HANG: receiver coroutine stuck ({:?})", e),
    }
}

/// Second candidate: coroutine already has its cancel bit set when it reaches
/// `yield_with(&park)` in `InnerQueue::recv`.
#[test]
#[ignore]
fn cancel_before_recv_park() {
    setup();
    let (tx, rx) = may::sync::spsc::channel::<i32>();
    let flag = Arc::new(AtomicBool::new(false));
    let started = Arc::new(AtomicBool::new(false));
    let (done_tx, done_rx) = std_mpsc::channel();

    let f = flag.clone();
    let s = started.clone();
    let h = go!(move || {
        s.store(true, Ordering::SeqCst);
        // busy loop, no yield point: the cancel bit gets set while we spin
        loop {
            if f.load(Ordering::SeqCst) {
                break;
            }
            std::hint::spin_loop();
        }
        let r = rx.recv();
        println!("recv returned {:?} (not cancelled?)", r);
    });

    while !started.load(Ordering::SeqCst) {
        std::thread::yield_now();
    }
    unsafe { h.coroutine().cancel() };
    flag.store(true, Ordering::SeqCst);

    // F4_LONG=1 keeps the hung process alive long enough to attach a debugger
    let watchdog = Duration::from_secs(if std::env::var("F4_LONG").is_ok() {
        20
    } else {
        3
    });
    std::thread::spawn(move || {
        let r = h.join();
        let _ = done_tx.send(r.is_err());
    });

    match done_rx.recv_timeout(watchdog) {
        Ok(is_err) => {
            println!("join returned, is_err = {}", is_err);
            assert!(is_err, "cancelled coroutine should end with Err(Cancel)");
        }
        Err(e) => panic!(
            "HANG: cancelled coroutine never finished (Park::drop spins) ({:?})",
            e
        ),
    }
    drop(tx);
}

/// No-injection stress: the sender is dropped "at the same time" as the
/// coroutine receiver goes to park.  Hangs sporadically on an unrepaired tree.
///   F4_ITERS=100000 cargo test --offline --release --test repro_f4 stress -- --nocapture
#[test]
fn stress_disconnect_vs_park() {
    setup();
    let iters: usize = std::env::var("F4_ITERS")
        .ok()
        .and_then(|s| s.parse().ok())
        .unwrap_or(20_000);
    for i in 0..iters {
        let (tx, rx) = may::sync::spsc::channel::<i32>();
        let (done_tx, done_rx) = std_mpsc::channel();
        let go_flag = Arc::new(AtomicBool::new(false));
        let g = go_flag.clone();
        let _h = go!(move || {
            g.store(true, Ordering::Release);
            let r = rx.recv();
            let _ = done_tx.send(r);
        });
        while !go_flag.load(Ordering::Acquire) {
            std::hint::spin_loop();
        }
        // vary the phase a little
        for _ in 0..(i % 64) {
            std::hint::spin_loop();
        }
        drop(tx);
        match done_rx.recv_timeout(Duration::from_secs(2)) {
            Ok(r) => assert!(r.is_err()),
            Err(e) => panic!("HANG at iteration {}: {:?}", i, e),
        }
    }
}

/// Residual variant of the second candidate (needs `inject.diff`): the cancel
/// arrives while the coroutine is inside `Park::subscribe`; `subscribe` then
/// finds data and resumes the coroutine synchronously (`run_coroutine`) while
/// its `DropGuard` is still alive, `yield_back` panics with Cancel and
/// `Park::drop` spins on a `yield_now()` that never yields.
#[test]
#[ignore]
fn cancel_while_in_subscribe() {
    setup();
    let (tx, rx) = may::sync::spsc::channel::<i32>();
    let (done_tx, done_rx) = std_mpsc::channel();
    let h = go!(move || {
        let r = rx.recv();
        println!("recv returned {:?}", r);
    });
    std::thread::sleep(Duration::from_millis(50));
    tx.send(1).unwrap(); // wait_co still empty (injected stall): nobody to wake
    unsafe { h.coroutine().cancel() }; // only sets the bit, nothing registered
    let watchdog = Duration::from_secs(if std::env::var("F4_LONG").is_ok() {
        20
    } else {
        3
    });
    std::thread::spawn(move || {
        let r = h.join();
        let _ = done_tx.send(r.is_err());
    });
    match done_rx.recv_timeout(watchdog) {
        Ok(is_err) => println!("join returned, is_err = {}", is_err),
        Err(e) => panic!("HANG: coroutine never finished ({:?})", e),
    }
    drop(tx);
}
