// a select coroutine is removed (cancelled) between the cancel check of `EventSender::send`
// and the one of `yield_with`
#[macro_use]
extern crate may;

use may::cqueue;
use may::cqueue::PollError;

use std::sync::atomic::{AtomicUsize, Ordering};
use std::time::Duration;

#[test]
fn remove_in_send() {
    std::env::set_var("MAY_HUNT_STALL_SEND", "1");
    std::thread::spawn(|| {
        std::thread::sleep(Duration::from_secs(20));
        eprintln!("watchdog: the test hangs");
        std::process::exit(3);
    });

    let tops = AtomicUsize::new(0);
    let bottoms = AtomicUsize::new(0);
    let mut polled = 0;

    cqueue::scope(|cqueue| {
        let selector = go!(cqueue, 0, |es| {
            // top half
            tops.fetch_add(1, Ordering::SeqCst);
            es.send(0);
            // bottom half
            bottoms.fetch_add(1, Ordering::SeqCst);
        });

        // the select coroutine is in `send` now, it has passed the cancel check
        std::thread::sleep(Duration::from_millis(100));
        assert_eq!(tops.load(Ordering::SeqCst), 1);
        selector.remove();

        loop {
            match cqueue.poll(None) {
                Ok(ev) => {
                    assert_eq!(ev.token, 0);
                    polled += 1;
                }
                Err(PollError::Finished) => break,
                Err(PollError::Timeout) => unreachable!(),
            }
        }
    });

    // either the event was consumed by a poll that ran its bottom half,
    // or the select coroutine was cancelled and the bottom half never ran
    let bottoms = bottoms.load(Ordering::SeqCst);
    assert_eq!(
        bottoms, polled,
        "{bottoms} bottom half run but {polled} event returned by poll"
    );
}
