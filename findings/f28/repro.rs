//! A timed out (or cancelled) waiter leaves its blocker in the wait queue of the
//! primitive, flagged "released". `Semphore::post`, `Condvar::notify_one`,
//! `SyncFlag::fire` and `Mutex::unlock` skip such an abandoned blocker by calling
//! *themselves* again, so the stack depth of one post / notify / fire is the number of
//! abandoned blockers in front of the queue. A poller that timed out a few hundred
//! times makes the next `post()` / `notify_one()` / `fire()` of a coroutine overflow its
//! stack: the coroutine dies in the middle of the post (the permit / notification is
//! lost) or the whole process exits ("stack overflow detected").
//! `Mutex` / `RwLock` waiters don't time out but they are abandoned the same way when
//! they are cancelled, e.g. all the workers that queue on a mutex at shutdown.
//!
//! no injection needed
//!
//! run: cargo test --offline --test abandoned_waiters_recursion -- --test-threads=1
#[macro_use]
extern crate may;

use may::sync::{Condvar, Mutex, RwLock, Semphore, SyncFlag};
use std::sync::Arc;
use std::thread;
use std::time::Duration;

// the number of timed out waits before the event is signalled,
// e.g. an idle consumer that polls every 10ms for one minute
// (the env var N overrides it: a debug build dies with N=200, a release build with N=2000)
fn n() -> usize {
    std::env::var("N")
        .ok()
        .and_then(|v| v.parse().ok())
        .unwrap_or(6000)
}

// the number of waiters that are cancelled while they wait for a mutex / rwlock
const CANCELLED: usize = 1000;

#[test]
fn semphore_post_after_timed_out_waits() {
    let sem = Arc::new(Semphore::new(0));
    for _ in 0..n() {
        assert!(!sem.wait_timeout(Duration::from_micros(10)));
    }

    let s = sem.clone();
    let j = go!(move || s.post());
    j.join().unwrap();

    // value == initial + posts - successful waits
    assert_eq!(sem.get_value(), 1);
    assert!(sem.wait_timeout(Duration::from_secs(1)));
}

#[test]
fn condvar_notify_one_after_timed_out_waits() {
    let pair = Arc::new((Mutex::new(false), Condvar::new()));
    for _ in 0..n() {
        let g = pair.0.lock().unwrap();
        let (g, r) = pair.1.wait_timeout(g, Duration::from_micros(10)).unwrap();
        assert!(r.timed_out());
        drop(g);
    }

    let p = pair.clone();
    let j = go!(move || {
        *p.0.lock().unwrap() = true;
        p.1.notify_one();
    });
    j.join().unwrap();
    assert!(*pair.0.lock().unwrap());
}

#[test]
fn sync_flag_fire_after_timed_out_waits() {
    let flag = Arc::new(SyncFlag::new());
    for _ in 0..n() {
        assert!(!flag.wait_timeout(Duration::from_micros(10)));
    }

    let f = flag.clone();
    let j = go!(move || f.fire());
    j.join().unwrap();
    assert!(flag.is_fired());
    assert!(flag.wait_timeout(Duration::from_secs(1)));
}

#[test]
fn mutex_unlock_after_cancelled_waiters() {
    let m = Arc::new(Mutex::new(0usize));
    let go_on = Arc::new(Semphore::new(0));

    // the holder is a coroutine with the default stack
    let (m2, go_on2) = (m.clone(), go_on.clone());
    let holder = go!(move || {
        let mut g = m2.lock().unwrap();
        go_on2.wait();
        *g += 1;
        drop(g);
    });
    thread::sleep(Duration::from_millis(100));

    let waiters: Vec<_> = (0..CANCELLED)
        .map(|_| {
            let m = m.clone();
            go!(move || {
                *m.lock().unwrap() += 1;
            })
        })
        .collect();
    thread::sleep(Duration::from_millis(300));
    for w in &waiters {
        unsafe { w.coroutine().cancel() };
    }
    for w in waiters {
        assert!(w.join().is_err());
    }

    // the holder unlocks now
    go_on.post();
    holder.join().expect("the unlock of the holder failed");
    assert_eq!(*m.lock().unwrap(), 1);
}

#[test]
fn rwlock_unlock_after_cancelled_waiters() {
    let l = Arc::new(RwLock::new(0usize));
    let go_on = Arc::new(Semphore::new(0));

    let (l2, go_on2) = (l.clone(), go_on.clone());
    let holder = go!(move || {
        let mut g = l2.write().unwrap();
        go_on2.wait();
        *g += 1;
        drop(g);
    });
    thread::sleep(Duration::from_millis(100));

    let waiters: Vec<_> = (0..CANCELLED)
        .map(|_| {
            let l = l.clone();
            go!(move || {
                *l.write().unwrap() += 1;
            })
        })
        .collect();
    thread::sleep(Duration::from_millis(300));
    for w in &waiters {
        unsafe { w.coroutine().cancel() };
    }
    for w in waiters {
        assert!(w.join().is_err());
    }

    go_on.post();
    holder.join().expect("the unlock of the holder failed");
    assert_eq!(*l.write().unwrap(), 1);
}
