//! A timed wait that really times out on an interval list that is retired right
//! after (more than 1024 interval lists alive) leaves the coroutine's timer handle
//! pointing into freed memory: `Queue::drop` of `mpsc_list_v1` frees its last node
//! (the popped entry, which is the new stub) without looking at its ref count.
#[macro_use]
extern crate may;

use std::sync::atomic::{AtomicUsize, Ordering};
use std::time::{Duration, Instant};

use may::coroutine;

#[test]
fn timed_out_waits_after_many_intervals() {
    may::config().set_workers(2);

    // 1. more than HASH_CAP (1024) distinct intervals: from now on an interval list
    //    is dropped as soon as it runs empty
    go!(|| {
        for i in 1..=(if std::env::var("H2_NOWARM").is_ok() { 10 } else { 1100u64 }) {
            coroutine::sleep(Duration::from_nanos(i));
        }
    })
    .join()
    .unwrap();

    // 2. timed waits that time out, on a few intervals
    static DONE: AtomicUsize = AtomicUsize::new(0);
    static LATE: AtomicUsize = AtomicUsize::new(0);
    let n = 16;
    let rounds = 300;
    for id in 0..n {
        go!(move || {
            let (_tx, rx) = may::sync::mpsc::channel::<usize>();
            for i in 0..rounds {
                let ms = 1 + ((id * 7 + i * 3) % 11) as u64;
                let d = Duration::from_millis(ms);
                let t = Instant::now();
                let r = rx.recv_timeout(d);
                let e = t.elapsed();
                assert!(r.is_err());
                assert!(e >= d, "early: {e:?} < {d:?}");
                if e > d + Duration::from_millis(500) {
                    LATE.fetch_add(1, Ordering::SeqCst);
                }
            }
            DONE.fetch_add(1, Ordering::SeqCst);
        });
    }

    let start = Instant::now();
    while DONE.load(Ordering::SeqCst) < n {
        assert!(
            start.elapsed() < Duration::from_secs(30),
            "timed waits never returned: {} of {} coroutines finished",
            DONE.load(Ordering::SeqCst),
            n
        );
        std::thread::sleep(Duration::from_millis(10));
    }
    assert_eq!(LATE.load(Ordering::SeqCst), 0, "timed waits returned very late");
}
