//! may_queue level reproduction of F25 (no concurrency): the handle of the last popped entry outlives the list.
//! Put into may_queue/tests/ and run under valgrind (or miri): `Queue::drop` frees the node the handle still owns,
//! `Entry::drop` then decrements `refs` in freed memory.
use may_queue::mpsc_list_v1::Queue;

#[test]
fn handle_of_last_popped_entry_outlives_the_list() {
    let q = Queue::new();
    let (h, _) = q.push(1usize);
    assert_eq!(q.pop(), Some(1));
    drop(q); // frees the stub = the popped node, although `h` holds a reference
    assert!(!h.is_link() || true); // reads freed memory
    drop(h); // writes freed memory
}
