//! the io timeout is re-armed with the full duration on every wake-up of the blocked
//! operation, also on the ones that don't complete it

use std::io::{ErrorKind, Read, Write};
use std::sync::atomic::{AtomicBool, Ordering};
use std::sync::mpsc::channel;
use std::sync::Arc;
use std::time::{Duration, Instant};

use may::net::TcpListener;

const TIMEOUT: Duration = Duration::from_millis(300);

#[test]
fn read_timeout_with_writer_on_a_clone() {
    may::config().set_workers(1);
    let stop = Arc::new(AtomicBool::new(false));

    let listener = TcpListener::bind("127.0.0.1:0").unwrap();
    let addr = listener.local_addr().unwrap();

    // the peer: reads slowly what it gets and never sends anything
    let stop1 = stop.clone();
    let peer = std::thread::spawn(move || {
        let s = socket2::Socket::new(socket2::Domain::IPV4, socket2::Type::STREAM, None).unwrap();
        s.set_recv_buffer_size(16 * 1024).unwrap();
        s.connect(&addr.into()).unwrap();
        let mut s: std::net::TcpStream = s.into();
        let mut buf = vec![0u8; 8 * 1024];
        while !stop1.load(Ordering::Relaxed) {
            match s.read(&mut buf) {
                Ok(0) | Err(_) => break,
                Ok(_) => std::thread::sleep(Duration::from_millis(5)),
            }
        }
    });

    let (s, _) = listener.accept().unwrap();
    let mut w = s.try_clone().unwrap();
    socket2::SockRef::from(w.inner())
        .set_send_buffer_size(16 * 1024)
        .unwrap();
    let mut r = s;
    r.set_read_timeout(Some(TIMEOUT)).unwrap();

    // the writer keeps the send buffer full
    let stop2 = stop.clone();
    let writer = may::go!(move || {
        let data = vec![0x55u8; 8 * 1024];
        while !stop2.load(Ordering::Relaxed) {
            if w.write_all(&data).is_err() {
                break;
            }
        }
    });

    let (tx, rx) = channel();
    let reader = may::go!(move || {
        let mut buf = [0u8; 16];
        // every read has the whole timeout for itself
        for _ in 0..2 {
            let t = Instant::now();
            let ret = r.read(&mut buf);
            tx.send((ret.map_err(|e| e.kind()), t.elapsed())).ok();
        }
        r
    });

    for i in 0..2 {
        match rx.recv_timeout(TIMEOUT * 10) {
            Ok((ret, dt)) => {
                assert_eq!(ret, Err(ErrorKind::TimedOut));
                assert!(dt >= TIMEOUT, "read #{i} timed out after {dt:?}");
                assert!(dt < TIMEOUT * 2, "read #{i} timed out after {dt:?}");
            }
            Err(_) => {
                stop.store(true, Ordering::Relaxed);
                panic!(
                    "nothing arrived but read #{i} with a timeout of {TIMEOUT:?} is still blocked after {:?}",
                    TIMEOUT * 10
                )
            }
        }
    }
    stop.store(true, Ordering::Relaxed);
    drop(reader.join());
    writer.join().ok();
    peer.join().unwrap();
}
