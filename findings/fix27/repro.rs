//! Dropping the blocker (`Park::drop`) at the end of a *successful* blocking call is a
//! cancellation point: a coroutine that was handed a mutex / rwlock / semaphore permit
//! and is cancelled before it returns from `lock()` / `write()` / `wait()` panics out of
//! the primitive *after* it acquired the resource, so the resource is leaked for ever.
//!
//! needs `inject.diff` (the worker thread 0 is preempted in `Park::subscribe` right after
//! it published the coroutine, only if MAY_INJECT_PARK_SUBSCRIBE_STALL_MS is set)
//!
//! run: cargo test --offline --test park_drop_cancel -- --test-threads=1
extern crate may;

use may::coroutine;
use may::sync::{Mutex, RwLock, Semphore};
use std::sync::atomic::{AtomicUsize, Ordering};
use std::sync::mpsc;
use std::sync::Arc;
use std::thread;
use std::time::Duration;

const ROUNDS: usize = 8;

fn setup() {
    // the stall is much longer than what the test needs to hand off and cancel
    std::env::set_var("MAY_INJECT_PARK_SUBSCRIBE_STALL_MS", "300");
    // the woken coroutine must be able to run on an other worker than the stalled one
    may::config().set_workers(4);
}

// only the worker 0 is stalled by the injection
fn spawn_on_worker_0<F>(f: F) -> coroutine::JoinHandle<()>
where
    F: FnOnce() + Send + 'static,
{
    unsafe { coroutine::Builder::new().id(0).spawn(f).unwrap() }
}

// join with a watchdog, true if the coroutine ended with a Cancel panic
fn join_is_cancel(j: coroutine::JoinHandle<()>, what: &str) -> bool {
    let (tx, rx) = mpsc::channel();
    thread::spawn(move || {
        let r = j.join();
        let _ = tx.send(match r {
            Ok(()) => false,
            Err(e) => matches!(
                e.downcast_ref::<generator::Error>(),
                Some(&generator::Error::Cancel)
            ),
        });
    });
    rx.recv_timeout(Duration::from_secs(20))
        .unwrap_or_else(|_| panic!("{what}: join() of the cancelled coroutine hangs"))
}

#[test]
fn mutex_handed_to_a_cancelled_waiter_is_released() {
    setup();
    for round in 0..ROUNDS {
        let m = Arc::new(Mutex::new(0usize));
        let locked = Arc::new(AtomicUsize::new(0));
        let g = m.lock().unwrap();

        let (m2, locked2) = (m.clone(), locked.clone());
        let j = spawn_on_worker_0(move || {
            // contended: parks, the worker thread is stalled in `subscribe`
            let g = m2.lock().unwrap();
            locked2.fetch_add(1, Ordering::SeqCst);
            // the next cancellation point, the unwinding drops the guard
            coroutine::sleep(Duration::from_secs(3600));
            drop(g);
        });

        // the coroutine is parked on the mutex now
        thread::sleep(Duration::from_millis(100));
        // hand the lock to the coroutine, it is scheduled on an other worker
        drop(g);
        // and cancel it
        unsafe { j.coroutine().cancel() };

        assert!(join_is_cancel(j, "mutex"), "round {round}: not a Cancel");
        // let the stalled worker finish
        thread::sleep(Duration::from_millis(400));

        // the cancelled coroutine is gone, whatever it held must be released
        let (tx, rx) = mpsc::channel();
        let m3 = m.clone();
        thread::spawn(move || {
            drop(m3.lock().unwrap());
            let _ = tx.send(());
        });
        assert!(
            rx.recv_timeout(Duration::from_secs(5)).is_ok(),
            "round {round}: the mutex stays locked for ever: it was handed to the cancelled \
             coroutine (lock() returned to the user: {}) which never released it",
            locked.load(Ordering::SeqCst)
        );
    }
}

#[test]
fn semphore_permit_given_to_a_cancelled_waiter_is_not_lost() {
    setup();
    for round in 0..ROUNDS {
        let sem = Arc::new(Semphore::new(0));
        let got = Arc::new(AtomicUsize::new(0));

        let (sem2, got2) = (sem.clone(), got.clone());
        let j = spawn_on_worker_0(move || {
            sem2.wait();
            // a successful wait
            got2.fetch_add(1, Ordering::SeqCst);
            // the next cancellation point
            coroutine::sleep(Duration::from_secs(3600));
        });

        thread::sleep(Duration::from_millis(100));
        sem.post();
        unsafe { j.coroutine().cancel() };

        assert!(join_is_cancel(j, "semphore"), "round {round}: not a Cancel");
        thread::sleep(Duration::from_millis(400));

        // value == initial + posts - successful waits
        let got = got.load(Ordering::SeqCst);
        assert_eq!(
            sem.get_value() + got,
            1,
            "round {round}: permit lost: 1 post, {got} successful wait, value {}",
            sem.get_value()
        );
    }
}

#[test]
fn rwlock_handed_to_a_cancelled_writer_is_released() {
    setup();
    for round in 0..ROUNDS {
        let l = Arc::new(RwLock::new(0usize));
        let g = l.write().unwrap();

        let l2 = l.clone();
        let j = spawn_on_worker_0(move || {
            let g = l2.write().unwrap();
            coroutine::sleep(Duration::from_secs(3600));
            drop(g);
        });

        thread::sleep(Duration::from_millis(100));
        drop(g);
        unsafe { j.coroutine().cancel() };

        assert!(join_is_cancel(j, "rwlock"), "round {round}: not a Cancel");
        thread::sleep(Duration::from_millis(400));

        // all guards are dropped
        assert!(
            l.try_write().is_ok(),
            "round {round}: the rwlock stays write locked for ever"
        );
    }
}
