// witness.rs -- compile-time witness for defect F7
// ("single-consumer / single-producer channel endpoints are auto-Sync").
//
// WHERE TO PUT:  copy to  <may checkout>/examples/witness_f7.rs
//
// HOW TO RUN (from the checkout root, offline):
//
//   (A) Send-only part -- must compile BEFORE and AFTER the fix:
//         cargo build --offline --example witness_f7
//
//   (B) Sync part -- compiles BEFORE the fix (= the defect),
//       must FAIL with 3 x error[E0277] "... cannot be shared between threads
//       safely" AFTER the fix (one per is_sync line below):
//         cargo rustc --offline --example witness_f7 -- --cfg witness_sync
//
// No unsafe, no nightly features.
#![allow(unexpected_cfgs)]

fn is_send<T: Send>() {}
#[allow(dead_code)]
fn is_sync<T: Sync>() {}

fn main() {
    // Must hold before and after the fix: the endpoints can be *moved* to
    // another thread / coroutine.
    is_send::<may::sync::mpsc::Receiver<i32>>();
    is_send::<may::sync::mpsc::Sender<i32>>();
    is_send::<may::sync::spsc::Receiver<i32>>();
    is_send::<may::sync::spsc::Sender<i32>>();
    is_send::<may::sync::mpmc::Receiver<i32>>();
    is_send::<may::sync::mpmc::Sender<i32>>();

    // Multi-producer / multi-consumer endpoints are legitimately Sync and are
    // not touched by the fix.
    is_sync::<may::sync::mpsc::Sender<i32>>();
    is_sync::<may::sync::mpmc::Receiver<i32>>();
    is_sync::<may::sync::mpmc::Sender<i32>>();

    // THE DEFECT: these three drive a single-consumer `pop` / single-producer
    // `push` through `&self`, so they must NOT be Sync.
    #[cfg(witness_sync)]
    {
        is_sync::<may::sync::mpsc::Receiver<i32>>();
        is_sync::<may::sync::spsc::Receiver<i32>>();
        is_sync::<may::sync::spsc::Sender<i32>>();
    }

    println!("witness_f7: compiled");
}
