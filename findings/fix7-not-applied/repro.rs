// repro.rs -- run-time reproduction of defect F7 with SAFE code only
// ("channels deliver every message exactly once" is violated because the
//  single-consumer / single-producer endpoints of may::sync::{mpsc,spsc} are
//  auto-Sync and can therefore be shared by reference between threads).
//
// WHERE TO PUT:  copy to  <may checkout>/examples/repro_f7.rs
//
// HOW TO RUN (from the checkout root, offline, release build):
//
//     cargo run --offline --release --example repro_f7               # = mpsc-rx
//     cargo run --offline --release --example repro_f7 -- mpsc-rx    # 2 consumers on &mpsc::Receiver
//     cargo run --offline --release --example repro_f7 -- spsc-rx    # 2 consumers on &spsc::Receiver
//     cargo run --offline --release --example repro_f7 -- spsc-tx    # 2 producers on &spsc::Sender
//     (optional 2nd argument: number of messages, default 2_000_000)
//
// EXPECTED
//   * unfixed crate: compiles; at run time either the process is killed
//     (SIGABRT "double free or corruption" / "free(): invalid pointer",
//     SIGSEGV) or it prints a verdict with duplicated / lost / garbage values
//     and exits with status 1, or a consumer hangs forever in a spin loop of
//     the corrupted queue (the built-in watchdog then exits with status 2).
//   * fixed crate: DOES NOT COMPILE (error[E0277]: `*const ()` cannot be shared
//     between threads safely) -- that is the point of the fix.
//
// There is no `unsafe` in this file.
#![forbid(unsafe_code)]

use std::sync::atomic::{AtomicBool, AtomicUsize, Ordering};
use std::sync::mpsc::TryRecvError;
use std::thread;
use std::time::{Duration, Instant};

/// How long a consumer tolerates "Empty" after all producers have finished
/// before it gives up (messages were lost).
const GIVE_UP: Duration = Duration::from_secs(1);
/// Hard limit for the whole run (a consumer may spin forever inside the
/// corrupted queue, e.g. in `BlockNode::get` / `wait_next_block`).
const WATCHDOG: Duration = Duration::from_secs(60);

fn main() {
    let mut args = std::env::args().skip(1);
    let mode = args.next().unwrap_or_else(|| "mpsc-rx".to_owned());
    let n: usize = args
        .next()
        .map(|s| s.replace('_', "").parse().expect("message count"))
        .unwrap_or(2_000_000);

    // watchdog: plain std thread, not part of the scope
    thread::spawn(|| {
        thread::sleep(WATCHDOG);
        eprintln!("VERDICT: HANG (no result after {WATCHDOG:?}; a thread spins inside the corrupted queue)");
        std::process::exit(2);
    });

    println!("repro_f7 mode={mode} n={n}");
    // each function prints the verdict while the channel is still alive: the
    // drop of the corrupted queue may itself panic / abort afterwards.
    let ok = match mode.as_str() {
        "mpsc-rx" => mpsc_two_consumers(n),
        "spsc-rx" => spsc_two_consumers(n),
        "spsc-tx" => spsc_two_producers(n),
        other => panic!("unknown mode {other}"),
    };
    if !ok {
        std::process::exit(1);
    }
}

/// Generic consumer loop: drain with `try_recv` until Disconnected, or until
/// the producers are done and nothing arrived for `GIVE_UP`.
fn consume(
    try_recv: impl Fn() -> Result<usize, TryRecvError>,
    producers_done: &AtomicBool,
    cap: usize,
) -> Vec<usize> {
    let mut got = Vec::with_capacity(cap);
    let mut idle_since: Option<Instant> = None;
    loop {
        match try_recv() {
            Ok(v) => {
                got.push(v);
                idle_since = None;
            }
            Err(TryRecvError::Disconnected) => break,
            Err(TryRecvError::Empty) => {
                if producers_done.load(Ordering::Acquire) {
                    let t = *idle_since.get_or_insert_with(Instant::now);
                    if t.elapsed() > GIVE_UP {
                        break;
                    }
                }
                std::hint::spin_loop();
            }
        }
    }
    got
}

/// two scoped threads call `try_recv` on ONE `&mpsc::Receiver<usize>`
fn mpsc_two_consumers(n: usize) -> bool {
    let (tx, rx) = may::sync::mpsc::channel::<usize>();
    let rx = &rx; // <- shared reference, needs `Receiver<usize>: Sync`
    let done = &AtomicBool::new(false);
    let received = thread::scope(|s| {
        let c1 = s.spawn(move || consume(|| rx.try_recv(), done, n));
        let c2 = s.spawn(move || consume(|| rx.try_recv(), done, n));
        s.spawn(move || {
            for i in 0..n {
                tx.send(i).unwrap();
            }
            drop(tx);
            done.store(true, Ordering::Release);
        });
        vec![c1.join().unwrap(), c2.join().unwrap()]
    });
    verdict(n, &received)
}

/// two scoped threads call `try_recv` on ONE `&spsc::Receiver<usize>`
fn spsc_two_consumers(n: usize) -> bool {
    let (tx, rx) = may::sync::spsc::channel::<usize>();
    let rx = &rx; // <- needs `spsc::Receiver<usize>: Sync`
    let done = &AtomicBool::new(false);
    let received = thread::scope(|s| {
        let c1 = s.spawn(move || consume(|| rx.try_recv(), done, n));
        let c2 = s.spawn(move || consume(|| rx.try_recv(), done, n));
        s.spawn(move || {
            for i in 0..n {
                tx.send(i).unwrap();
            }
            drop(tx);
            done.store(true, Ordering::Release);
        });
        vec![c1.join().unwrap(), c2.join().unwrap()]
    });
    verdict(n, &received)
}

/// two scoped threads call `send` on ONE `&spsc::Sender<usize>`;
/// a single (legitimate) consumer receives
fn spsc_two_producers(n: usize) -> bool {
    let (tx, rx) = may::sync::spsc::channel::<usize>();
    let tx = &tx; // <- needs `spsc::Sender<usize>: Sync`
    let done = &AtomicBool::new(false);
    let finished = &AtomicUsize::new(0);
    let received = thread::scope(|s| {
        let c = s.spawn(move || consume(|| rx.try_recv(), done, n));
        for p in 0..2usize {
            s.spawn(move || {
                // producer 0 sends the even numbers, producer 1 the odd ones
                for i in (p..n).step_by(2) {
                    tx.send(i).unwrap();
                }
                if finished.fetch_add(1, Ordering::AcqRel) == 1 {
                    done.store(true, Ordering::Release);
                }
            });
        }
        vec![c.join().unwrap()]
    });
    verdict(n, &received)
}

fn verdict(n: usize, received: &[Vec<usize>]) -> bool {
    let mut seen = vec![0u32; n];
    let mut garbage = 0usize;
    let mut total = 0usize;
    for (k, got) in received.iter().enumerate() {
        println!("  consumer {k}: received {}", got.len());
        total += got.len();
        for &v in got {
            if v < n {
                seen[v] += 1;
            } else {
                garbage += 1;
            }
        }
    }
    let lost = seen.iter().filter(|&&c| c == 0).count();
    let duplicated = seen.iter().filter(|&&c| c > 1).count();
    let extra: usize = seen.iter().filter(|&&c| c > 1).map(|&c| c as usize - 1).sum();
    println!("  sent={n} received_total={total}");
    println!("  lost(values never delivered)      = {lost}");
    println!("  duplicated(values delivered >1x)  = {duplicated} (surplus deliveries {extra})");
    println!("  garbage(values never sent)        = {garbage}");
    if lost == 0 && duplicated == 0 && garbage == 0 && total == n {
        println!("VERDICT: OK (exactly-once held in this run)");
        true
    } else {
        println!("VERDICT: VIOLATION of exactly-once delivery");
        false
    }
}
