#!/bin/bash
# usage: analyze.sh <tag-iter>   e.g. e-22
k=$1
echo "=== hang $k"
grep "has been running" hang-$k.log
socks=$(awk '$11 ~ /^socket:/ {print $9}' fds-$k.txt)
regs=$(grep "^tfd:" epoll-$k.txt | awk '{print $2}' | sort -n | tr '\n' ' ')
echo "open socket fds: $(echo $socks | tr '\n' ' ')"
for s in $socks; do
  if echo " $regs " | grep -q " $s "; then echo "  fd $s: registered in epoll"; else echo "  fd $s: NOT registered in any epoll instance  <== victim"; fi
done
# frames of interest of the test threads
grep -n "may::os::unix::net::test::[a-z_]* ()\|may::yield_now::yield_with_io\|may::join::Join::wait\|test::[a-z_:]* () at src" gdb-$k.txt | grep -v closure | cut -c1-160
