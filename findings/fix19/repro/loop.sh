#!/bin/bash
# usage: loop.sh <tag> <iterations> <filter...>
tag=$1; n=$2; shift 2
bin=${BIN:-/tmp/inv19-out/repro/may-orig}
out=/tmp/inv19-out/repro
for i in $(seq 1 $n); do
  log=$out/run-$tag-$i.log
  "$bin" "$@" > $log 2>&1 &
  pid=$!
  # wait up to 120 s
  for s in $(seq 1 240); do
    if ! kill -0 $pid 2>/dev/null; then break; fi
    sleep 0.5
  done
  if kill -0 $pid 2>/dev/null; then
    echo "HANG tag=$tag iter=$i pid=$pid" | tee -a $out/hangs.txt
    gdb -p $pid -batch -ex "set pagination off" -ex "thread apply all bt" > $out/gdb-$tag-$i.txt 2>&1
    gcore -o $out/core-$tag-$i $pid > /dev/null 2>&1
    kill -9 $pid
    cp $log $out/hang-$tag-$i.log
  else
    wait $pid; rc=$?
    if [ $rc -ne 0 ]; then echo "FAIL tag=$tag iter=$i rc=$rc" | tee -a $out/fails.txt; cp $log $out/fail-$tag-$i.log; fi
  fi
  rm -f $log
done
echo "DONE tag=$tag"
