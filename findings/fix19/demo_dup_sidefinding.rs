//! INV19 side finding: a dropped `try_clone()` handle leaves a dangling epoll entry.
//! close(dup fd) does not remove the epoll entry while the original fd keeps the open
//! file description alive, and the EPOLL_CTL_DEL that follows the close fails with EBADF.
//! The `EventData` of the clone is freed by the selector, later events on the socket
//! are still reported with a pointer to it. Run under `strace -f -e trace=epoll_ctl,epoll_wait,close,dup,fcntl`.
use std::io::{Read, Write};
use std::thread;
use std::time::Duration;

use may::os::unix::net::UnixStream;

#[test]
fn dropped_clone_keeps_epoll_entry() {
    let (mut a, mut peer) = UnixStream::pair().unwrap();
    let b = a.try_clone().unwrap();
    drop(b);
    for _ in 0..3 {
        thread::sleep(Duration::from_millis(100));
        peer.write_all(b"x").unwrap();
        let mut buf = [0u8; 1];
        a.read_exact(&mut buf).unwrap();
    }
}
