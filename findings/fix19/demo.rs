//! INV19 demo: `CoIo` closes its fd *before* it removes the fd from epoll.
//!
//! `CoIo { inner: T, io: IoData, .. }` drops `inner` first (close(fd)) and `io`
//! second (`IoData::drop` -> `del_fd` -> epoll_ctl(EPOLL_CTL_DEL, fd)).  If an
//! other thread creates a socket in between it gets the same fd number and
//! registers it to the same epoll instance (`fd % workers`); the late
//! EPOLL_CTL_DEL then removes the registration of the *new* socket, which never
//! sees an io event again: a blocking read on it hangs forever.
//!
//! The injection (src/io/sys/unix/mod.rs, `IoData::drop`) only sleeps 1s before
//! `del_socket` in threads named "inv19-slow-drop".  Without the injection the
//! window is a few instructions wide and this test passes.
use std::io::{Read, Write};
use std::os::unix::io::AsRawFd;
use std::sync::mpsc;
use std::thread;
use std::time::Duration;

use may::os::unix::net::UnixStream;

#[test]
fn coio_drop_must_not_deregister_a_reused_fd() {
    // the socket that is going to be dropped slowly
    let (a, _a_peer) = UnixStream::pair().unwrap();
    let fd = a.as_raw_fd();

    // drop `a` in the slow thread: close(fd) ... 1s ... epoll_ctl(DEL, fd)
    let dropper = thread::Builder::new()
        .name("inv19-slow-drop".into())
        .spawn(move || drop(a))
        .unwrap();

    // give the dropper time to close the fd
    thread::sleep(Duration::from_millis(300));

    // a new pair: the kernel hands out the lowest free fd numbers, so if `fd` is
    // already closed (defect) it is reused here. If the dropper deregisters before
    // it closes (fixed), `fd` is still open and the new pair gets other numbers
    let (s1, s2) = UnixStream::pair().unwrap();
    let (mut s, mut peer) = if s2.as_raw_fd() == fd {
        (s2, s1)
    } else {
        (s1, s2)
    };
    let new_fd = s.as_raw_fd();
    eprintln!(
        "old fd {fd}, new stream fd {new_fd} ({})",
        if new_fd == fd { "reused" } else { "not reused" }
    );

    // wait for the (late) epoll_ctl(DEL, fd) of the dropper
    dropper.join().unwrap();

    // blocking read in thread context, the data arrives later
    let (tx, rx) = mpsc::channel();
    thread::spawn(move || {
        let mut buf = [0u8; 5];
        let r = s.read_exact(&mut buf).map(|_| buf);
        tx.send(r).ok();
    });
    thread::sleep(Duration::from_millis(300));
    peer.write_all(b"hello").unwrap();

    // watchdog
    match rx.recv_timeout(Duration::from_secs(5)) {
        Ok(r) => assert_eq!(&r.unwrap(), b"hello"),
        Err(_) => panic!("lost wake-up: reader on fd {new_fd} still blocked 5s after the peer wrote"),
    }
}
