//! socket io from a plain thread (not a coroutine) is forwarded to a per thread proxy
//! coroutine and the thread waits for it with one bare `std::thread::park()`.
//! `park` returns at once when the thread owns a wake-up token (and is allowed to return
//! spuriously anyway), the thread then runs ahead of its proxy coroutine.

use std::io::{ErrorKind, Read, Write};
use std::sync::mpsc::channel;
use std::time::{Duration, Instant};

use may::net::TcpStream;

const TIMEOUT: Duration = Duration::from_millis(300);

fn watchdog<F: FnOnce() + Send + 'static>(name: &str, secs: u64, f: F) {
    let (tx, rx) = channel();
    let h = std::thread::Builder::new()
        .name(name.to_owned())
        .spawn(move || {
            f();
            tx.send(()).ok();
        })
        .unwrap();
    match rx.recv_timeout(Duration::from_secs(secs)) {
        Ok(()) => h.join().unwrap(),
        Err(std::sync::mpsc::RecvTimeoutError::Disconnected) => {
            // the closure panicked, propagate it
            if let Err(e) = h.join() {
                std::panic::resume_unwind(e);
            }
        }
        Err(std::sync::mpsc::RecvTimeoutError::Timeout) => {
            panic!("{name}: io of the plain thread is still blocked after {secs}s")
        }
    }
}

/// the timeout of a read that is long finished fails the next read on the socket early
#[test]
fn thread_read_timeout_after_stale_unpark_token() {
    watchdog("timeout", 10, || {
        let listener = std::net::TcpListener::bind("127.0.0.1:0").unwrap();
        let addr = listener.local_addr().unwrap();
        let mut s = TcpStream::connect(addr).unwrap();
        let (_peer, _) = listener.accept().unwrap();
        s.set_read_timeout(Some(TIMEOUT)).unwrap();

        // this thread owns a wake-up token, e.g. left behind by a channel/lock that
        // is built on park/unpark and found its condition true without parking
        std::thread::current().unpark();

        let mut buf = [0u8; 16];
        for i in 0..3 {
            let t = Instant::now();
            let e = s.read(&mut buf).expect_err("nothing was sent");
            let dt = t.elapsed();
            assert_eq!(e.kind(), ErrorKind::TimedOut);
            assert!(
                dt >= TIMEOUT,
                "read #{i} timed out after {dt:?}, the read timeout is {TIMEOUT:?}"
            );
            // the timeout that the proxy armed behind our back is running meanwhile
            std::thread::sleep(TIMEOUT * 2 / 3);
        }
    });
}

/// the proxy stays blocked on the first socket and never serves the second one
#[test]
fn thread_read_other_socket_after_stale_unpark_token() {
    watchdog("other socket", 10, || {
        let listener = std::net::TcpListener::bind("127.0.0.1:0").unwrap();
        let addr = listener.local_addr().unwrap();
        let mut s1 = TcpStream::connect(addr).unwrap();
        let (mut p1, _) = listener.accept().unwrap();
        let mut s2 = TcpStream::connect(addr).unwrap();
        let (mut p2, _) = listener.accept().unwrap();

        let peer = std::thread::spawn(move || {
            std::thread::sleep(Duration::from_millis(100));
            p1.write_all(b"one").unwrap();
            std::thread::sleep(Duration::from_millis(300));
            p2.write_all(b"two").unwrap();
            std::thread::sleep(Duration::from_millis(300));
            // keep both connections open till the end
            (p1, p2)
        });

        std::thread::current().unpark();

        let mut buf = [0u8; 16];
        let n = s1.read(&mut buf).unwrap();
        assert_eq!(&buf[..n], b"one");
        // let the proxy coroutine settle
        std::thread::sleep(Duration::from_millis(100));
        let n = s2.read(&mut buf).unwrap();
        assert_eq!(&buf[..n], b"two");
        drop(peer.join().unwrap());
    });
}

/// no explicit `unpark`: the token is left behind by a `may::sync::spsc` receive of this
/// thread that registered as the waiter and then found the message without parking
#[test]
fn thread_read_timeout_after_spsc_traffic() {
    watchdog("spsc channel", 120, || {
        const TO: Duration = Duration::from_millis(40);
        let listener = std::net::TcpListener::bind("127.0.0.1:0").unwrap();
        let addr = listener.local_addr().unwrap();
        let mut s = TcpStream::connect(addr).unwrap();
        let (_peer, _) = listener.accept().unwrap();
        s.set_read_timeout(Some(TO)).unwrap();

        let (req_tx, req_rx) = may::sync::spsc::channel::<u32>();
        let (rsp_tx, rsp_rx) = may::sync::spsc::channel::<u32>();
        let echo = std::thread::spawn(move || loop {
            // busy poll so that the answer comes while the other side goes to sleep
            match req_rx.try_recv() {
                Ok(v) => rsp_tx.send(v).unwrap(),
                Err(std::sync::mpsc::TryRecvError::Empty) => std::hint::spin_loop(),
                Err(_) => break,
            }
        });

        let mut buf = [0u8; 16];
        for round in 0..120 {
            for i in 0..200 {
                req_tx.send(i).unwrap();
                assert_eq!(rsp_rx.recv().unwrap(), i);
            }
            for i in 0..2 {
                let t = Instant::now();
                let e = s.read(&mut buf).expect_err("nothing was sent");
                let dt = t.elapsed();
                assert_eq!(e.kind(), ErrorKind::TimedOut);
                assert!(
                    dt >= TO,
                    "round {round}: read #{i} timed out after {dt:?}, the read timeout is {TO:?}"
                );
                std::thread::sleep(TO * 2 / 3);
            }
        }
        drop(req_tx);
        echo.join().unwrap();
    });
}
