// a coroutine that is blocked in `spsc::Receiver::recv` is cancelled
#[macro_use]
extern crate may;

use may::coroutine;
use may::sync::spsc;
use std::time::Duration;

fn watchdog(secs: u64, what: &'static str) {
    std::thread::spawn(move || {
        std::thread::sleep(Duration::from_secs(secs));
        eprintln!("watchdog: {what} hangs");
        std::process::exit(3);
    });
}

// select! cancels the arms that lost
#[test]
fn select_spsc_arm() {
    watchdog(10, "select_spsc_arm");
    for _ in 0..20 {
        let (tx, rx) = spsc::channel::<usize>();
        let h = go!(move || {
            select!(
                _ = rx.recv() => {},
                _ = coroutine::sleep(Duration::from_millis(20)) => {}
            )
        });
        let id = h.join().unwrap();
        assert_eq!(id, 1);
        // the sender is idle all the time
        drop(tx);
    }
}

// plain cancel
#[test]
fn cancel_spsc_recv() {
    watchdog(10, "cancel_spsc_recv");
    for _ in 0..20 {
        let (tx, rx) = spsc::channel::<usize>();
        let h = go!(move || rx.recv());
        std::thread::sleep(Duration::from_millis(10));
        unsafe { h.coroutine().cancel() };
        assert!(h.join().is_err(), "the receiver was cancelled");
        // the channel still works for the sender side
        assert!(tx.send(1).is_err(), "the receiver is gone");
    }
}

// the channel is still usable after a cancelled recv
#[test]
fn recv_after_cancelled_recv() {
    use std::sync::{Arc, Mutex};
    watchdog(10, "recv_after_cancelled_recv");
    let (tx, rx) = spsc::channel::<usize>();
    // the receiver is used by one coroutine at a time
    let rx = Arc::new(Mutex::new(rx));
    let rx1 = rx.clone();
    let h = go!(move || {
        let rx = rx1.lock().unwrap();
        rx.recv()
    });
    std::thread::sleep(Duration::from_millis(10));
    unsafe { h.coroutine().cancel() };
    assert!(h.join().is_err(), "the receiver was cancelled");
    tx.send(7).unwrap();
    tx.send(8).unwrap();
    let h = go!(move || {
        let rx = rx.lock().unwrap_or_else(|e| e.into_inner());
        (rx.recv(), rx.recv())
    });
    assert_eq!(h.join().unwrap(), (Ok(7), Ok(8)));
}
