//! a coroutine that is blocked in a socket write can't be cancelled

use std::io::Write;
use std::sync::mpsc::channel;
use std::time::Duration;

use may::net::TcpListener;

fn blocked_writer_is_cancelled<F>(name: &str, write: F)
where
    F: Fn(&mut may::net::TcpStream, &[u8]) -> std::io::Result<usize> + Send + 'static,
{
    let listener = TcpListener::bind("127.0.0.1:0").unwrap();
    let addr = listener.local_addr().unwrap();
    // the peer never reads
    let mut peer = std::net::TcpStream::connect(addr).unwrap();
    let (mut s, _) = listener.accept().unwrap();

    let (tx, rx) = channel();
    let j = may::go!(move || {
        let data = vec![0x55u8; 64 * 1024];
        let mut total = 0usize;
        loop {
            let n = write(&mut s, &data).unwrap();
            total += n;
            tx.send(total).unwrap();
        }
    });

    // wait until the writer is blocked: no progress for 300ms
    let mut total = 0;
    while let Ok(n) = rx.recv_timeout(Duration::from_millis(300)) {
        total = n;
    }
    println!("{name}: writer blocked after {total} bytes");

    unsafe { j.coroutine().cancel() };

    let (dtx, drx) = channel();
    std::thread::spawn(move || {
        let r = j.join();
        dtx.send(r.is_err()).ok();
    });
    match drx.recv_timeout(Duration::from_secs(3)) {
        Ok(is_err) => assert!(is_err, "the coroutine was cancelled"),
        Err(_) => panic!("{name}: the cancelled coroutine is still blocked in the write after 3s"),
    }
    // the stream was closed by the unwind and everything that was written arrives
    let mut received = 0;
    let mut buf = vec![0u8; 64 * 1024];
    peer.set_read_timeout(Some(Duration::from_secs(3))).unwrap();
    loop {
        match std::io::Read::read(&mut peer, &mut buf).expect("peer read") {
            0 => break,
            n => {
                assert!(buf[..n].iter().all(|b| *b == 0x55));
                received += n;
            }
        }
    }
    assert_eq!(received, total);
}

#[test]
fn cancel_blocked_write() {
    blocked_writer_is_cancelled("write", |s, buf| s.write(buf));
}

#[test]
fn cancel_blocked_write_vectored() {
    blocked_writer_is_cancelled("write_vectored", |s, buf| {
        s.write_vectored(&[std::io::IoSlice::new(buf)])
    });
}

#[test]
fn cancel_blocked_datagram_send() {
    use may::os::unix::net::UnixDatagram;
    // the peer never receives
    let (s, _peer) = UnixDatagram::pair().unwrap();

    let (tx, rx) = channel();
    let j = may::go!(move || {
        let data = vec![0x55u8; 1024];
        let mut total = 0usize;
        loop {
            total += s.send(&data).unwrap();
            tx.send(total).unwrap();
        }
    });

    let mut total = 0;
    while let Ok(n) = rx.recv_timeout(Duration::from_millis(300)) {
        total = n;
    }
    println!("datagram: sender blocked after {total} bytes");

    unsafe { j.coroutine().cancel() };

    let (dtx, drx) = channel();
    std::thread::spawn(move || {
        let r = j.join();
        dtx.send(r.is_err()).ok();
    });
    match drx.recv_timeout(Duration::from_secs(3)) {
        Ok(is_err) => assert!(is_err, "the coroutine was cancelled"),
        Err(_) => panic!("datagram: the cancelled coroutine is still blocked in the send after 3s"),
    }
}
