// `JoinHandle::wait` takes `&self` and `JoinHandle<T>` is `Sync`:
// more than one coroutine/thread can wait for the same coroutine
#[macro_use]
extern crate may;

use may::coroutine;
use std::sync::Arc;
use std::time::Duration;

#[test]
fn many_waiters() {
    std::thread::spawn(|| {
        std::thread::sleep(Duration::from_secs(10));
        eprintln!("watchdog: many_waiters hangs");
        std::process::exit(3);
    });
    for _ in 0..20 {
        let h = Arc::new(go!(|| coroutine::sleep(Duration::from_millis(20))));
        let waiters: Vec<_> = (0..4)
            .map(|_| {
                let h = h.clone();
                go!(move || h.wait())
            })
            .collect();
        // a thread waits too
        let h1 = h.clone();
        let t = std::thread::spawn(move || h1.wait());
        for w in waiters {
            w.join().unwrap();
        }
        t.join().unwrap();
        assert!(h.is_done());
    }
}
