//! spmc bulk_pop / steal_into: a stealer that is stalled between reading the queue
//! state and its CAS on `head` claims a range computed from a stale push index when
//! the head block was freed and re-allocated at the same address meanwhile (ABA).
//! The task that is really in the queue is then held hostage by the claimed but
//! never filled slot: nobody gets it until the owner pushes more tasks.

use std::alloc::{GlobalAlloc, Layout, System};
use std::sync::atomic::{AtomicBool, AtomicUsize, Ordering};
use std::sync::mpsc::channel;
use std::sync::{Arc, Mutex};
use std::thread;
use std::time::Duration;

use may_queue::spmc::Queue;

// an allocator that hands out the most recently freed block of the same layout first
// (what the thread caches of jemalloc / mimalloc / glibc tcache do), only used for the
// layout of the spmc block node so that the test doesn't depend on the libc version
struct Lifo;
static FREE: Mutex<Vec<usize>> = Mutex::new(Vec::new());
static NODE_SIZE: AtomicUsize = AtomicUsize::new(0);

unsafe impl GlobalAlloc for Lifo {
    unsafe fn alloc(&self, l: Layout) -> *mut u8 {
        if l.align() == 32 && l.size() == NODE_SIZE.load(Ordering::Relaxed) {
            if let Some(p) = FREE.lock().unwrap().pop() {
                return p as *mut u8;
            }
        }
        System.alloc(l)
    }
    unsafe fn dealloc(&self, p: *mut u8, l: Layout) {
        if l.align() == 32 && l.size() == NODE_SIZE.load(Ordering::Relaxed) {
            FREE.lock().unwrap().push(p as usize);
            return;
        }
        System.dealloc(p, l)
    }
}

#[global_allocator]
static A: Lifo = Lifo;

// the address part of `head` out of the Debug output of the queue
fn head_of<T: std::fmt::Debug>(q: &Queue<T>) -> String {
    let s = format!("{q:?}");
    let i = s.find("BlockPtr(").expect("debug format");
    let s = &s[i + 9..];
    s[..s.find(')').unwrap()].to_owned()
}

#[test]
fn stolen_batch_never_holds_a_pushed_task_hostage() {
    // size of BlockNode<usize>: 32 slots + used + next + start, aligned to 32
    NODE_SIZE.store((32 * 8 + 3 * 8 + 31) & !31, Ordering::Relaxed);

    let q = Arc::new(Queue::<usize>::new());
    // block 0 (address A): two tasks are queued, head = (A, 0), push index = 2
    q.push(0);
    q.push(1);
    let head0 = head_of(&q);

    // the stealer reads head = (A, 0), push index = 2, tail block = A and is then
    // stalled before its CAS (the injected sleep only hits the thread with this name)
    let (tx, rx) = channel();
    let done = Arc::new(AtomicBool::new(false));
    let (q2, done2) = (q.clone(), done.clone());
    thread::Builder::new()
        .name("h3-stall-bulk".into())
        .spawn(move || {
            let v = q2.bulk_pop();
            done2.store(true, Ordering::SeqCst);
            tx.send(v.into_vec()).ok();
        })
        .unwrap();
    thread::sleep(Duration::from_millis(150));

    // meanwhile the owner runs through two blocks: block 0 is consumed and freed,
    // block 2 is allocated at the address of block 0 again
    assert_eq!(q.pop(), Some(0));
    assert_eq!(q.pop(), Some(1));
    for i in 2..64 {
        q.push(i);
        assert_eq!(q.pop(), Some(i));
    }
    // head = (block 2, 0) and block 2 is empty
    assert!(q.is_empty());
    assert_eq!(head_of(&q), head0, "precondition: the block address is reused");
    assert!(!done.load(Ordering::SeqCst), "precondition: the stealer is still stalled");

    // one single task is pushed now, it sits in slot 0 of block 2
    q.push(64);

    // the stealer resumes, its CAS (A, 0) -> (A, 2) succeeds
    thread::sleep(Duration::from_millis(700));
    // the task must be delivered to somebody: the stealer or the owner
    let mut got = None;
    for _ in 0..300 {
        if let Ok(v) = rx.try_recv() {
            got = Some(v);
            break;
        }
        if let Some(v) = q.pop() {
            got = Some(vec![v]);
            break;
        }
        thread::sleep(Duration::from_millis(10));
    }
    assert_eq!(
        got,
        Some(vec![64]),
        "task 64 was pushed 3s ago, nobody got it; owner sees is_empty() = {}",
        q.is_empty()
    );
}
