// the owner of a `select!` (a coroutine) starts to unwind while arms are still blocked:
// it is cancelled while it waits in `poll`, or `poll` re-raises the panic of an arm.
// `Cqueue::drop` then cancels the remaining arms and waits for them, in the middle of
// the unwinding of the owner
#[macro_use]
extern crate may;

use may::coroutine;
use may::sync::mpsc;
use std::time::Duration;

fn watchdog(secs: u64, what: &'static str) {
    std::thread::spawn(move || {
        std::thread::sleep(Duration::from_secs(secs));
        eprintln!("watchdog: {what} hangs");
        std::process::exit(3);
    });
}

// cancel a coroutine that waits in select!
#[test]
fn cancel_select_owner() {
    watchdog(20, "cancel_select_owner");
    may::config().set_workers(4);
    for round in 0..100 {
        let (_tx1, rx1) = mpsc::channel::<usize>();
        let (_tx2, rx2) = mpsc::channel::<usize>();
        let h = go!(move || {
            select!(
                _ = rx1.recv() => {},
                _ = rx2.recv() => {}
            )
        });
        std::thread::sleep(Duration::from_millis(2));
        unsafe { h.coroutine().cancel() };
        let r = h.join();
        assert!(r.is_err(), "the owner was cancelled");
        println!("round {round}: the cancelled owner is finished");
    }
}

// an arm panics, the panic is re-raised in the poller
#[test]
fn select_arm_panics() {
    watchdog(20, "select_arm_panics");
    may::config().set_workers(4);
    for round in 0..100 {
        let (_tx, rx) = mpsc::channel::<usize>();
        let h = go!(move || {
            select!(
                _ = {
                    coroutine::sleep(Duration::from_millis(2));
                    panic!("arm panic");
                } => {},
                _ = rx.recv() => {}
            )
        });
        let e = h.join().expect_err("the panic of the arm is re-raised in the poller");
        assert_eq!(e.downcast_ref::<&str>(), Some(&"arm panic"));
        println!("round {round}: the owner got the panic of the arm");
    }
}

// the mechanism: while the cancelled owner waits in `Cqueue::drop`, in the middle of its
// unwinding, the select coroutines it has just woken up run on its worker thread and see
// `std::thread::panicking()` although they are not unwinding
#[test]
fn arm_sees_thread_panicking() {
    use std::sync::atomic::{AtomicUsize, Ordering};
    use std::sync::Arc;

    watchdog(20, "arm_sees_thread_panicking");
    may::config().set_workers(4);
    let seen = Arc::new(AtomicUsize::new(0));
    for _ in 0..50 {
        let (_tx, rx) = mpsc::channel::<usize>();
        let seen1 = seen.clone();
        let h = go!(move || {
            select!(
                _ = loop {
                    // returns when we are unparked, nobody does that,
                    // a cancel ends the park with a Cancel panic
                    coroutine::park();
                    if std::thread::panicking() {
                        seen1.fetch_add(1, Ordering::SeqCst);
                        break;
                    }
                } => {},
                _ = rx.recv() => {}
            )
        });
        std::thread::sleep(Duration::from_millis(2));
        unsafe { h.coroutine().cancel() };
        // the round may hang for the reason shown by `cancel_select_owner`
        for _ in 0..200 {
            if h.is_done() {
                break;
            }
            std::thread::sleep(Duration::from_millis(1));
        }
    }
    assert_eq!(
        seen.load(Ordering::SeqCst),
        0,
        "select coroutines that are not unwinding have seen thread::panicking()"
    );
}
