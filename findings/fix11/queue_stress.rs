//! queue_stress.rs -- focused stress of `may_queue::mpsc_list_v1::Queue` used the way
//! `may`'s io-timeout path uses it: `Entry::remove()` is called from a thread that is
//! NOT the consumer, while the consumer is inside `pop_if()` / `peek()`.
//!
//! `Entry::remove` is documented "it's only safe for the consumer that call pop()"; this
//! program deliberately breaks that contract because `EventData::fast_schedule` /
//! `EventData::schedule` (src/io/sys/unix/mod.rs) break it in exactly the same way.
//!
//! WHERE:  copy to  <may checkout>/may_queue/examples/queue_stress.rs
//! RUN:    cd <may checkout> &&
//!         CARGO_TARGET_DIR=/tmp/fix11/target cargo run --offline --release -p may_queue \
//!             --example queue_stress -- [seconds=20] [producers=2] [removers=1] [mode]
//!         mode = "foreign" (default: remove() on a foreign thread -- what may's io path does)
//!              | "consumer" (control: handles are sent to the consumer thread which calls
//!                            remove() itself -- the documented contract, what
//!                            TimerThread::del_timer/run do)
//!              | "droponly" (candidate repair: the foreign thread never calls remove(), it only
//!                            drops the handle -> Entry::drop does the non-atomic `refs -= 1`)
//!              | "nulldrop" (candidate repair, the `Selector::del_fd` idiom: the foreign thread
//!                            calls with_mut_data() and then drops the handle)
//!
//! Every pushed value is a unique index; `SEEN[idx]` counts how often it was handed out
//! (by pop_if or by remove).  At the end every pushed index must have been seen exactly once.
//! A watchdog aborts the process if the consumer makes no progress for 5 s (lost list /
//! endless spin in peek()/pop_if()).
use std::sync::atomic::{AtomicBool, AtomicU8, AtomicUsize, Ordering};
use std::sync::mpsc::channel;
use std::sync::Arc;
use std::thread;
use std::time::{Duration, Instant};

use may_queue::mpsc_list_v1::{Entry, Queue};

const MAX: usize = 1 << 27;

// count the live heap blocks that have the size of a list node, to see leaked / doubly
// released nodes (a lost update of the non-atomic `refs`)
const NODE_SIZE: usize = 40; // Node<usize>: prev, next, Option<usize>, refs
static NODE_ALLOC: AtomicUsize = AtomicUsize::new(0);
static NODE_FREE: AtomicUsize = AtomicUsize::new(0);
struct CountingAlloc;
unsafe impl std::alloc::GlobalAlloc for CountingAlloc {
    unsafe fn alloc(&self, l: std::alloc::Layout) -> *mut u8 {
        if l.size() == NODE_SIZE {
            NODE_ALLOC.fetch_add(1, Ordering::Relaxed);
        }
        std::alloc::System.alloc(l)
    }
    unsafe fn dealloc(&self, p: *mut u8, l: std::alloc::Layout) {
        if l.size() == NODE_SIZE {
            NODE_FREE.fetch_add(1, Ordering::Relaxed);
        }
        std::alloc::System.dealloc(p, l)
    }
}
#[global_allocator]
static GLOBAL: CountingAlloc = CountingAlloc;

fn main() {
    let mut args = std::env::args().skip(1);
    let secs: u64 = args.next().and_then(|s| s.parse().ok()).unwrap_or(20);
    let producers: usize = args.next().and_then(|s| s.parse().ok()).unwrap_or(2);
    let removers: usize = args.next().and_then(|s| s.parse().ok()).unwrap_or(1);
    let mode = args.next().unwrap_or_else(|| "foreign".to_string());
    let foreign = mode != "consumer";
    let droponly = mode == "droponly";
    let nulldrop = mode == "nulldrop";
    println!("queue_stress: {secs}s producers={producers} removers={removers} mode={mode}");
    // a panic in any thread (e.g. an assert in pop_if on the consumer) ends the run at once
    let start0 = Instant::now();
    let default_hook = std::panic::take_hook();
    std::panic::set_hook(Box::new(move |info| {
        default_hook(info);
        eprintln!("PANIC after {:?}", start0.elapsed());
        std::process::exit(101);
    }));

    let seen: Arc<Vec<AtomicU8>> = Arc::new((0..MAX).map(|_| AtomicU8::new(0)).collect());
    let q: Arc<Queue<usize>> = Arc::new(Queue::new());
    let stop = Arc::new(AtomicBool::new(false));
    let next_idx = Arc::new(AtomicUsize::new(0));
    let popped = Arc::new(AtomicUsize::new(0));
    let removed = Arc::new(AtomicUsize::new(0));
    let remove_none = Arc::new(AtomicUsize::new(0));
    let progress = Arc::new(AtomicUsize::new(0));

    // watchdog
    {
        let progress = progress.clone();
        let stop = stop.clone();
        thread::spawn(move || {
            let mut last = progress.load(Ordering::Relaxed);
            let mut last_t = Instant::now();
            loop {
                thread::sleep(Duration::from_millis(200));
                let cur = progress.load(Ordering::Relaxed);
                if cur != last {
                    last = cur;
                    last_t = Instant::now();
                } else if last_t.elapsed() > Duration::from_secs(5) {
                    eprintln!(
                        "WATCHDOG: consumer made no progress for 5s (stop={}) -> hang/livelock in pop_if/peek",
                        stop.load(Ordering::Relaxed)
                    );
                    std::process::exit(3);
                }
            }
        });
    }

    let mut rm_txs = Vec::new();
    let mut rm_threads = Vec::new();
    // handles that must be removed by the consumer itself (control mode)
    let (ctx, crx) = channel::<Entry<usize>>();

    if foreign {
        for _ in 0..removers {
            let (tx, rx) = channel::<Entry<usize>>();
            rm_txs.push(tx);
            let seen = seen.clone();
            let removed = removed.clone();
            let remove_none = remove_none.clone();
            rm_threads.push(thread::spawn(move || {
                let mut n = 0usize;
                while let Ok(h) = rx.recv() {
                    n += 1;
                    if nulldrop {
                        // mirrors `h.with_mut_data(|v| v.data.event_data = null_mut())`
                        unsafe { h.with_mut_data(|v| *v = std::hint::black_box(*v)) };
                    }
                    if n % 4 == 0 || droponly || nulldrop {
                        // like a timer that is never cancelled: only the handle is dropped
                        drop(h);
                        continue;
                    }
                    match h.remove() {
                        Some(v) => {
                            seen[v].fetch_add(1, Ordering::Relaxed);
                            removed.fetch_add(1, Ordering::Relaxed);
                        }
                        None => {
                            remove_none.fetch_add(1, Ordering::Relaxed);
                        }
                    }
                }
            }));
        }
    } else {
        for _ in 0..removers {
            rm_txs.push(ctx.clone());
        }
    }
    drop(ctx);

    let mut prod_threads = Vec::new();
    for p in 0..producers {
        let q = q.clone();
        let stop = stop.clone();
        let next_idx = next_idx.clone();
        let popped = popped.clone();
        let removed = removed.clone();
        let tx = rm_txs[p % rm_txs.len()].clone();
        prod_threads.push(thread::spawn(move || {
            while !stop.load(Ordering::Relaxed) {
                let idx = next_idx.fetch_add(1, Ordering::Relaxed);
                if idx >= MAX {
                    break;
                }
                // keep the list short (like a timer list): at most ~64 live entries
                while idx
                    > popped.load(Ordering::Relaxed) + removed.load(Ordering::Relaxed) + 64
                    && !stop.load(Ordering::Relaxed)
                {
                    std::hint::spin_loop();
                }
                let (h, _) = q.push(idx);
                if tx.send(h).is_err() {
                    break;
                }
            }
        }));
    }
    drop(rm_txs);

    // the single consumer
    let consumer = {
        let q = q.clone();
        let stop = stop.clone();
        let seen = seen.clone();
        let popped = popped.clone();
        let removed = removed.clone();
        let remove_none = remove_none.clone();
        let progress = progress.clone();
        thread::spawn(move || {
            let mut idle_after_stop = 0;
            let mut n = 0usize;
            loop {
                progress.fetch_add(1, Ordering::Relaxed);
                if !foreign {
                    while let Ok(h) = crx.try_recv() {
                        n += 1;
                        if n % 4 == 0 {
                            drop(h);
                            continue;
                        }
                        match h.remove() {
                            Some(v) => {
                                seen[v].fetch_add(1, Ordering::Relaxed);
                                removed.fetch_add(1, Ordering::Relaxed);
                            }
                            None => {
                                remove_none.fetch_add(1, Ordering::Relaxed);
                            }
                        }
                    }
                }
                // same shape as IntervalEntry::pop_timeout
                let mut got = false;
                while let Some(v) = q.pop_if(&|_v: &usize| true) {
                    seen[v].fetch_add(1, Ordering::Relaxed);
                    popped.fetch_add(1, Ordering::Relaxed);
                    got = true;
                    if !foreign {
                        break;
                    }
                }
                let _ = unsafe { q.peek() }.map(|v| *v);
                if !got && stop.load(Ordering::Relaxed) {
                    idle_after_stop += 1;
                    if idle_after_stop > 1000 {
                        break;
                    }
                    thread::yield_now();
                }
            }
        })
    };

    let start = Instant::now();
    while start.elapsed() < Duration::from_secs(secs) {
        thread::sleep(Duration::from_millis(500));
        if next_idx.load(Ordering::Relaxed) >= MAX {
            break;
        }
    }
    stop.store(true, Ordering::Relaxed);
    for t in prod_threads {
        t.join().expect("producer panicked");
    }
    for t in rm_threads {
        t.join().expect("remover panicked");
    }
    consumer.join().expect("consumer panicked");

    let pushed = next_idx.load(Ordering::Relaxed).min(MAX);
    let base_alloc = NODE_ALLOC.load(Ordering::Relaxed);
    let base_free = NODE_FREE.load(Ordering::Relaxed);
    // all handles are gone; dropping the queue must release every remaining node
    match Arc::try_unwrap(q) {
        Ok(q) => drop(q),
        Err(_) => panic!("queue still shared"),
    }
    let leaked = NODE_ALLOC.load(Ordering::Relaxed) as isize
        - NODE_FREE.load(Ordering::Relaxed) as isize;
    println!(
        "node-sized blocks: allocated {} freed {} before queue drop, still live after queue drop: {} (a few unrelated 40-byte blocks are normal)",
        base_alloc, base_free, leaked
    );
    let mut lost = 0usize;
    let mut dup = 0usize;
    for s in seen.iter().take(pushed) {
        match s.load(Ordering::Relaxed) {
            0 => lost += 1,
            1 => {}
            _ => dup += 1,
        }
    }
    println!(
        "pushed~{} popped={} removed={} remove()==None {}  LOST={} DUPLICATED={}",
        pushed,
        popped.load(Ordering::Relaxed),
        removed.load(Ordering::Relaxed),
        remove_none.load(Ordering::Relaxed),
        lost,
        dup
    );
    // the last claimed index of each producer may not have been pushed
    if leaked > 16 {
        println!("RESULT: BROKEN ({leaked} list nodes leaked: lost update on the non-atomic refs)");
        std::process::exit(4);
    }
    if leaked < -1 {
        println!("RESULT: BROKEN (more nodes freed than allocated: double free)");
        std::process::exit(4);
    }
    if lost > producers || dup > 0 {
        println!("RESULT: BROKEN (exactly-once violated)");
        std::process::exit(2);
    }
    println!("RESULT: ok");
}
