//! repro.rs -- io-timeout timer list: `Entry::remove()` / `Entry::drop()` run on a thread that
//! is not the consumer of the list (EventData::fast_schedule in src/io/sys/unix/mod.rs).
//!
//! WHERE:  copy to  <may checkout>/examples/fix11_repro.rs   (no source change needed)
//! RUN:    cd <may checkout> &&
//!         CARGO_TARGET_DIR=/tmp/fix11/target cargo run --offline --release --example fix11_repro -- \
//!             [seconds=120] [workers=4] [busy_sockets=16] [idle_sockets=16] [timeout_us=1000] [sender_threads=4] [mode=same|peer]
//!
//! What it does (only public API, nothing exotic):
//!   * `busy` UDP sockets, each shared (Arc) by
//!       - a reader coroutine looping `recv_from` with `set_read_timeout(T)`, and
//!       - a plain sender thread looping `send_to` on the SAME socket (a UDP server that answers
//!         from other coroutines/threads looks like this).  On Linux every datagram that leaves the
//!         socket raises an EPOLLOUT edge for the fd, so the selector thread keeps setting
//!         `io_flag` for that fd while the reader is between "read() == EAGAIN" and the
//!         `io_flag` re-check in `subscribe` -> `subscribe` takes the `fast_schedule()` path
//!         on whatever worker runs the reader, i.e. `h.remove()` on a foreign thread.
//!   * `idle` UDP sockets with the SAME read timeout whose readers always time out, so the
//!     selector threads are constantly inside `pop_if()/peek()` on the same interval list.
//!   * every timeout is checked: a `TimedOut` must not come earlier than T after the call,
//!     and every idle reader must keep timing out (watchdog: no progress for 3 s = hang,
//!     e.g. dead selector thread / lost timer).
//!
//! Observed on the unmodified tree (HEAD 906a9d4, 16 vCPU Linux, 2026-09-25): 10/10 release runs
//! (mode same, 1 ms) die after 0.26 .. 10 s, 3/3 with 5 ms, 3/3 with 20 ms (0.2 .. 29 s), 3/3 in
//! mode peer (<= 12 s), 6/6 debug runs (0.24 .. 1.6 s): `assertion failed: (*next).value.is_some()`
//! (mpsc_list_v1.rs:238, in pop_if called from Selector::select -> schedule_timer), `Option::unwrap()
//! on a None` (mpsc_list_v1.rs:256) followed by glibc `malloc(): unaligned fastbin chunk detected`
//! abort, `Node value is None` (mpsc_list_v1.rs:43), `EpollTimeout ... TooPositive` (epoll.rs:83,
//! garbage expiry read from a dead node), or the watchdog (a 1 ms read that never returns).
//! Control: `workers=1` (no foreign thread) runs 60 s clean.  With fix.diff: 180 s x 2 clean.
//!
//! Exit code: 0 = nothing observed; anything else (panic 101, SIGSEGV 139, SIGABRT 134,
//! watchdog 3, early timeout 4) = failing execution.
use std::io::ErrorKind;
use std::net::SocketAddr;
use std::sync::atomic::{AtomicBool, AtomicU64, AtomicUsize, Ordering};
use std::sync::Arc;
use std::time::{Duration, Instant};

use may::net::UdpSocket;

fn arg<T: std::str::FromStr>(i: usize, d: T) -> T {
    std::env::args().nth(i).and_then(|s| s.parse().ok()).unwrap_or(d)
}

fn main() {
    let secs: u64 = arg(1, 120);
    let workers: usize = arg(2, 4);
    let busy: usize = arg(3, 16);
    let idle: usize = arg(4, 16);
    let timeout_us: u64 = arg(5, 1000);
    let nsenders: usize = arg(6, 4);
    // "same": the sender threads send on the readers' own sockets (EPOLLOUT edges wake the reader)
    // "peer": the sender threads send 1-byte datagrams TO the readers from their own std sockets
    //         (plain "a peer writes while the reader is registering"; EPOLLIN edges)
    let mode: String = arg(7, "same".to_string());
    let peer_mode = mode == "peer";
    let timeout = Duration::from_micros(timeout_us);
    println!(
        "fix11_repro: {secs}s workers={workers} busy={busy} idle={idle} read_timeout={timeout:?} senders={nsenders} mode={mode}"
    );
    may::config().set_workers(workers);

    let start = Instant::now();
    let default_hook = std::panic::take_hook();
    std::panic::set_hook(Box::new(move |info| {
        default_hook(info);
        eprintln!("PANIC after {:?}", start.elapsed());
        std::process::exit(101);
    }));

    let stop = Arc::new(AtomicBool::new(false));
    let early = Arc::new(AtomicUsize::new(0));
    let recv_ok = Arc::new(AtomicU64::new(0));
    let recv_to = Arc::new(AtomicU64::new(0));
    let sent = Arc::new(AtomicU64::new(0));

    // a sink that is never read: datagrams are dropped by the kernel once its buffer is full
    let sink = std::net::UdpSocket::bind("127.0.0.1:0").unwrap();
    let sink_addr: SocketAddr = sink.local_addr().unwrap();

    let mut socks = Vec::new();
    for _ in 0..busy {
        let s = Arc::new(UdpSocket::bind("127.0.0.1:0").unwrap());
        s.set_read_timeout(Some(timeout)).unwrap();
        socks.push(s);
    }
    let addrs: Vec<SocketAddr> = socks.iter().map(|s| s.local_addr().unwrap()).collect();

    // progress counters of the idle readers, for the watchdog
    let progress: Arc<Vec<AtomicU64>> = Arc::new((0..idle).map(|_| AtomicU64::new(0)).collect());

    let mut joins = Vec::new();
    for (k, s) in socks.iter().enumerate() {
        // reader
        {
            let s = s.clone();
            let stop = stop.clone();
            let early = early.clone();
            let recv_ok = recv_ok.clone();
            let recv_to = recv_to.clone();
            joins.push(may::go!(move || {
                let mut buf = [0u8; 16];
                while !stop.load(Ordering::Relaxed) {
                    let t0 = Instant::now();
                    match s.recv_from(&mut buf) {
                        Ok(_) => {
                            recv_ok.fetch_add(1, Ordering::Relaxed);
                        }
                        Err(e) if e.kind() == ErrorKind::TimedOut => {
                            recv_to.fetch_add(1, Ordering::Relaxed);
                            let el = t0.elapsed();
                            if el + Duration::from_micros(50) < timeout {
                                early.fetch_add(1, Ordering::Relaxed);
                                eprintln!("EARLY TIMEOUT busy reader {k}: {el:?} < {timeout:?}");
                            }
                        }
                        Err(e) => panic!("busy reader {k}: unexpected error {e:?}"),
                    }
                }
            }));
        }
    }

    // senders: plain threads that send on the SAME sockets the reader coroutines block on
    // (a coroutine that never blocks would starve its worker's selector, so threads are used)
    let mut sender_threads = Vec::new();
    for t in 0..nsenders {
        let mine: Vec<(usize, Arc<UdpSocket>)> = socks
            .iter()
            .cloned()
            .enumerate()
            .filter(|(k, _)| k % nsenders == t)
            .collect();
        let stop = stop.clone();
        let sent = sent.clone();
        let addrs = addrs.clone();
        sender_threads.push(std::thread::spawn(move || {
            let mut n = 0usize;
            if peer_mode {
                let me = std::net::UdpSocket::bind("127.0.0.1:0").unwrap();
                while !stop.load(Ordering::Relaxed) && !mine.is_empty() {
                    for (k, _) in &mine {
                        n += 1;
                        me.send_to(b"x", addrs[*k]).unwrap();
                        // a pause now and then so that some reads really time out
                        if n % 4096 == 0 {
                            std::thread::sleep(Duration::from_millis(3));
                        }
                    }
                    sent.fetch_add(mine.len() as u64, Ordering::Relaxed);
                }
                return;
            }
            while !stop.load(Ordering::Relaxed) && !mine.is_empty() {
                for (k, s) in &mine {
                    n += 1;
                    // mostly to the sink, sometimes real data for a neighbour reader
                    let to = if n % 64 == 0 {
                        addrs[(k + 1) % addrs.len()]
                    } else {
                        sink_addr
                    };
                    s.send_to(b"x", to).unwrap();
                }
                sent.fetch_add(mine.len() as u64, Ordering::Relaxed);
            }
        }));
    }

    for i in 0..idle {
        let stop = stop.clone();
        let early = early.clone();
        let progress = progress.clone();
        joins.push(may::go!(move || {
            let s = UdpSocket::bind("127.0.0.1:0").unwrap();
            s.set_read_timeout(Some(timeout)).unwrap();
            let mut buf = [0u8; 16];
            while !stop.load(Ordering::Relaxed) {
                let t0 = Instant::now();
                match s.recv_from(&mut buf) {
                    Ok(_) => panic!("idle reader {i}: got data nobody sent"),
                    Err(e) if e.kind() == ErrorKind::TimedOut => {
                        let el = t0.elapsed();
                        if el + Duration::from_micros(50) < timeout {
                            early.fetch_add(1, Ordering::Relaxed);
                            eprintln!("EARLY TIMEOUT idle reader {i}: {el:?} < {timeout:?}");
                        }
                        progress[i].fetch_add(1, Ordering::Relaxed);
                    }
                    Err(e) => panic!("idle reader {i}: unexpected error {e:?}"),
                }
            }
        }));
    }

    // watchdog + reporter on a plain thread
    let mut last: Vec<u64> = vec![0; idle];
    let mut last_change: Vec<Instant> = vec![Instant::now(); idle];
    let mut last_report = Instant::now();
    while start.elapsed() < Duration::from_secs(secs) {
        std::thread::sleep(Duration::from_millis(250));
        for i in 0..idle {
            let cur = progress[i].load(Ordering::Relaxed);
            if cur != last[i] {
                last[i] = cur;
                last_change[i] = Instant::now();
            } else if last_change[i].elapsed() > Duration::from_secs(3) {
                eprintln!(
                    "WATCHDOG after {:?}: idle reader {i} ({timeout:?} read timeout) made no progress for 3s \
                     -> its timer was lost or its selector thread is dead",
                    start.elapsed()
                );
                std::process::exit(3);
            }
        }
        if last_report.elapsed() > Duration::from_secs(10) {
            last_report = Instant::now();
            println!(
                "[{:>4}s] sent={} recv_ok={} busy_timeouts={} idle_timeouts={} early={}",
                start.elapsed().as_secs(),
                sent.load(Ordering::Relaxed),
                recv_ok.load(Ordering::Relaxed),
                recv_to.load(Ordering::Relaxed),
                last.iter().sum::<u64>(),
                early.load(Ordering::Relaxed)
            );
        }
    }
    stop.store(true, Ordering::Relaxed);
    // wake the busy readers that may be parked without a pending event
    for a in &addrs {
        sink.send_to(b"q", a).ok();
    }
    let deadline = Instant::now() + Duration::from_secs(5);
    for j in joins {
        while !j.is_done() && Instant::now() < deadline {
            std::thread::sleep(Duration::from_millis(10));
        }
    }
    let e = early.load(Ordering::Relaxed);
    println!(
        "done: sent={} recv_ok={} busy_timeouts={} idle_timeouts={} early={}",
        sent.load(Ordering::Relaxed),
        recv_ok.load(Ordering::Relaxed),
        recv_to.load(Ordering::Relaxed),
        last.iter().sum::<u64>(),
        e
    );
    if e > 0 {
        println!("RESULT: BROKEN ({e} early timeouts)");
        std::process::exit(4);
    }
    println!("RESULT: nothing observed");
}
