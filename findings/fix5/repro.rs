// Reproduction for the mpmc "lost disconnect wake-up" defect (src/sync/mpmc.rs).
//
// WHERE TO PUT:  <may checkout>/tests/repro_f5.rs
// HOW TO RUN:    cargo test --offline --test repro_f5 -- --test-threads=1 --nocapture
//
// The race window is between `try_recv()` returning `Empty` and `sem.wait()` inside
// `InnerQueue::recv`.  It is only a few instructions wide, so to make the test
// deterministic apply the TEMPORARY scratch edit `inject.diff` first (a 200 ms sleep
// right after the `try_recv` match in `InnerQueue::recv`):
//
//     git apply inject.diff        # scratch only, never part of the fix
//
// Expected result
//   * unfixed tree + inject.diff : the four scenario tests, many_receivers_chain_wakeup and
//                                  recv_timeout_sees_disconnect FAIL (a receiver blocks forever)
//   * fixed   tree + inject.diff : all tests pass
//   * without inject.diff        : tests pass on both trees (window practically never hit)
//
// Timeline of every test (with the injection in place):
//   t =   0 ms  receivers A and B call `rx.recv()`; both get `Empty` from `try_recv`
//               and sit in the (widened) window before `sem.wait()`
//   t =  50 ms  main thread drops the only Sender            (scenario 1)
//               or sends one value and then drops the Sender (scenario 2)
//   t = 200 ms  A and B reach `sem.wait()`
//   t <=  2  s  watchdog: both receivers must have returned

#[macro_use]
extern crate may;

use may::sync::mpmc;
use std::sync::mpsc as std_mpsc;
use std::thread;
use std::time::{Duration, Instant};

const WATCHDOG: Duration = Duration::from_secs(2);

#[derive(Clone, Copy)]
enum Kind {
    Thread,
    Coroutine,
}

/// Start two receivers on clones of one mpmc Receiver, run `sender_action` at t = 50 ms
/// and collect what each receiver returned (None = did not return within the watchdog).
fn run(kind: Kind, sender_action: fn(mpmc::Sender<u32>)) -> Vec<Option<Result<u32, ()>>> {
    let (tx, rx) = mpmc::channel::<u32>();
    let (done_tx, done_rx) = std_mpsc::channel::<(usize, Result<u32, ()>)>();

    for id in 0..2usize {
        let rx = rx.clone();
        let done_tx = done_tx.clone();
        let body = move || {
            let r = rx.recv().map_err(|_| ());
            done_tx.send((id, r)).unwrap();
        };
        match kind {
            Kind::Thread => {
                thread::spawn(body);
            }
            Kind::Coroutine => {
                go!(body);
            }
        }
    }
    drop(done_tx);
    // keep `rx` alive on purpose: a hung receiver must not be "rescued" by anything else
    thread::sleep(Duration::from_millis(50));
    sender_action(tx);

    let deadline = Instant::now() + WATCHDOG;
    let mut results = vec![None, None];
    for _ in 0..2 {
        let left = deadline.saturating_duration_since(Instant::now());
        match done_rx.recv_timeout(left) {
            Ok((id, r)) => results[id] = Some(r),
            Err(_) => break,
        }
    }
    // Hung receivers (if any) are leaked; the test process exits anyway.
    std::mem::forget(rx);
    results
}

fn check_scenario1(kind: Kind) {
    let res = run(kind, |tx| drop(tx));
    println!("scenario 1 results: {res:?}");
    for (id, r) in res.iter().enumerate() {
        match r {
            None => panic!(
                "scenario 1: receiver {id} is blocked forever although every Sender is dropped \
                 (results: {res:?})"
            ),
            Some(r) => assert_eq!(*r, Err(()), "receiver {id} must see Disconnected"),
        }
    }
}

fn check_scenario2(kind: Kind) {
    let res = run(kind, |tx| {
        tx.send(42).unwrap();
        drop(tx);
    });
    println!("scenario 2 results: {res:?}");
    for (id, r) in res.iter().enumerate() {
        if r.is_none() {
            panic!(
                "scenario 2: receiver {id} is blocked forever although every Sender is dropped \
                 and the queue is empty (results: {res:?})"
            );
        }
    }
    let got: Vec<_> = res.iter().map(|r| r.unwrap()).collect();
    let n_val = got.iter().filter(|r| **r == Ok(42)).count();
    let n_disc = got.iter().filter(|r| **r == Err(())).count();
    assert_eq!((n_val, n_disc), (1, 1), "one receiver gets 42, the other Disconnected");
}

#[test]
fn scenario1_drop_only_threads() {
    check_scenario1(Kind::Thread);
}

#[test]
fn scenario2_send_then_drop_threads() {
    check_scenario2(Kind::Thread);
}

#[test]
fn scenario1_drop_only_coroutines() {
    check_scenario1(Kind::Coroutine);
}

#[test]
fn scenario2_send_then_drop_coroutines() {
    check_scenario2(Kind::Coroutine);
}

// Chain wake-up: 8 receivers (4 threads + 4 coroutines), 3 values, then disconnect.
// Every receiver must return within the watchdog; exactly 3 get a value.
// With inject.diff the receivers are in the window, without it they are already parked
// in `sem.wait()` when the Sender goes away.
#[test]
fn many_receivers_chain_wakeup() {
    const N: usize = 8;
    let (tx, rx) = mpmc::channel::<u32>();
    let (done_tx, done_rx) = std_mpsc::channel::<Result<u32, ()>>();
    for id in 0..N {
        let rx = rx.clone();
        let done_tx = done_tx.clone();
        let body = move || {
            done_tx.send(rx.recv().map_err(|_| ())).unwrap();
        };
        if id % 2 == 0 {
            thread::spawn(body);
        } else {
            go!(body);
        }
    }
    thread::sleep(Duration::from_millis(50));
    for i in 0..3 {
        tx.send(i).unwrap();
    }
    drop(tx);

    let deadline = Instant::now() + WATCHDOG;
    let mut got = Vec::new();
    while got.len() < N {
        let left = deadline.saturating_duration_since(Instant::now());
        match done_rx.recv_timeout(left) {
            Ok(r) => got.push(r),
            Err(_) => break,
        }
    }
    std::mem::forget(rx);
    println!("many receivers: {got:?}");
    assert_eq!(got.len(), N, "{} receiver(s) blocked forever", N - got.len());
    assert_eq!(got.iter().filter(|r| r.is_ok()).count(), 3);
}

// `recv_timeout` path: both receivers must report Disconnected promptly, nobody may sit
// out its whole (long) timeout once every Sender is gone.
#[test]
fn recv_timeout_sees_disconnect() {
    use std::sync::mpsc::RecvTimeoutError;
    let (tx, rx) = mpmc::channel::<u32>();
    let (done_tx, done_rx) = std_mpsc::channel();
    for _ in 0..2 {
        let rx = rx.clone();
        let done_tx = done_tx.clone();
        thread::spawn(move || {
            done_tx.send(rx.recv_timeout(Duration::from_secs(30))).unwrap();
        });
    }
    thread::sleep(Duration::from_millis(50));
    drop(tx);
    let deadline = Instant::now() + WATCHDOG;
    for _ in 0..2 {
        let left = deadline.saturating_duration_since(Instant::now());
        match done_rx.recv_timeout(left) {
            Ok(r) => assert_eq!(r, Err(RecvTimeoutError::Disconnected)),
            Err(_) => panic!("a recv_timeout(30s) receiver did not notice the disconnect"),
        }
    }
    std::mem::forget(rx);
}

// Not timing dependent: after disconnect every later call (any receiver clone, any API)
// drains first and then keeps reporting Disconnected.
#[test]
fn later_callers_drain_then_disconnected() {
    use std::sync::mpsc::{RecvTimeoutError, TryRecvError};
    let (tx, rx1) = mpmc::channel::<u32>();
    let rx2 = rx1.clone();
    tx.send(1).unwrap();
    tx.send(2).unwrap();
    drop(tx);
    assert_eq!(rx1.recv(), Ok(1));
    assert_eq!(rx2.try_recv(), Ok(2));
    for _ in 0..3 {
        assert!(rx1.recv().is_err());
        assert_eq!(rx2.try_recv(), Err(TryRecvError::Disconnected));
        assert_eq!(
            rx2.recv_timeout(Duration::from_millis(10)),
            Err(RecvTimeoutError::Disconnected)
        );
        assert_eq!(rx1.iter().count(), 0);
    }
}
