// ADJACENT finding (not the assigned defect): try_recv may report Disconnected while a
// value is still queued. Needs scratch injection #2 (sleep after a failed try_wait in
// InnerQueue::try_recv). Run: cargo test --offline --test repro_f5b -- --nocapture
use may::sync::mpmc;
use std::thread;
use std::time::Duration;

#[test]
fn single_receiver_must_drain_before_disconnected() {
    let (tx, rx) = mpmc::channel::<u32>();
    let h = thread::spawn(move || {
        let first = rx.recv();
        let second = rx.try_recv();
        (first, second)
    });
    thread::sleep(Duration::from_millis(50));
    tx.send(42).unwrap();
    drop(tx);
    let (first, second) = h.join().unwrap();
    println!("first = {first:?}, second = {second:?}");
    assert_eq!(first, Ok(42), "Disconnected reported before the queued value was drained");
}
