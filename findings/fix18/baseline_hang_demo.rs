// Baseline (unseeded) hang, see notes.txt. Put in <worktree>/tests/baseline_hang_demo.rs after `git apply bonus/inject.diff`, run
//   CARGO_TARGET_DIR=$PWD/target cargo test --offline --test baseline_hang_demo -- --nocapture
#[macro_use]
extern crate may;
use may::coroutine;
use std::sync::atomic::{AtomicUsize, Ordering};
use std::sync::mpsc::channel;
use std::sync::Arc;
use std::thread;
use std::time::Duration;

#[test]
fn detached_coroutine_ends_after_self_wake() {
    may::config().set_workers(1);
    let stage = Arc::new(AtomicUsize::new(0));
    let s2 = stage.clone();
    let h = go!(move || {
        s2.store(1, Ordering::SeqCst);
        coroutine::park();
        s2.store(2, Ordering::SeqCst);
    });
    let co = h.coroutine().clone();
    drop(h);
    while stage.load(Ordering::SeqCst) == 0 {
        thread::yield_now();
    }
    thread::sleep(Duration::from_millis(10));
    co.unpark();
    drop(co);
    thread::sleep(Duration::from_millis(200));
    assert_eq!(stage.load(Ordering::SeqCst), 2);
    let (tx, rx) = channel();
    go!(move || tx.send(1).unwrap());
    assert_eq!(rx.recv_timeout(Duration::from_secs(3)), Ok(1), "the only worker is stuck");
}
