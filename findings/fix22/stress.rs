// stress: does a permit get lost when post() races with the timeout of wait_timeout()?
use may::sync::Semphore;
use std::sync::atomic::{AtomicBool, AtomicU64, Ordering};
use std::sync::{Arc, Barrier};
use std::time::{Duration, Instant};

fn main() {
    let rounds: u64 = std::env::args().nth(1).and_then(|s| s.parse().ok()).unwrap_or(2_000_000);
    let lost = Arc::new(AtomicU64::new(0));
    let mut seed = 0x9E3779B97F4A7C15u64;
    let t0 = Instant::now();
    let mut both = 0u64;
    for i in 0..rounds {
        let sem = Arc::new(Semphore::new(0));
        let bar = Arc::new(Barrier::new(2));
        let got = Arc::new(AtomicBool::new(false));
        seed ^= seed << 13; seed ^= seed >> 7; seed ^= seed << 17;
        let jitter = (seed % 4000) as u64; // ns
        let (s2, b2, g2) = (sem.clone(), bar.clone(), got.clone());
        let w = std::thread::spawn(move || {
            b2.wait();
            let r = s2.wait_timeout(Duration::from_micros(60));
            g2.store(r, Ordering::SeqCst);
        });
        bar.wait();
        let t = Instant::now();
        let target = Duration::from_nanos(60_000 + 58_000 + jitter); // thread park latency ~ tens of us; scan around the wake-up
        while t.elapsed() < target { std::hint::spin_loop(); }
        sem.post();
        w.join().unwrap();
        let g = got.load(Ordering::SeqCst);
        let v = sem.get_value();
        let expect = if g { 0 } else { 1 };
        if v != expect {
            lost.fetch_add(1, Ordering::SeqCst);
            println!("round {i}: wait returned {g}, value {v}, expected {expect}");
        }
        if g { both += 1; }
    }
    println!("rounds {rounds}, waits that got the permit {both}, inconsistencies {} in {:?}", lost.load(Ordering::SeqCst), t0.elapsed());
    if lost.load(Ordering::SeqCst) > 0 { std::process::exit(1); }
}
