#[macro_use]
extern crate may;
use std::sync::atomic::{AtomicBool, Ordering};
use std::sync::mpsc::channel;
use std::sync::Arc;
use std::time::Duration;

// a coroutine that waits for a coroutine it spawned by polling a flag and yielding
#[test]
fn spawned_coroutine_runs_while_parent_yields() {
    may::config().set_workers(1);
    let (tx, rx) = channel();
    go!(move || {
        let flag = Arc::new(AtomicBool::new(false));
        let f2 = flag.clone();
        let h = go!(move || f2.store(true, Ordering::Release));
        while !flag.load(Ordering::Acquire) {
            may::coroutine::yield_now();
        }
        h.join().unwrap();
        tx.send(()).unwrap();
    });
    assert!(rx.recv_timeout(Duration::from_secs(5)).is_ok(), "the child was never run while its parent kept yielding");
}
