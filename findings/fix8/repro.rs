// F8 repro: a timeout timer is armed BEFORE the suspended coroutine is published in the
// slot through which the timer handler resumes it; the handler consumes the timer even
// when the slot is still empty, so the timeout is lost for good.
//
// WHERE : copy to <may checkout>/tests/repro_f8.rs and apply the fault injection:
//           unfixed tree : git apply inject.diff
//           fixed tree   : git apply fix.diff && patch -p1 < inject-after-fix.diff
//         The injection is inert unless one of the MAY_F8_* variables below is set.
// RUN   : (always with `--test-threads=1`, the tests share the scheduler of the process)
//   control, injection inert, all 5 tests pass:
//     cargo test --offline --test repro_f8 -- --test-threads=1 --nocapture
//   (P) `Park::subscribe` stalled 100 ms between `add_timer` and `wait_co.store`:
//     MAY_F8_PARK_STALL_MS=100 cargo test --offline --test repro_f8 -- --test-threads=1 --nocapture
//       unfixed: park_timeout_*, semphore_*, mpsc_* FAIL with "LOST TIMEOUT ... never returned"
//       fixed  : pass, the waits return `Timeout` after ~100 ms (as soon as the stall ends)
//   (I) `SocketRead::subscribe` stalled 100 ms between `add_io_timer` and `io_data.co.store`:
//     MAY_F8_IO_STALL_MS=100 cargo test --offline --test repro_f8 -- --test-threads=1 --nocapture
//       unfixed: tcp_read_timeout_*_migrated FAILS (8 of 8 reads hang until the peer writes);
//                *_same_worker fails only now and then (needs work stealing to move the
//                coroutine away from the event loop that owns the fd)
//       fixed  : pass, `TimedOut` after ~100 ms
//   (I') `add_io_timer` stalled 100 ms between `timer_list.add_timer` and
//        `io.timer.replace(h)` (that is where the `wakeup` syscall sits, the spot that is hit
//        naturally, see stress.rs):
//     MAY_F8_IO_STALL2_MS=100 timeout 60 cargo test --offline --test repro_f8 \
//         tcp_read_timeout_fails_with_timed_out_migrated -- --test-threads=1 --nocapture
//       unfixed: the reads hang AND, when the peer finally writes, the event loop threads
//                panic with "Node value is None" (may_queue/src/mpsc_list_v1.rs:43) and die;
//                the 8 coroutines are stuck for ever (run only this one test, every later
//                test in the process would hang)
//       fixed  : pass, `TimedOut` after ~100 ms
// The stall only models the thread being descheduled (preemption, page fault, the wakeup
// syscall, ...) for longer than the timeout; it changes no logic. Every test has a std-thread
// watchdog, so the test binary terminates; a hung coroutine is afterwards released by an
// explicit unpark / post / send / write to prove that it was parked without a timer (and not
// dead for another reason).

#[macro_use]
extern crate may;

use std::io::{Read, Write};
use std::sync::mpsc as std_mpsc;
use std::sync::Arc;
use std::time::{Duration, Instant};

use may::coroutine;
use may::sync::{mpsc, Semphore};

const TIMEOUT: Duration = Duration::from_millis(20);
const WATCHDOG: Duration = Duration::from_secs(1);

fn setup() {
    may::config().set_workers(2);
}

#[test]
fn park_timeout_returns_after_timeout() {
    setup();
    let (tx, rx) = std_mpsc::channel();
    let h = go!(move || {
        let t = Instant::now();
        coroutine::park_timeout(TIMEOUT);
        tx.send(t.elapsed()).unwrap();
    });

    match rx.recv_timeout(WATCHDOG) {
        Ok(dt) => {
            println!("park_timeout({TIMEOUT:?}) returned after {dt:?}");
            h.join().unwrap();
        }
        Err(_) => {
            // prove the coroutine is just parked with no timer: an explicit unpark frees it
            h.coroutine().unpark();
            let dt = rx.recv_timeout(WATCHDOG).expect("not even unpark resumes it");
            h.join().unwrap();
            panic!(
                "LOST TIMEOUT: park_timeout({TIMEOUT:?}) never returned within {WATCHDOG:?}; \
                 it only returned after an explicit unpark, {dt:?} after the call"
            );
        }
    }
}

#[test]
fn semphore_wait_timeout_returns_after_timeout() {
    setup();
    let sem = Arc::new(Semphore::new(0));
    let sem2 = sem.clone();
    let (tx, rx) = std_mpsc::channel();
    let h = go!(move || {
        let t = Instant::now();
        let got = sem2.wait_timeout(TIMEOUT);
        tx.send((got, t.elapsed())).unwrap();
    });

    match rx.recv_timeout(WATCHDOG) {
        Ok((got, dt)) => {
            println!("Semphore::wait_timeout({TIMEOUT:?}) = {got} after {dt:?}");
            assert!(!got, "nobody posted");
            h.join().unwrap();
        }
        Err(_) => {
            sem.post();
            let (got, dt) = rx.recv_timeout(WATCHDOG).expect("not even post resumes it");
            h.join().unwrap();
            panic!(
                "LOST TIMEOUT: Semphore::wait_timeout({TIMEOUT:?}) never returned within \
                 {WATCHDOG:?}; returned {got} only after a post(), {dt:?} after the call"
            );
        }
    }
}

#[test]
fn mpsc_recv_timeout_returns_after_timeout() {
    setup();
    let (mtx, mrx) = mpsc::channel::<u32>();
    let (tx, rx) = std_mpsc::channel();
    let h = go!(move || {
        let t = Instant::now();
        let r = mrx.recv_timeout(TIMEOUT);
        tx.send((format!("{r:?}"), t.elapsed())).unwrap();
    });

    match rx.recv_timeout(WATCHDOG) {
        Ok((r, dt)) => {
            println!("mpsc recv_timeout({TIMEOUT:?}) = {r} after {dt:?}");
            assert_eq!(r, "Err(Timeout)");
            h.join().unwrap();
        }
        Err(_) => {
            mtx.send(7).unwrap();
            let (r, dt) = rx.recv_timeout(WATCHDOG).expect("not even send resumes it");
            h.join().unwrap();
            panic!(
                "LOST TIMEOUT: mpsc recv_timeout({TIMEOUT:?}) never returned within \
                 {WATCHDOG:?}; returned {r} only after a send(), {dt:?} after the call"
            );
        }
    }
}

// The io timer list of a socket is owned by event-loop thread `fd % workers`, while
// `subscribe` runs on whichever worker ran the coroutine. When both are the same thread the
// stalled `subscribe` also stalls the timer scan, so the window is only open when the
// coroutine runs on a *different* worker than `fd % workers`. Use several connections so
// that both cases occur.
//  - `..._same_worker`: after `connect` the coroutine was scheduled by the event loop that
//    owns the fd, so unless it gets stolen the window is closed (usually passes even with
//    the stall; fails now and then when work stealing moved the coroutine).
//  - `..._migrated`: the coroutine first does `coroutine::sleep(1ms)`; the timer thread
//    resumes it inline (`timer_event_handler` -> `run_coroutine`), so the `read` subscribes on
//    the timer thread, never on the owning event loop: the window is always open.
#[test]
fn tcp_read_timeout_fails_with_timed_out_same_worker() {
    tcp_read_timeout(false);
}

#[test]
fn tcp_read_timeout_fails_with_timed_out_migrated() {
    tcp_read_timeout(true);
}

fn tcp_read_timeout(migrate: bool) {
    setup();
    const N: usize = 8;
    // plain std listener; the peers accept and then never write (until the watchdog fires)
    let listener = std::net::TcpListener::bind("127.0.0.1:0").unwrap();
    let addr = listener.local_addr().unwrap();

    let (tx, rx) = std_mpsc::channel();
    let mut handles = Vec::new();
    for i in 0..N {
        let tx = tx.clone();
        handles.push(go!(move || {
            let mut s = may::net::TcpStream::connect(addr).unwrap();
            s.set_read_timeout(Some(TIMEOUT)).unwrap();
            let mut buf = [0u8; 8];
            if migrate {
                coroutine::sleep(Duration::from_millis(1));
            }
            let t = Instant::now();
            let r = s.read(&mut buf);
            tx.send((i, r.map_err(|e| e.kind()), t.elapsed())).unwrap();
        }));
    }
    drop(tx);

    let mut peers = Vec::new();
    for _ in 0..N {
        peers.push(listener.accept().unwrap().0);
    }

    let mut done = [false; N];
    let deadline = Instant::now() + WATCHDOG;
    while let Ok((i, r, dt)) = rx.recv_timeout(deadline.saturating_duration_since(Instant::now())) {
        println!("conn {i}: read with read_timeout {TIMEOUT:?} = {r:?} after {dt:?}");
        assert_eq!(r, Err(std::io::ErrorKind::TimedOut));
        done[i] = true;
    }
    let hung = done.iter().filter(|d| !**d).count();
    if hung == 0 {
        for h in handles {
            h.join().unwrap();
        }
        return;
    }

    // release the hung readers: data is the only thing that still wakes them
    for p in peers.iter_mut() {
        p.write_all(b"x").unwrap();
    }
    let mut released = 0;
    while let Ok((i, r, dt)) = rx.recv_timeout(WATCHDOG) {
        println!("conn {i}: HUNG; returned {r:?} only after the peer wrote, {dt:?} after the call");
        released += 1;
    }
    // with MAY_F8_IO_STALL2_MS the arriving data finds the handle of an already popped timer
    // in `io_data.timer`: the event loop thread panics ("Node value is None") and dies, the
    // readers are never resumed. Do not join in that case, the test would hang.
    let dead = handles.iter().filter(|h| !h.is_done()).count();
    panic!(
        "LOST TIMEOUT: {hung} of {N} reads with read_timeout {TIMEOUT:?} never failed within \
         {WATCHDOG:?}; {released} of them returned once the peer wrote, {dead} coroutines are \
         still stuck (event loop thread dead?)"
    );
}
