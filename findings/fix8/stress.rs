// F8 natural stress (NO fault injection needed): tries to make the window between
// `add_timer` and `wait_co.store` in `Park::subscribe` real by oversubscribing the CPUs.
//
// WHERE : copy to <may checkout>/tests/stress_f8.rs (works on the pristine tree)
// RUN   : cargo test --offline --test stress_f8 -- --nocapture --ignored
//         knobs (env): F8_SECS (default 20), F8_COS (256), F8_SPINNERS (32), F8_WORKERS (16),
//                      F8_TIMEOUT_US (1000), F8_IO_COS (128), F8_IO_WRITER (0)
//         tests: park_timeout_under_oversubscription, tcp_read_timeout_under_oversubscription
//         (run one at a time: `... --test stress_f8 park_ -- ...` / `... tcp_ -- ...`; on the
//         unfixed tree the tcp one kills the event loop threads and then hangs: use `timeout 90`)
// A park is counted as
//   slow : returned, but took > 50 x timeout
//   LOST : did not return within 2 s (watchdog); it is then released with an explicit unpark,
//          and if that makes it return the timeout was lost (not merely late)

#[macro_use]
extern crate may;

use std::sync::atomic::{AtomicBool, AtomicU64, AtomicUsize, Ordering};
use std::sync::Arc;
use std::time::{Duration, Instant};

fn env(name: &str, default: u64) -> u64 {
    std::env::var(name)
        .ok()
        .and_then(|v| v.parse().ok())
        .unwrap_or(default)
}

#[test]
#[ignore]
fn park_timeout_under_oversubscription() {
    let secs = env("F8_SECS", 20);
    let n_co = env("F8_COS", 256) as usize;
    let spinners = env("F8_SPINNERS", 32) as usize;
    let workers = env("F8_WORKERS", 16) as usize;
    let timeout = Duration::from_micros(env("F8_TIMEOUT_US", 1000));
    let slow_limit = timeout * 50;
    let lost_limit = Duration::from_secs(2);

    may::config().set_workers(workers);
    println!(
        "cpus={} workers={workers} spinners={spinners} coroutines={n_co} timeout={timeout:?} secs={secs}",
        std::thread::available_parallelism().map(|n| n.get()).unwrap_or(0)
    );

    let stop = Arc::new(AtomicBool::new(false));
    // busy OS threads that steal cpu time from the workers
    let spin: Vec<_> = (0..spinners)
        .map(|_| {
            let stop = stop.clone();
            std::thread::spawn(move || {
                let mut x = 0u64;
                while !stop.load(Ordering::Relaxed) {
                    x = x.wrapping_mul(6364136223846793005).wrapping_add(1);
                    std::hint::black_box(x);
                }
            })
        })
        .collect();

    let base = Instant::now();
    // per coroutine: micros since `base` when it entered the current park, 0 = not parked
    let since: Arc<Vec<AtomicU64>> = Arc::new((0..n_co).map(|_| AtomicU64::new(0)).collect());
    let parks = Arc::new(AtomicUsize::new(0));
    let slow = Arc::new(AtomicUsize::new(0));
    let max_us = Arc::new(AtomicU64::new(0));

    let handles: Vec<_> = (0..n_co)
        .map(|i| {
            let (stop, since, parks, slow, max_us) = (
                stop.clone(),
                since.clone(),
                parks.clone(),
                slow.clone(),
                max_us.clone(),
            );
            go!(move || {
                while !stop.load(Ordering::Relaxed) {
                    // a timed out coroutine is resumed inline ON THE TIMER THREAD; without this
                    // yield its next `subscribe` would run on the timer thread itself, where
                    // the window cannot open (arming and firing are then serial)
                    may::coroutine::yield_now();
                    let t = Instant::now();
                    since[i].store(base.elapsed().as_micros() as u64 | 1, Ordering::Release);
                    may::coroutine::park_timeout(timeout);
                    since[i].store(0, Ordering::Release);
                    let dt = t.elapsed();
                    parks.fetch_add(1, Ordering::Relaxed);
                    if dt > slow_limit {
                        slow.fetch_add(1, Ordering::Relaxed);
                    }
                    max_us.fetch_max(dt.as_micros() as u64, Ordering::Relaxed);
                }
            })
        })
        .collect();

    // watchdog
    let mut lost = 0usize;
    let mut late = 0usize;
    let end = Instant::now() + Duration::from_secs(secs);
    while Instant::now() < end {
        std::thread::sleep(Duration::from_millis(250));
        let now = base.elapsed().as_micros() as u64;
        for (i, s) in since.iter().enumerate() {
            let t0 = s.load(Ordering::Acquire);
            if t0 != 0 && now.saturating_sub(t0) > lost_limit.as_micros() as u64 {
                // stuck for > 2 s: release it by hand and see whether it was only late
                handles[i].coroutine().unpark();
                std::thread::sleep(Duration::from_millis(100));
                if s.load(Ordering::Acquire) != t0 {
                    lost += 1;
                    println!(
                        "LOST: coroutine {i} sat in park_timeout({timeout:?}) for {} ms until unparked by hand",
                        (now - t0) / 1000
                    );
                } else {
                    late += 1;
                    println!("coroutine {i} stuck > 2 s and not even resumed by unpark (cpu starvation?)");
                }
            }
        }
    }

    stop.store(true, Ordering::Relaxed);
    for s in spin {
        s.join().unwrap();
    }
    // whoever is still parked without a timer would hang the join: free them
    std::thread::sleep(Duration::from_millis(200));
    for (i, s) in since.iter().enumerate() {
        if s.load(Ordering::Acquire) != 0 {
            std::thread::sleep(Duration::from_millis(300));
            if s.load(Ordering::Acquire) != 0 {
                println!("LOST (at shutdown): coroutine {i} still parked 500 ms after stop");
                lost += 1;
                handles[i].coroutine().unpark();
            }
        }
    }
    for h in handles {
        h.join().unwrap();
    }

    println!(
        "RESULT parks={} slow(>{slow_limit:?})={} max={}us LOST={lost} stuck-not-resumable={late}",
        parks.load(Ordering::Relaxed),
        slow.load(Ordering::Relaxed),
        max_us.load(Ordering::Relaxed),
    );
    assert_eq!(lost, 0, "lost timeouts observed without any fault injection");
}

// Same idea for the io timeout: `SocketRead::subscribe` arms the io timer, then publishes
// `io_data.co`. The io timer list belongs to event loop `fd % workers`; the window is only
// open while the coroutine runs on another thread, hence the `yield_now()` (a coroutine
// that timed out is resumed on the owning event loop thread).
//   LOST : a read with a 1 ms read timeout on a silent connection did not return within 2 s;
//          it is then released by writing one byte from the peer.
#[test]
#[ignore]
fn tcp_read_timeout_under_oversubscription() {
    use std::io::{Read, Write};

    let secs = env("F8_SECS", 20);
    let n_co = env("F8_IO_COS", 128) as usize;
    let spinners = env("F8_SPINNERS", 32) as usize;
    let workers = env("F8_WORKERS", 16) as usize;
    let timeout = Duration::from_micros(env("F8_TIMEOUT_US", 1000));
    let slow_limit = timeout * 50;
    let lost_limit = Duration::from_secs(2);

    may::config().set_workers(workers);
    println!(
        "cpus={} workers={workers} spinners={spinners} connections={n_co} read_timeout={timeout:?} secs={secs}",
        std::thread::available_parallelism().map(|n| n.get()).unwrap_or(0)
    );

    let listener = std::net::TcpListener::bind("127.0.0.1:0").unwrap();
    let addr = listener.local_addr().unwrap();

    let stop = Arc::new(AtomicBool::new(false));
    let base = Instant::now();
    let since: Arc<Vec<AtomicU64>> = Arc::new((0..n_co).map(|_| AtomicU64::new(0)).collect());
    let reads = Arc::new(AtomicUsize::new(0));
    let slow = Arc::new(AtomicUsize::new(0));
    let got_data = Arc::new(AtomicUsize::new(0));

    let mut handles = Vec::new();
    let mut peers = Vec::new();
    for i in 0..n_co {
        let (stop, since, reads, slow, got_data) = (
            stop.clone(),
            since.clone(),
            reads.clone(),
            slow.clone(),
            got_data.clone(),
        );
        handles.push(go!(move || {
            let mut s = may::net::TcpStream::connect(addr).unwrap();
            s.set_read_timeout(Some(timeout)).unwrap();
            let mut buf = [0u8; 8];
            while !stop.load(Ordering::Relaxed) {
                may::coroutine::yield_now();
                let t = Instant::now();
                since[i].store(base.elapsed().as_micros() as u64 | 1, Ordering::Release);
                let r = s.read(&mut buf);
                since[i].store(0, Ordering::Release);
                let dt = t.elapsed();
                reads.fetch_add(1, Ordering::Relaxed);
                match r {
                    Err(e) if e.kind() == std::io::ErrorKind::TimedOut => {}
                    Ok(_) => {
                        got_data.fetch_add(1, Ordering::Relaxed);
                    }
                    Err(e) => panic!("unexpected read error {e:?}"),
                }
                if dt > slow_limit {
                    slow.fetch_add(1, Ordering::Relaxed);
                }
            }
        }));
        // accept one by one so that peers[i] belongs to coroutine i
        peers.push(listener.accept().unwrap().0);
    }

    let spin: Vec<_> = (0..spinners)
        .map(|_| {
            let stop = stop.clone();
            std::thread::spawn(move || {
                let mut x = 0u64;
                while !stop.load(Ordering::Relaxed) {
                    x = x.wrapping_mul(6364136223846793005).wrapping_add(1);
                    std::hint::black_box(x);
                }
            })
        })
        .collect();

    // optional: F8_IO_WRITER=1 adds real traffic, so that data and timeouts race
    let writer = (env("F8_IO_WRITER", 0) != 0).then(|| {
        let mut w: Vec<_> = peers.iter().map(|p| p.try_clone().unwrap()).collect();
        let stop = stop.clone();
        std::thread::spawn(move || {
            while !stop.load(Ordering::Relaxed) {
                for p in w.iter_mut() {
                    p.write_all(b"y").unwrap();
                }
                std::thread::sleep(Duration::from_micros(500));
            }
        })
    });

    let mut lost = 0usize;
    let end = Instant::now() + Duration::from_secs(secs);
    let mut check = |final_round: bool, lost: &mut usize| {
        let now = base.elapsed().as_micros() as u64;
        let limit = if final_round { 500_000 } else { lost_limit.as_micros() as u64 };
        for (i, s) in since.iter().enumerate() {
            let t0 = s.load(Ordering::Acquire);
            if t0 != 0 && now.saturating_sub(t0) > limit {
                peers[i].write_all(b"x").unwrap();
                std::thread::sleep(Duration::from_millis(100));
                if s.load(Ordering::Acquire) != t0 {
                    *lost += 1;
                    println!(
                        "LOST: connection {i} sat in read (timeout {timeout:?}) for {} ms until the peer wrote",
                        (now - t0) / 1000
                    );
                } else {
                    println!("connection {i} stuck and not even resumed by data");
                }
            }
        }
    };
    while Instant::now() < end {
        std::thread::sleep(Duration::from_millis(250));
        check(false, &mut lost);
    }
    stop.store(true, Ordering::Relaxed);
    for s in spin {
        s.join().unwrap();
    }
    if let Some(w) = writer {
        w.join().unwrap();
    }
    std::thread::sleep(Duration::from_millis(700));
    check(true, &mut lost);
    for h in handles {
        h.join().unwrap();
    }

    println!(
        "RESULT reads={} slow(>{slow_limit:?})={} released-by-data={} LOST={lost}",
        reads.load(Ordering::Relaxed),
        slow.load(Ordering::Relaxed),
        got_data.load(Ordering::Relaxed),
    );
    assert_eq!(lost, 0, "lost io timeouts observed without any fault injection");
}
