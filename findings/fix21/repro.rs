#[macro_use]
extern crate may;
use may::net::UdpSocket;
use std::sync::mpsc::channel;
use std::time::{Duration, Instant};

// a coroutine that was resumed by an io timeout and then yields must be resumed promptly,
// also when another io timer with a far deadline is pending on the same worker
#[test]
fn coroutine_resumed_by_io_timeout_can_yield() {
    may::config().set_workers(1);
    let (tx, rx) = channel();
    // a far io timer on the same selector
    let far = UdpSocket::bind("127.0.0.1:0").unwrap();
    far.set_read_timeout(Some(Duration::from_secs(3600))).unwrap();
    go!(move || {
        let mut buf = [0u8; 8];
        let _ = far.recv_from(&mut buf);
    });
    let s = UdpSocket::bind("127.0.0.1:0").unwrap();
    s.set_read_timeout(Some(Duration::from_millis(100))).unwrap();
    go!(move || {
        let mut buf = [0u8; 8];
        let r = s.recv_from(&mut buf);
        assert!(r.is_err());
        let t = Instant::now();
        may::coroutine::yield_now();
        tx.send(t.elapsed()).unwrap();
    });
    let d = rx.recv_timeout(Duration::from_secs(5)).expect("the coroutine that yielded after its io timeout was not resumed within 5s");
    assert!(d < Duration::from_secs(1), "yield_now took {d:?}");
}
