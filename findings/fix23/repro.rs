#[macro_use]
extern crate may;
use may::sync::RwLock;
use std::sync::atomic::{AtomicBool, Ordering};
use std::sync::mpsc::channel;
use std::sync::Arc;
use std::time::Duration;

// a coroutine with a pending cancel drops its read guard while the internal reader mutex is
// contended: the guard must still give its read lock back
#[test]
fn read_guard_drop_with_pending_cancel_releases_the_lock() {
    may::config().set_workers(2);
    let lock = Arc::new(RwLock::new(0usize));
    let (tx, rx) = channel();
    let go_on = Arc::new(AtomicBool::new(false));
    let (l2, g2) = (lock.clone(), go_on.clone());
    let h = go!(move || {
        let g = l2.read().unwrap();
        tx.send(()).unwrap();
        // no cancellation point in here: spin on the OS thread
        while !g2.load(Ordering::Acquire) {
            std::thread::yield_now();
        }
        drop(g); // read_unlock: takes the reader mutex
        // the pending cancel is delivered here at the latest
        may::coroutine::sleep(Duration::from_secs(5));
    });
    rx.recv().unwrap();
    // a thread reader that holds the reader mutex for 400ms (injected stall)
    let l3 = lock.clone();
    let t = std::thread::Builder::new().name("stall-rlock".into()).spawn(move || { let _g = l3.read().unwrap(); }).unwrap();
    std::thread::sleep(Duration::from_millis(100));
    unsafe { h.coroutine().cancel() }; // sets the cancel bit, the coroutine is running
    go_on.store(true, Ordering::Release);
    let _ = h.join();
    t.join().unwrap();
    // every guard is gone: the lock must be free
    let mut ok = false;
    for _ in 0..50 {
        if lock.try_write().is_ok() { ok = true; break; }
        std::thread::sleep(Duration::from_millis(20));
    }
    assert!(ok, "all guards are dropped but try_write() keeps failing: the read lock was leaked");
}
