//! Reproductions for two defects in `src/sync/rwlock.rs` (may 0.3.51).
//!
//! WHERE TO PUT IT: copy this file to `tests/repro_f23.rs` of the `may` crate
//! (it is a plain integration test, it only uses the public API and std
//! threads).
//!
//! HOW TO RUN:
//!   cargo test --offline --test repro_f23 -- --test-threads=1 --nocapture
//!   # optional knobs for the stress tests (B):
//!   F23_STRESS_SECS=10 F23_STRESS_THREADS=16 cargo test --offline --test repro_f23 b_ -- --test-threads=1 --nocapture
//!
//! Property under test: "RwLock: either one writer or any number of readers,
//! also when poisoned and guards are recovered from the PoisonError; every
//! guard handed out -- inside Ok or inside a Poisoned error -- releases exactly
//! what it acquired, so after all guards are dropped a try_write succeeds".
//!
//! (A) `a_*` tests: deterministic.  On the unfixed tree `try_read()` on a
//!     poisoned lock hands out a guard that did not count itself in `rlock`;
//!     dropping it underflows the reader count (debug: panic "attempt to
//!     subtract with overflow"; release: count wraps) and the global lock that
//!     was taken for it is never released -> `try_write()` is WouldBlock forever.
//! (B) `b_*` tests: stress (racy).  On the unfixed tree the private
//!     `RwLock::try_lock` reports `Poisoned` when it *lost* the CAS on a poisoned
//!     lock, and all callers take that as "acquired" -> two writers (or a writer
//!     and a reader) inside the critical section, and afterwards a corrupted
//!     `cnt` (panic "got null blocker!" or a lock that is held by nobody).
//!     The window is the few instructions between `cnt.load()` and
//!     `cnt.compare_exchange()`; the tests run until the first violation or
//!     until `F23_STRESS_SECS` (default 5) elapsed.

use std::panic::{catch_unwind, AssertUnwindSafe};
use std::sync::atomic::{AtomicBool, AtomicUsize, Ordering};
use std::sync::{Arc, TryLockError};
use std::thread;
use std::time::{Duration, Instant};

use may::sync::RwLock;

fn poisoned<T: Send + Sync + 'static>(v: T) -> Arc<RwLock<T>> {
    let lock = Arc::new(RwLock::new(v));
    let l2 = lock.clone();
    let _ = thread::spawn(move || {
        let _g = l2.write().unwrap();
        panic!("poison the rwlock (expected panic)");
    })
    .join();
    assert!(lock.is_poisoned());
    lock
}

fn env_usize(name: &str, default: usize) -> usize {
    std::env::var(name)
        .ok()
        .and_then(|s| s.parse().ok())
        .unwrap_or(default)
}

// ---------------------------------------------------------------------------
// (A) deterministic
// ---------------------------------------------------------------------------

/// The recipe from the defect description: recover the guard from the
/// PoisonError of `try_read`, drop it, then the lock must be free again.
#[test]
fn a_try_read_poisoned_guard_releases_what_it_acquired() {
    let lock = poisoned(1usize);

    let guard = match lock.try_read() {
        Err(TryLockError::Poisoned(e)) => e.into_inner(),
        Ok(_) => panic!("poisoned lock must report Poisoned"),
        Err(TryLockError::WouldBlock) => panic!("nobody holds the lock"),
    };
    assert_eq!(*guard, 1);

    // debug build, unfixed: panics with "attempt to subtract with overflow"
    let dropped = catch_unwind(AssertUnwindSafe(move || drop(guard)));

    // unfixed (debug and release): WouldBlock forever although no guard exists
    let free_again = match lock.try_write() {
        Err(TryLockError::WouldBlock) => false,
        Ok(_) | Err(TryLockError::Poisoned(_)) => true,
    };

    assert!(dropped.is_ok(), "dropping the recovered read guard panicked");
    assert!(
        free_again,
        "try_write() is WouldBlock although every guard was dropped"
    );
    // and once more, to see that the try_write guard above was balanced too
    assert!(!matches!(lock.try_write(), Err(TryLockError::WouldBlock)));
    assert!(!matches!(lock.try_read(), Err(TryLockError::WouldBlock)));
}

/// A guard recovered from a poisoned `try_read` is a real read guard: other
/// readers may join, writers are excluded until the last one is gone.
#[test]
fn a_try_read_poisoned_guards_are_shared_and_exclude_writers() {
    let lock = poisoned(());

    let g1 = match lock.try_read() {
        Err(TryLockError::Poisoned(e)) => e.into_inner(),
        _ => panic!("expected Poisoned"),
    };
    // unfixed: the first guard took the global lock but left the reader count
    // at 0, so the second reader tries to take the global lock again.
    let g2 = match lock.try_read() {
        Err(TryLockError::Poisoned(e)) => e.into_inner(),
        Err(TryLockError::WouldBlock) => {
            // (unfixed tree: dropping g1 while unwinding would panic again
            // and abort the whole test binary)
            std::mem::forget(g1);
            panic!("second reader was refused (WouldBlock)")
        }
        Ok(_) => panic!("expected Poisoned"),
    };
    // blocking read joins as well
    let g3 = lock.read().unwrap_or_else(|e| e.into_inner());

    assert!(matches!(lock.try_write(), Err(TryLockError::WouldBlock)));
    drop(g1);
    assert!(matches!(lock.try_write(), Err(TryLockError::WouldBlock)));
    drop(g3);
    assert!(matches!(lock.try_write(), Err(TryLockError::WouldBlock)));
    drop(g2);
    assert!(matches!(
        lock.try_write(),
        Err(TryLockError::Poisoned(_))
    ));
}

/// `impl Debug for RwLock` goes through `try_read` and drops the PoisonError,
/// so merely formatting a poisoned lock trips over the same defect.
#[test]
fn a_debug_fmt_of_poisoned_lock() {
    let lock = poisoned(7u32);
    let s = catch_unwind(AssertUnwindSafe(|| format!("{:?}", lock)));
    let free_again = !matches!(lock.try_write(), Err(TryLockError::WouldBlock));
    assert!(s.is_ok(), "format!(\"{{:?}}\", poisoned_lock) panicked");
    assert!(s.unwrap().contains("Poisoned(7)"));
    assert!(free_again, "Debug::fmt leaked the lock");
}

// ---------------------------------------------------------------------------
// (B) stress
// ---------------------------------------------------------------------------

#[derive(Clone, Copy, PartialEq)]
enum Role {
    TryWrite,
    TryRead,
    Write,
}

struct Shared {
    lock: Arc<RwLock<()>>,
    writers: AtomicUsize,
    readers: AtomicUsize,
    violations: AtomicUsize,
    entered: AtomicUsize,
    stop: AtomicBool,
}

fn critical_write(s: &Shared) {
    let w = s.writers.fetch_add(1, Ordering::SeqCst);
    let r = s.readers.load(Ordering::SeqCst);
    if w != 0 || r != 0 {
        s.violations.fetch_add(1, Ordering::SeqCst);
        s.stop.store(true, Ordering::SeqCst);
    }
    for _ in 0..20 {
        std::hint::spin_loop();
    }
    s.writers.fetch_sub(1, Ordering::SeqCst);
    s.entered.fetch_add(1, Ordering::Relaxed);
}

fn critical_read(s: &Shared) {
    s.readers.fetch_add(1, Ordering::SeqCst);
    if s.writers.load(Ordering::SeqCst) != 0 {
        s.violations.fetch_add(1, Ordering::SeqCst);
        s.stop.store(true, Ordering::SeqCst);
    }
    for _ in 0..20 {
        std::hint::spin_loop();
    }
    s.readers.fetch_sub(1, Ordering::SeqCst);
    s.entered.fetch_add(1, Ordering::Relaxed);
}

fn worker(s: &Shared, role: Role) {
    while !s.stop.load(Ordering::Relaxed) {
        match role {
            Role::TryWrite => match s.lock.try_write() {
                Ok(_g) => critical_write(s),
                Err(TryLockError::Poisoned(e)) => {
                    let _g = e.into_inner();
                    critical_write(s)
                }
                Err(TryLockError::WouldBlock) => {}
            },
            Role::TryRead => match s.lock.try_read() {
                Ok(_g) => critical_read(s),
                Err(TryLockError::Poisoned(e)) => {
                    let _g = e.into_inner();
                    critical_read(s)
                }
                Err(TryLockError::WouldBlock) => {}
            },
            Role::Write => {
                let _g = s.lock.write().unwrap_or_else(|e| e.into_inner());
                critical_write(s)
            }
        }
    }
}

/// returns (violations, panicked threads, hung threads, entered)
fn stress(lock: Arc<RwLock<()>>, roles: &[Role]) -> (usize, usize, usize, usize) {
    let secs = env_usize("F23_STRESS_SECS", 5) as u64;
    let s = Arc::new(Shared {
        lock,
        writers: AtomicUsize::new(0),
        readers: AtomicUsize::new(0),
        violations: AtomicUsize::new(0),
        entered: AtomicUsize::new(0),
        stop: AtomicBool::new(false),
    });
    let done = Arc::new(AtomicUsize::new(0));
    let panicked = Arc::new(AtomicUsize::new(0));
    for &role in roles {
        let s = s.clone();
        let done = done.clone();
        let panicked = panicked.clone();
        // detached on purpose: on the unfixed tree a blocking writer can hang
        thread::spawn(move || {
            if catch_unwind(AssertUnwindSafe(|| worker(&s, role))).is_err() {
                panicked.fetch_add(1, Ordering::SeqCst);
                s.stop.store(true, Ordering::SeqCst);
            }
            done.fetch_add(1, Ordering::SeqCst);
        });
    }
    let start = Instant::now();
    while start.elapsed() < Duration::from_secs(secs) && !s.stop.load(Ordering::SeqCst) {
        thread::sleep(Duration::from_millis(10));
    }
    s.stop.store(true, Ordering::SeqCst);
    // give the workers 5s to leave; whoever is still there is parked forever
    let grace = Instant::now();
    while done.load(Ordering::SeqCst) < roles.len() && grace.elapsed() < Duration::from_secs(5) {
        thread::sleep(Duration::from_millis(10));
    }
    let hung = roles.len() - done.load(Ordering::SeqCst);
    let res = (
        s.violations.load(Ordering::SeqCst),
        panicked.load(Ordering::SeqCst),
        hung,
        s.entered.load(Ordering::SeqCst),
    );
    println!(
        "stress: {:?} elapsed, critical sections entered = {}, exclusion violations = {}, \
         panicked threads = {}, hung threads = {}",
        start.elapsed(),
        res.3,
        res.0,
        res.1,
        res.2
    );
    res
}

fn check(lock: Arc<RwLock<()>>, roles: &[Role]) {
    let (violations, panicked, hung, entered) = stress(lock.clone(), roles);
    assert!(entered > 0, "the stress test never got the lock");
    assert_eq!(violations, 0, "mutual exclusion violated");
    assert_eq!(panicked, 0, "a worker panicked inside the rwlock");
    assert_eq!(hung, 0, "a worker never came back from write()");
    // every guard is dropped now: the lock must be free
    assert!(
        !matches!(lock.try_write(), Err(TryLockError::WouldBlock)),
        "try_write() is WouldBlock although every guard was dropped"
    );
}

fn nthreads() -> usize {
    env_usize("F23_STRESS_THREADS", 8).max(2)
}

/// N threads hammer `try_write` on a poisoned lock.
#[test]
fn b_poisoned_try_write_is_exclusive() {
    let roles = vec![Role::TryWrite; nthreads()];
    check(poisoned(()), &roles);
}

/// writers via `try_write`, readers via `try_read` (needs fix A to be
/// meaningful: on the unfixed tree the readers run into defect A first).
#[test]
fn b_poisoned_try_write_vs_try_read() {
    let n = nthreads();
    let mut roles = vec![Role::TryWrite; n / 2];
    roles.extend(vec![Role::TryRead; n - n / 2]);
    check(poisoned(()), &roles);
}

/// blocking `write()` goes through `lock()`, which maps the bogus Poisoned to
/// `Err(ParkError::Timeout)`, which `write()` ignores.
#[test]
fn b_poisoned_write_vs_try_write() {
    let n = nthreads();
    let mut roles = vec![Role::TryWrite; n - 1];
    roles.push(Role::Write);
    check(poisoned(()), &roles);
}

/// control: the same stress on a healthy lock never fails, before or after
/// the fix (the lost-CAS path returns WouldBlock when not poisoned).
#[test]
fn b_control_not_poisoned() {
    let roles = vec![Role::TryWrite; nthreads()];
    check(Arc::new(RwLock::new(())), &roles);
}
