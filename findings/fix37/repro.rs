// the owner of a scope starts to unwind (a child's panic re-thrown by its join, or a panic
// of its own) while another child, that is going to panic too, is still running: the rest
// of the scope is joined by `Scope::drop` in the middle of the unwinding
#[macro_use]
extern crate may;

use may::coroutine;
use std::time::Duration;

// two children panic, the one that is joined first (the last spawned) at once
#[test]
fn scope_two_children_panic() {
    may::config().set_workers(4);
    for i in 0..8 {
        let h = go!(move || {
            coroutine::scope(|s| {
                // joined last, still sleeping when the owner starts to unwind
                go!(s, || {
                    coroutine::sleep(Duration::from_millis(100));
                    panic!("slow child panic");
                });
                // joined first
                go!(s, || {
                    panic!("fast child panic");
                });
            });
        });
        let r = h.join();
        assert!(r.is_err(), "round {i}: a child's panic is propagated to the owner");
        println!("round {i}: owner got the panic");
    }
}

// same with join!
#[test]
fn join_macro_two_panics() {
    may::config().set_workers(4);
    for i in 0..8 {
        let h = go!(move || {
            join!(
                {
                    coroutine::sleep(Duration::from_millis(100));
                    panic!("slow child panic");
                },
                panic!("fast child panic")
            );
        });
        let r = h.join();
        assert!(r.is_err(), "round {i}: a child's panic is propagated to the owner");
        println!("round {i}: owner got the panic");
    }
}

// the owner panics while a child that is going to panic is still running
#[test]
fn scope_owner_and_child_panic() {
    may::config().set_workers(4);
    for i in 0..8 {
        let h = go!(move || {
            coroutine::scope(|s| {
                go!(s, || {
                    coroutine::sleep(Duration::from_millis(100));
                    panic!("child panic");
                });
                panic!("owner panic");
            });
        });
        let e = h.join().expect_err("the owner panicked");
        assert_eq!(e.downcast_ref::<&str>(), Some(&"owner panic"), "round {i}");
        println!("round {i}: owner panic propagated");
    }
}
