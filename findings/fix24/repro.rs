#[macro_use]
extern crate may;
use may::sync::WaitGroup;
use std::sync::atomic::{AtomicBool, Ordering};
use std::sync::mpsc::channel;
use std::sync::Arc;
use std::time::Duration;

// a coroutine with a pending cancel drops its WaitGroup clone while the internal mutex is contended:
// the clone must still be un-counted, wait() must return once every other clone is gone
#[test]
fn waitgroup_clone_dropped_with_pending_cancel_is_counted() {
    may::config().set_workers(2);
    let wg = WaitGroup::new();
    let (tx, rx) = channel();
    let go_on = Arc::new(AtomicBool::new(false));
    let (w2, g2) = (wg.clone(), go_on.clone());
    let h = go!(move || {
        let w = w2;
        tx.send(()).unwrap();
        while !g2.load(Ordering::Acquire) {
            std::thread::yield_now(); // no cancellation point
        }
        drop(w);
        may::coroutine::sleep(Duration::from_secs(5)); // the pending cancel is delivered here at the latest
    });
    rx.recv().unwrap();
    // a thread that holds the count mutex for 400ms (injected stall in clone), its clone is dropped at once
    let w3 = wg.clone();
    let t = std::thread::Builder::new().name("stall-wg".into()).spawn(move || { let _c = w3.clone(); }).unwrap();
    std::thread::sleep(Duration::from_millis(100));
    unsafe { h.coroutine().cancel() };
    go_on.store(true, Ordering::Release);
    let _ = h.join();
    t.join().unwrap();
    // every other clone is gone
    let (dtx, drx) = channel();
    std::thread::spawn(move || { wg.wait(); dtx.send(()).unwrap(); });
    assert!(drx.recv_timeout(Duration::from_secs(3)).is_ok(), "every other clone was dropped but wait() does not return: a dropped clone was not un-counted");
}
