// F17: a huge timeout (Duration::MAX, the "no timeout" idiom) must not fire early or kill the runtime
use std::sync::mpsc;
use std::time::{Duration, Instant};
#[macro_use]
extern crate may;

#[test]
fn recv_timeout_duration_max_does_not_fire_early() {
    may::config().set_workers(2);
    let (done_tx, done_rx) = mpsc::channel();
    let (tx, rx) = may::sync::mpsc::channel::<u32>();
    go!(move || {
        let t0 = Instant::now();
        let r = rx.recv_timeout(Duration::MAX);
        done_tx.send((r.is_ok(), t0.elapsed())).ok();
    });
    std::thread::sleep(Duration::from_millis(300));
    tx.send(7).unwrap();
    let (ok, el) = done_rx.recv_timeout(Duration::from_secs(5)).expect("HANG: receiver never returned (runtime thread died?)");
    assert!(ok, "recv_timeout(Duration::MAX) reported a timeout after {:?}", el);
    assert!(el >= Duration::from_millis(250), "returned early after {:?}", el);
}

#[test]
fn sleep_like_park_timeout_huge() {
    may::config().set_workers(2);
    let (done_tx, done_rx) = mpsc::channel();
    let sem = std::sync::Arc::new(may::sync::Semphore::new(0));
    let s2 = sem.clone();
    go!(move || {
        let t0 = Instant::now();
        let r = s2.wait_timeout(Duration::from_secs(u64::MAX / 4));
        done_tx.send((r, t0.elapsed())).ok();
    });
    std::thread::sleep(Duration::from_millis(300));
    sem.post();
    let (ok, el) = done_rx.recv_timeout(Duration::from_secs(5)).expect("HANG");
    assert!(ok, "wait_timeout(huge) reported a timeout after {:?}", el);
    assert!(el >= Duration::from_millis(250), "returned early after {:?}", el);
}

#[test]
fn read_timeout_30_days_does_not_kill_the_selector() {
    use std::io::{Read, Write};
    may::config().set_workers(2);
    let (done_tx, done_rx) = mpsc::channel();
    let l = may::net::TcpListener::bind("127.0.0.1:0").unwrap();
    let addr = l.local_addr().unwrap();
    go!(move || {
        let (mut s, _) = l.accept().unwrap();
        s.set_read_timeout(Some(Duration::from_secs(30 * 24 * 3600))).unwrap();
        let mut b = [0u8; 1];
        let r = s.read(&mut b);
        done_tx.send(r.map(|n| (n, b[0])).map_err(|e| e.kind())).ok();
    });
    let mut c = std::net::TcpStream::connect(addr).unwrap();
    std::thread::sleep(Duration::from_millis(300));
    c.write_all(&[9]).unwrap();
    let r = done_rx.recv_timeout(Duration::from_secs(5)).expect("HANG: the reader never returned (selector thread died?)");
    assert_eq!(r, Ok((1, 9)));
}
