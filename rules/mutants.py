"""Self-test corpus: each mutant breaks one rule instance (still compiles, passes the pinned suite or
is a data-race/ordering change the suite cannot see); each benign edit preserves behaviour."""
M = []
B = []
def mut(name, props, expect, *edits): M.append(dict(name=name, props=props, expect=expect, edits=list(edits)))
def ben(name, props, *edits): B.append(dict(name=name, props=props, edits=list(edits)))

# ---- C01
mut("c01-trigger-before-store", ["C01"], "result-then-trigger",
    ("src/coroutine_impl.rs", "            their_packet.store(f());\n\n            their_join.trigger();", "            let r = f();\n            their_join.trigger();\n            their_packet.store(r);"))
mut("c01-join-trigger-take-before-state", ["C01"], "publish-then-wake",
    ("src/join.rs", "        self.state.store(false, Ordering::Release);\n        if let Some(w) = self.to_wake.take() {\n            w.unpark();\n        }",
     "        let w = self.to_wake.take();\n        self.state.store(false, Ordering::Release);\n        if let Some(w) = w {\n            w.unpark();\n        }"))
mut("c01-join-wait-no-recheck", ["C01"], "Join::wait",
    ("src/join.rs", "            if self.state.load(Ordering::Acquire) {\n                // successfully register the blocker\n                cur.park(None).ok();\n            } else {\n                self.to_wake.take();\n            }",
     "            cur.park(None).ok();"))
mut("c01-cancel-schedules-on-worker0", ["C01"], "id-provenance",
    ("src/cancel.rs", "                get_scheduler().schedule(co);", "                get_scheduler().schedule_with_id(co, 0);"))
mut("c01-global-wakeup-before-push", ["C01"], "push-then-wakeup",
    ("src/scheduler.rs", "        let thread_id = id.rem_euclid(self.workers);\n        // println!(\"Scheduling to {thread_id}\");\n        let global = unsafe { self.global_queues.get_unchecked(thread_id) };\n        global.push(co);\n        // signal one waiting thread if any\n        self.get_selector().wakeup(thread_id);",
     "        let thread_id = id.rem_euclid(self.workers);\n        let global = unsafe { self.global_queues.get_unchecked(thread_id) };\n        self.get_selector().wakeup(thread_id);\n        global.push(co);"))
mut("c01-join-state-relaxed", ["C01"], "state-store",
    ("src/join.rs", "self.state.store(false, Ordering::Release);", "self.state.store(false, Ordering::Relaxed);"))
mut("c01-run-trigger-before-panic", ["C01"], "panic-set-before-trigger",
    ("src/coroutine_impl.rs", "            if let Some(panic) = co.get_panic_data() {\n                join.set_panic_data(panic);\n            }\n            // trigger the join here\n            join.trigger();",
     "            let p = co.get_panic_data();\n            join.trigger();\n            if let Some(panic) = p {\n                join.set_panic_data(panic);\n            }"))
ben("c01-join-wait-seqcst", ["C01"],
    ("src/join.rs", "self.state.store(false, Ordering::Release);", "self.state.store(false, Ordering::SeqCst);"))

# ---- C02
mut("c02-subscribe-check-before-store", ["C02"], "park-slot",
    ("src/park.rs", "        // register the coroutine\n        self.wait_co.store(co);\n\n        // re-check the state, only clear once after resume\n        if self.state.load(Ordering::Acquire) {",
     "        // register the coroutine\n        let st = self.state.load(Ordering::Acquire);\n        self.wait_co.store(co);\n\n        if st {"))
mut("c02-unpark-swap-relaxed", ["C02"], "state-swap",
    ("src/park.rs", "if !self.state.swap(true, Ordering::AcqRel) {", "if !self.state.swap(true, Ordering::Relaxed) {"))
mut("c02-unpark-wake-before-swap", ["C02"], "unpark/publish-then-take",
    ("src/park.rs", "        if !self.state.swap(true, Ordering::AcqRel) {\n            self.wake_up(b_sync);\n        }", "        self.wake_up(b_sync);\n        self.state.swap(true, Ordering::AcqRel);"))
mut("c02-park-no-disarm", ["C02"], "disarm-after",
    ("src/park.rs", "        // remove timer handle\n        self.remove_timeout_handle();\n", "        // remove timer handle\n        if dur.is_none() { self.remove_timeout_handle(); }\n"))
mut("c02-threadpark-notify-without-token", ["C02"], "token-then-notify",
    ("src/sync/blocking.rs", "        if *guard == 0 {\n            *guard = 1;\n            self.cvar.notify_one();\n        }", "        if *guard == 0 {\n            self.cvar.notify_one();\n            *guard = 1;\n        }"))
mut("c02-cancel-take-before-flag", ["C02"], "cancel/publish-then-take",
    ("src/cancel.rs", "        self.state.fetch_or(1, Ordering::Release);\n\n        if let Some(Ok(())) = self.io.cancel() {\n            // successfully canceled\n            return;\n        }\n\n        if let Some(co) = self.co.take() {",
     "        if let Some(Ok(())) = self.io.cancel() {\n            self.state.fetch_or(1, Ordering::Release);\n            return;\n        }\n        let taken = self.co.take();\n        self.state.fetch_or(1, Ordering::Release);\n        if let Some(co) = taken {"))
ben("c02-park-if-let-to-match", ["C02"],
    ("src/park.rs", "        if let Some(co) = self.wait_co.take() {\n            run_coroutine(co);\n        }\n    }\n\n    /// park current", "        match self.wait_co.take() {\n            Some(co) => run_coroutine(co),\n            None => {}\n        }\n    }\n\n    /// park current"))

# ---- C05
mut("c05-count-before-enqueue", ["C05"], "enqueue-then-count",
    ("src/sync/mutex.rs", "        self.to_wake.push(cur.clone());\n        // inc the cnt, if it's the first grab, unpark the first waiter\n        if self.cnt.fetch_add(1, Ordering::SeqCst) == 0 {",
     "        let first = self.cnt.fetch_add(1, Ordering::SeqCst) == 0;\n        self.to_wake.push(cur.clone());\n        if first {"))
mut("c05-waker-drops-forward", ["C05"], "waker/release-forwards",
    ("src/sync/mutex.rs", "    fn unpark_one(&self, w: &SyncBlocker) {\n        w.unpark();\n        if w.take_release() {\n            self.unlock();\n        }\n    }",
     "    fn unpark_one(&self, w: &SyncBlocker) {\n        w.unpark();\n        w.take_release();\n    }"))
mut("c05-panic-before-handshake", ["C05"], "handshake/H",
    ("src/sync/mutex.rs", "                    // check the unpark status\n                    if cur.is_unparked() {\n                        if b_ignore {",
     "                    if !b_ignore {\n                        trigger_cancel_panic();\n                    }\n                    // check the unpark status\n                    if cur.is_unparked() {\n                        if b_ignore {"))
mut("c05-unlock-relaxed", ["C05"], "unlock-release",
    ("src/sync/mutex.rs", "if self.cnt.fetch_sub(1, Ordering::SeqCst) > 1 {", "if self.cnt.fetch_sub(1, Ordering::Relaxed) > 1 {"))
mut("c05-no-recheck-after-set-release", ["C05"], "handshake",
    ("src/sync/mutex.rs", "                        // re-check unpark status\n                        if cur.is_unparked() && cur.take_release() {\n                            if b_ignore {\n                                break;\n                            }\n                            self.unlock();\n                        }",
     ""))
mut("c05-guard-drop-skips-unlock-when-poisoned", ["C05"], "drop-unlocks",
    ("src/sync/mutex.rs", "        self.__lock.poison.done(&self.__poison);\n        self.__lock.unlock();", "        self.__lock.poison.done(&self.__poison);\n        if !self.__lock.poison.get() {\n            self.__lock.unlock();\n        }"))
ben("c05-hoist-blocker", ["C05"],
    ("src/sync/mutex.rs", "    fn unpark_one(&self, w: &SyncBlocker) {\n        w.unpark();\n        if w.take_release() {\n            self.unlock();\n        }\n    }",
     "    fn unpark_one(&self, w: &SyncBlocker) {\n        w.unpark();\n        let released = w.take_release();\n        if released {\n            self.unlock();\n        }\n    }"))

MUTANTS = M
BENIGN = B
