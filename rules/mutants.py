"""Self-test corpus: each mutant breaks one rule instance (still compiles, passes the pinned suite or
is a data-race/ordering change the suite cannot see); each benign edit preserves behaviour."""
M = []
B = []
def mut(name, props, expect, *edits): M.append(dict(name=name, props=props, expect=expect, edits=list(edits)))
def ben(name, props, *edits): B.append(dict(name=name, props=props, edits=list(edits)))

# ---- C01
mut("c01-trigger-before-store", ["C01"], "result-then-trigger",
    ("src/coroutine_impl.rs", "            their_packet.store(f());\n\n            their_join.trigger();", "            let r = f();\n            their_join.trigger();\n            their_packet.store(r);"))
mut("c01-join-trigger-take-before-state", ["C01"], "publish-then-wake",
    ("src/join.rs", "        self.state.store(false, Ordering::Release);\n        if let Some(w) = self.to_wake.take() {\n            w.unpark();\n        }",
     "        let w = self.to_wake.take();\n        self.state.store(false, Ordering::Release);\n        if let Some(w) = w {\n            w.unpark();\n        }"))
mut("c01-join-wait-single-park", ["C01", "C14"], "return-only-when-done",
    ("src/join.rs", "        while self.state.load(Ordering::Acquire) {\n            let cur = Blocker::current();", "        if self.state.load(Ordering::Acquire) {\n            let cur = Blocker::current();"))
mut("c01-cancel-schedules-on-worker0", ["C01"], "schedule_with_id|caller",
    ("src/cancel.rs", "                get_scheduler().schedule(co);", "                get_scheduler().schedule_with_id(co, 0);"))
mut("c01-global-wakeup-before-push", ["C01"], "push-then-wakeup",
    ("src/scheduler.rs", "        let thread_id = id.rem_euclid(self.workers);\n        // println!(\"Scheduling to {thread_id}\");\n        let global = unsafe { self.global_queues.get_unchecked(thread_id) };\n        global.push(co);\n        // signal one waiting thread if any\n        self.get_selector().wakeup(thread_id);",
     "        let thread_id = id.rem_euclid(self.workers);\n        let global = unsafe { self.global_queues.get_unchecked(thread_id) };\n        self.get_selector().wakeup(thread_id);\n        global.push(co);"))
mut("c01-join-state-relaxed", ["C01"], "state-store",
    ("src/join.rs", "self.state.store(false, Ordering::Release);", "self.state.store(false, Ordering::Relaxed);"))
mut("c01-run-trigger-before-panic", ["C01"], "panic-set-before-trigger",
    ("src/coroutine_impl.rs", "            if let Some(panic) = co.get_panic_data() {\n                join.set_panic_data(panic);\n            }\n            // trigger the join here\n            join.trigger();",
     "            let p = co.get_panic_data();\n            join.trigger();\n            if let Some(panic) = p {\n                join.set_panic_data(panic);\n            }"))
ben("c01-join-wait-seqcst", ["C01"],
    ("src/join.rs", "self.state.store(false, Ordering::Release);", "self.state.store(false, Ordering::SeqCst);"))

# ---- F20: revert (a worker never looks at its global queue while its local queue stays non-empty)
mut("f20-revert-global-poll", ["C01"], "worker/every-run-cycle-polls-global",
    ("src/scheduler.rs", "                    ticks = ticks.wrapping_add(1);\n                    if ticks % GLOBAL_POLL_INTERVAL == 0 {\n                        self.collect_global(id);\n                    }\n                    if ticks >= IO_POLL_INTERVAL {",
     "                    ticks = ticks.wrapping_add(1);\n                    if ticks >= IO_POLL_INTERVAL {"))
mut("f20-counter-never-advances", ["C01"], "worker/every-run-cycle-polls-global",
    ("src/scheduler.rs", "                    ticks = ticks.wrapping_add(1);\n                    if ticks % GLOBAL_POLL_INTERVAL == 0 {\n                        self.collect_global(id);\n                    }\n                    if ticks >= IO_POLL_INTERVAL {",
     "                    ticks = ticks.wrapping_add(0);\n                    if ticks % GLOBAL_POLL_INTERVAL == 0 {\n                        self.collect_global(id);\n                    }\n                    if ticks >= IO_POLL_INTERVAL {"))
ben("f20-poll-every-iteration", ["C01"],
    ("src/scheduler.rs", "                    if ticks % GLOBAL_POLL_INTERVAL == 0 {\n                        self.collect_global(id);\n                    }\n                    if ticks >= IO_POLL_INTERVAL {",
     "                    self.collect_global(id);\n                    if ticks >= IO_POLL_INTERVAL {"))
# ---- F21: revert (the local queue is not served after the io timer list)
mut("f21-revert-run-after-timers", ["C18", "C08"], "select/local-queue-served-after-timers",
    ("src/io/sys/unix/epoll.rs", "        #[cfg(feature = \"io_timeout\")]\n        scheduler.run_queued_tasks(id);\n\n        // `next_expire` is relative", "        // `next_expire` is relative"))

# ---- F22: revert (store buffering in the SyncBlocker handshake)
mut("f22-revert-set-release-release", ["C10", "C05"], "release-store",
    ("src/sync/blocking.rs", "        self.release.store(true, Ordering::SeqCst);", "        self.release.store(true, Ordering::Release);"))
mut("f22-revert-is-unparked-acquire", ["C10", "C12"], "unparked-load",
    ("src/sync/blocking.rs", "        self.unparked.load(Ordering::SeqCst)", "        self.unparked.load(Ordering::Acquire)"))
mut("f22-revert-unparked-store-release", ["C11", "C09"], "unparked-store",
    ("src/sync/blocking.rs", "        self.unparked.store(true, Ordering::SeqCst);", "        self.unparked.store(true, Ordering::Release);"))
mut("f22-revert-take-release-acquire", ["C10"], "release-swap",
    ("src/sync/blocking.rs", "        self.release.swap(false, Ordering::SeqCst)", "        self.release.swap(false, Ordering::AcqRel)"))
ben("f22-fence-form", ["C10", "C05"],
    ("src/sync/blocking.rs", "        self.release.store(true, Ordering::SeqCst);", "        self.release.store(true, Ordering::Relaxed);\n        std::sync::atomic::fence(Ordering::SeqCst);"))

# ---- F23 / F24: revert (a destructor that takes a contended may Mutex is a cancellation point)
mut("f23-revert-read-unlock-mask", ["C12", "C09"], "drop-not-a-cancellation-point",
    ("src/sync/rwlock.rs", "        let _g = crate::cancel::CancelDisableGuard::new();\n        let mut r = self.rlock.lock().expect(\"rwlock read_unlock\");", "        let mut r = self.rlock.lock().expect(\"rwlock read_unlock\");"))
mut("f24-revert-waitgroup-drop-mask", ["C11"], "drop-not-a-cancellation-point",
    ("src/sync/wait_group.rs", "        let _g = crate::cancel::CancelDisableGuard::new();\n        let mut count = self.inner.count.lock().unwrap();\n        *count -= 1;", "        let mut count = self.inner.count.lock().unwrap();\n        *count -= 1;"))
mut("f23-mask-after-lock", ["C12"], "drop-not-a-cancellation-point",
    ("src/sync/rwlock.rs", "        let _g = crate::cancel::CancelDisableGuard::new();\n        let mut r = self.rlock.lock().expect(\"rwlock read_unlock\");", "        let mut r = self.rlock.lock().expect(\"rwlock read_unlock\");\n        let _g = crate::cancel::CancelDisableGuard::new();"))

# ---- F25: revert (Queue::drop of the timer entry list frees the stub although its Entry handle may be alive)
mut("f25-revert-queue-drop-frees-stub", ["C19"], "refs/queue-drop/free-only-at-zero",
    ("may_queue/src/mpsc_list_v1.rs", "            (*tail).refs -= 1;\n            if (*tail).refs == 0 {\n                let _: Box<Node<T>> = Box::from_raw(tail);\n            }\n        }\n    }\n}\n\n#[cfg(test)]",
     "            (*tail).refs -= 1;\n            let _: Box<Node<T>> = Box::from_raw(tail);\n        }\n    }\n}\n\n#[cfg(test)]"))
ben("f25-queue-drop-helper", ["C19"],
    ("may_queue/src/mpsc_list_v1.rs", "            (*tail).refs -= 1;\n            if (*tail).refs == 0 {\n                let _: Box<Node<T>> = Box::from_raw(tail);\n            }\n        }\n    }\n}\n\n#[cfg(test)]",
     "            (*tail).refs -= 1;\n            let last = (*tail).refs == 0;\n            if last {\n                drop(Box::from_raw(tail));\n            }\n        }\n    }\n}\n\n#[cfg(test)]"))

# ---- F26: revert (the join in Cqueue::check_panic is a cancellation point)
mut("f26-revert-check-panic-join-mask", ["C14"], "every-child-join-cancel-masked",
    ("src/cqueue.rs", "            let _g = CancelDisableGuard::new();\n            handle.join()", "            handle.join()"))
mut("f26-guard-dropped-before-join", ["C14"], "every-child-join-guard-lives-across",
    ("src/cqueue.rs", "            let _g = CancelDisableGuard::new();\n            handle.join()", "            let _ = CancelDisableGuard::new();\n            handle.join()"))

# ---- F27: revert (Park::drop / spsc Park::drop yield without masking the cancel)
mut("f27-revert-park-drop-mask", ["C09", "C12"], "drop-not-a-cancellation-point",
    ("src/park.rs", "            let _g = (!std::thread::panicking()).then(crate::cancel::CancelDisableGuard::new);\n", ""))
mut("f27-revert-spsc-park-drop-mask", ["C09"], "drop-not-a-cancellation-point",
    ("src/sync/spsc.rs", "            let _g = (!std::thread::panicking()).then(crate::cancel::CancelDisableGuard::new);\n", ""))
mut("f27-mask-only-while-panicking", ["C09"], "drop-not-a-cancellation-point",
    ("src/park.rs", "            let _g = (!std::thread::panicking()).then(crate::cancel::CancelDisableGuard::new);\n", "            let _g = (std::thread::panicking()).then(crate::cancel::CancelDisableGuard::new);\n"))
ben("f27-unconditional-mask", ["C09", "C12"],
    ("src/park.rs", "            let _g = (!std::thread::panicking()).then(crate::cancel::CancelDisableGuard::new);\n", "            let _g = crate::cancel::CancelDisableGuard::new();\n"))

# ---- F29: revert (sleep until the next timer relative to a stale clock sample)
mut("f29-revert-timer-thread-stale-now", ["C08"], "sleep/relative-to-fresh-clock",
    ("src/timeout_list.rs", "                    let elapsed = now().saturating_sub(start);\n                    if time > elapsed {\n                        thread::park_timeout(Duration::from_nanos(time - elapsed));\n                    }",
     "                    thread::park_timeout(Duration::from_nanos(time));"))
mut("f29-revert-select-stale-now", ["C18", "C08"], "sleep/relative-to-fresh-clock",
    ("src/io/sys/unix/epoll.rs", "        let next_expire = next_expire.map(|t: u64| t.saturating_sub(now().saturating_sub(start)));\n", "        let _ = start;\n"))
mut("f29-elapsed-sampled-before-handlers", ["C08"], "sleep/relative-to-fresh-clock",
    ("src/timeout_list.rs", "            let start = now();\n            match self.timer_list.schedule_timer(start, f) {\n                Some(time) => {",
     "            let start = now();\n            let elapsed = now().saturating_sub(start);\n            match self.timer_list.schedule_timer(start, f) {\n                Some(time) => {"),
    ("src/timeout_list.rs", "                    let elapsed = now().saturating_sub(start);\n                    if time > elapsed {", "                    if time > elapsed {"))
ben("f29-deadline-form", ["C08"],
    ("src/timeout_list.rs", "                    let elapsed = now().saturating_sub(start);\n                    if time > elapsed {\n                        thread::park_timeout(Duration::from_nanos(time - elapsed));\n                    }",
     "                    let deadline = start.saturating_add(time);\n                    let cur = now();\n                    if deadline > cur {\n                        thread::park_timeout(Duration::from_nanos(deadline - cur));\n                    }"))

# ---- F30: revert (EventSender::yield_back returns into the bottom half of an event that was never sent)
mut("f30-revert-yield-back-ignores-unsent", ["C16"], "yield-back/unsent-event-never-runs-bottom",
    ("src/cqueue.rs", "        if get_co_para().is_some() && !std::thread::panicking() {\n            trigger_cancel_panic();\n        }", "        get_co_para();"))
mut("f30-panic-when-resumed-by-poll", ["C16"], "yield-back/cancel-panic-only-if-event-not-sent",
    ("src/cqueue.rs", "        if get_co_para().is_some() && !std::thread::panicking() {\n            trigger_cancel_panic();\n        }", "        if get_co_para().is_none() && !std::thread::panicking() {\n            trigger_cancel_panic();\n        }"))
ben("f30-match-form", ["C16"],
    ("src/cqueue.rs", "        if get_co_para().is_some() && !std::thread::panicking() {\n            trigger_cancel_panic();\n        }", "        if let Some(_e) = get_co_para() {\n            if !std::thread::panicking() {\n                trigger_cancel_panic();\n            }\n        }"))

# ---- F31: revert (the coroutine_local initialiser runs while the map is mutably borrowed)
mut("f31-init-under-borrow", ["C15"], "local/init-runs-unborrowed",
    ("src/local.rs", "                    let mut value: Option<Box<dyn Opaque>> = Some(Box::new((self.__init)()));\n                    let mut data = data.borrow_mut();\n",
     "                    let mut data = data.borrow_mut();\n                    let mut value: Option<Box<dyn Opaque>> = Some(Box::new((self.__init)()));\n"))
mut("f31-init-in-insert-closure", ["C15"], "local/init-runs-unborrowed",
    ("src/local.rs", "                    let mut value: Option<Box<dyn Opaque>> = Some(Box::new((self.__init)()));\n                    let mut data = data.borrow_mut();\n                    // if the initialiser has initialised this key recursively keep that\n                    // value, the spare one is dropped after the borrow is released\n                    let entry = data.entry(key).or_insert_with(|| value.take().unwrap());",
     "                    let mut data = data.borrow_mut();\n                    let entry = data.entry(key).or_insert_with(|| Box::new((self.__init)()));"))

# ---- F32: revert (a worker never returns to its selector while its local queue stays non-empty)
mut("f32-revert-run-budget", ["C01", "C17"], "worker/run-budget",
    ("src/scheduler.rs", "                    if ticks >= IO_POLL_INTERVAL {\n                        return self.yield_to_selector(id);\n                    }\n                    continue 'work;\n                }\n                None => {",
     "                    continue 'work;\n                }\n                None => {"))
mut("f32-budget-exit-without-wakeup", ["C01"], "worker/",
    ("src/scheduler.rs", "    fn yield_to_selector(&self, id: usize) {\n        self.get_selector().wakeup(id);\n    }", "    fn yield_to_selector(&self, id: usize) {\n        let _ = id;\n    }"))

# ---- F33: revert (Cqueue is auto-Sync)
mut("f33-revert-cqueue-not-sync", ["C16"], "Cqueue is not Sync",
    ("src/cqueue.rs", "    _not_sync: PhantomData<Cell<()>>,", "    _not_sync: PhantomData<()>,"))

# ---- F35: revert (thread io parks once)
mut("f35-revert-thread-io-single-park", ["C17", "C02"], "thread-park/in-a-loop-on-a-condition",
    ("src/yield_now.rs", "        crate::io::thread::wait_proxy_co();", "        std::thread::park();"))
mut("f35-wait-proxy-if-instead-of-while", ["C17"], "thread-park/in-a-loop-on-a-condition",
    ("src/io/thread.rs", "        while !done.swap(false, Ordering::Acquire) {", "        if !done.swap(false, Ordering::Acquire) {"))
mut("f35-spsc-outer-loop-removed", ["C17"], "thread-park/in-a-loop-on-a-condition",
    ("src/sync/spsc.rs", "        loop {\n            match self.inner.recv() {\n                Err(TryRecvError::Empty) => {}\n                data => return data.map_err(|_| RecvError),\n            }\n        }",
     "        match self.inner.recv() {\n            Err(TryRecvError::Empty) => self.inner.recv().map_err(|_| RecvError),\n            data => data.map_err(|_| RecvError),\n        }"))

# ---- F36 / F37: revert (the scope functions run the user's closure with their blocking destructor as landing pad)
mut("f36-revert-cqueue-scope-landing-pad", ["C14", "C16"], "no-blocking-landing-pad:Cqueue",
    ("src/cqueue.rs", "        let ret = panic::catch_unwind(panic::AssertUnwindSafe(|| f(&cqueue)));\n        if ret.is_err() {", "        let ret: std::thread::Result<R> = Ok(f(&cqueue));\n        if ret.is_err() {"))
mut("f37-revert-scope-landing-pad", ["C14"], "no-blocking-landing-pad:Scope",
    ("src/scoped.rs", "    let ret = panic::catch_unwind(panic::AssertUnwindSafe(|| f(&scope)));\n", "    let ret: std::thread::Result<R> = Ok(f(&scope));\n"))
mut("f37-scope-skips-joins-when-body-panics", ["C14"], "scope/join-after-body",
    ("src/scoped.rs", "    let dtor_panic = scope.drop_all();\n    match (ret, dtor_panic) {", "    let dtor_panic = if ret.is_ok() { scope.drop_all() } else { None };\n    match (ret, dtor_panic) {"))

# ---- F38 (known finding, unrepaired): the repaired shape must be accepted by the rule that reports it
ben("f38-repair-shape-is-silent", ["C18", "C08"],
    ("src/io/sys/unix/epoll.rs", "        // info!(\"io timeout = {:?}\", dur);\n        // remember when the timer is due before it is armed, see `EventData::store_co`\n        let ns = u64::try_from(timeout.as_nanos()).unwrap_or(u64::MAX);",
     "        let timeout = io.remaining_timeout(timeout);\n        // remember when the timer is due before it is armed, see `EventData::store_co`\n        let ns = u64::try_from(timeout.as_nanos()).unwrap_or(u64::MAX);"),
    ("src/io/sys/unix/mod.rs", "    pub deadline: AtomicU64,\n    pub co: AtomicOption<CoroutineImpl>,", "    pub deadline: AtomicU64,\n    #[cfg(feature = \"io_timeout\")]\n    pub op_deadline: AtomicU64,\n    pub co: AtomicOption<CoroutineImpl>,"),
    ("src/io/sys/unix/mod.rs", "            deadline: AtomicU64::new(0),\n            co: AtomicOption::none(),", "            deadline: AtomicU64::new(0),\n            #[cfg(feature = \"io_timeout\")]\n            op_deadline: AtomicU64::new(0),\n            co: AtomicOption::none(),"),
    ("src/io/sys/unix/mod.rs", "    /// publish the coroutine that blocks on this io.", "    #[cfg(feature = \"io_timeout\")]\n    pub(crate) fn remaining_timeout(&self, timeout: std::time::Duration) -> std::time::Duration {\n        let now = crate::timeout_list::now();\n        match self.op_deadline.load(Ordering::Relaxed) {\n            0 => {\n                let ns = u64::try_from(timeout.as_nanos()).unwrap_or(u64::MAX);\n                self.op_deadline.store(now.saturating_add(ns).max(1), Ordering::Relaxed);\n                timeout\n            }\n            deadline => std::time::Duration::from_millis(deadline.saturating_sub(now).div_ceil(1_000_000)),\n        }\n    }\n\n    /// publish the coroutine that blocks on this io."),
    ("src/io/sys/unix/mod.rs", "    pub fn reset(&self) -> usize {\n        self.io_flag.swap(0, Ordering::AcqRel)", "    pub fn reset(&self) -> usize {\n        #[cfg(feature = \"io_timeout\")]\n        self.op_deadline.store(0, Ordering::Relaxed);\n        self.io_flag.swap(0, Ordering::AcqRel)"))

# ---- benign variants of the F29-F37 repairs (the rules must accept other ways of writing the repaired shape)
ben("f37-nested-match-form", ["C14", "C13"],
    ("src/scoped.rs", "    match (ret, dtor_panic) {\n        (Ok(ret), None) => ret,\n        // the panic of the owner takes precedence, only the first panic is propagated\n        (Err(e), _) | (Ok(_), Some(e)) => panic::resume_unwind(e),\n    }",
     "    match ret {\n        Ok(v) => match dtor_panic {\n            None => v,\n            Some(e) => panic::resume_unwind(e),\n        },\n        Err(e) => panic::resume_unwind(e),\n    }"))
ben("f36-explicit-drop-form", ["C14", "C16"],
    ("src/cqueue.rs", "        ret\n        // the cqueue is dropped here, in place: the select coroutines have a ref to it\n    };\n    ret.unwrap_or_else(|e| panic::resume_unwind(e))",
     "        drop(cqueue);\n        ret\n    };\n    match ret {\n        Ok(v) => v,\n        Err(e) => panic::resume_unwind(e),\n    }"))
ben("f32-budget-strictly-greater-form", ["C01", "C17"],
    ("src/scheduler.rs", "                    if ticks >= IO_POLL_INTERVAL {\n                        return self.yield_to_selector(id);\n                    }\n                    continue 'work;\n                }\n                None => {",
     "                    if ticks > IO_POLL_INTERVAL - 1 {\n                        self.yield_to_selector(id);\n                        return;\n                    }\n                    continue 'work;\n                }\n                None => {"))
ben("f29-remaining-time-form", ["C08"],
    ("src/timeout_list.rs", "                    let elapsed = now().saturating_sub(start);\n                    if time > elapsed {\n                        thread::park_timeout(Duration::from_nanos(time - elapsed));\n                    }",
     "                    let left = time.saturating_sub(now().saturating_sub(start));\n                    if left != 0 {\n                        thread::park_timeout(Duration::from_nanos(left));\n                    }"))
ben("f35-load-then-store-form", ["C17", "C02"],
    ("src/io/thread.rs", "        while !done.swap(false, Ordering::Acquire) {\n            std::thread::park();\n        }", "        loop {\n            if done.swap(false, Ordering::Acquire) {\n                break;\n            }\n            std::thread::park();\n        }"))

ben("f27-if-else-guard-form", ["C09", "C12"],
    ("src/park.rs", "            let _g = (!std::thread::panicking()).then(crate::cancel::CancelDisableGuard::new);\n", "            let _g = if std::thread::panicking() {\n                None\n            } else {\n                Some(crate::cancel::CancelDisableGuard::new())\n            };\n"))
ben("f31-if-let-form", ["C15"],
    ("src/local.rs", "            let raw_pointer = match found {\n                Some(p) => p,\n                None => {", "            let raw_pointer = if let Some(p) = found {\n                p\n            } else {\n                {"))
ben("f30-early-return-form", ["C16", "C09"],
    ("src/cqueue.rs", "        if get_co_para().is_some() && !std::thread::panicking() {\n            trigger_cancel_panic();\n        }", "        if get_co_para().is_none() {\n            return;\n        }\n        if std::thread::panicking() {\n            return;\n        }\n        trigger_cancel_panic();"))
ben("f26-guard-let-form", ["C14"],
    ("src/cqueue.rs", "        let res = {\n            let _g = CancelDisableGuard::new();\n            handle.join()\n        };", "        let g = CancelDisableGuard::new();\n        let res = handle.join();\n        drop(g);"))

# ---- F18: revert (nested run while the wait_kernel guard is held)
mut("f18-revert-nested-run-under-guard", ["C01", "C02"], "no-nested-run-under-guard",
    ("src/park.rs", "                drop(g);\n                // here may have recursive call for subscribe", "                let _keep = &g;\n                // here may have recursive call for subscribe"))
ben("f18-schedule-instead-of-nested-run", ["C01", "C02"],
    ("src/park.rs", "                drop(g);\n                // here may have recursive call for subscribe\n                // normally the recursion depth is not too deep\n                run_coroutine(co);",
     "                // hand it to the scheduler instead of running it on top of this frame\n                get_scheduler().schedule(co);"))

# ---- C10: the fetch_update idiom of Semphore::try_wait (accepted as an alternative to the CAS loop) and its broken variants
ben("c10-trywait-fetch-update", ["C10"], ("src/sync/semphore.rs", '        let mut cnt = self.cnt.load(Ordering::SeqCst);\n        while cnt > 0 {\n            match self\n                .cnt\n                .compare_exchange(cnt, cnt - 1, Ordering::SeqCst, Ordering::SeqCst)\n            {\n                Ok(_) => return true,\n                Err(x) => cnt = x,\n            }\n        }\n        false', '        self.cnt\n            .fetch_update(Ordering::SeqCst, Ordering::SeqCst, |cnt| {\n                if cnt > 0 {\n                    Some(cnt - 1)\n                } else {\n                    None\n                }\n            })\n            .is_ok()'))
mut("c10-trywait-fetch-update-takes-at-zero", ["C10"], "cas-only-if-positive", ("src/sync/semphore.rs", '        let mut cnt = self.cnt.load(Ordering::SeqCst);\n        while cnt > 0 {\n            match self\n                .cnt\n                .compare_exchange(cnt, cnt - 1, Ordering::SeqCst, Ordering::SeqCst)\n            {\n                Ok(_) => return true,\n                Err(x) => cnt = x,\n            }\n        }\n        false', '        self.cnt\n            .fetch_update(Ordering::SeqCst, Ordering::SeqCst, |cnt| {\n                if cnt >= 0 {\n                    Some(cnt - 1)\n                } else {\n                    None\n                }\n            })\n            .is_ok()'))
mut("c10-trywait-fetch-update-by-two", ["C10"], "cas-decrements-by-one", ("src/sync/semphore.rs", '        let mut cnt = self.cnt.load(Ordering::SeqCst);\n        while cnt > 0 {\n            match self\n                .cnt\n                .compare_exchange(cnt, cnt - 1, Ordering::SeqCst, Ordering::SeqCst)\n            {\n                Ok(_) => return true,\n                Err(x) => cnt = x,\n            }\n        }\n        false', '        self.cnt\n            .fetch_update(Ordering::SeqCst, Ordering::SeqCst, |cnt| {\n                if cnt > 0 {\n                    Some(cnt - 2)\n                } else {\n                    None\n                }\n            })\n            .is_ok()'))
mut("c10-trywait-fetch-update-relaxed", ["C10"], "trywait-acquire", ("src/sync/semphore.rs", '        let mut cnt = self.cnt.load(Ordering::SeqCst);\n        while cnt > 0 {\n            match self\n                .cnt\n                .compare_exchange(cnt, cnt - 1, Ordering::SeqCst, Ordering::SeqCst)\n            {\n                Ok(_) => return true,\n                Err(x) => cnt = x,\n            }\n        }\n        false', '        self.cnt\n            .fetch_update(Ordering::Relaxed, Ordering::SeqCst, |cnt| {\n                if cnt > 0 {\n                    Some(cnt - 1)\n                } else {\n                    None\n                }\n            })\n            .is_ok()'))
mut("c10-trywait-fetch-update-is-err", ["C10"], "true-only-on-cas-ok", ("src/sync/semphore.rs", '        let mut cnt = self.cnt.load(Ordering::SeqCst);\n        while cnt > 0 {\n            match self\n                .cnt\n                .compare_exchange(cnt, cnt - 1, Ordering::SeqCst, Ordering::SeqCst)\n            {\n                Ok(_) => return true,\n                Err(x) => cnt = x,\n            }\n        }\n        false', '        self.cnt\n            .fetch_update(Ordering::SeqCst, Ordering::SeqCst, |cnt| {\n                if cnt > 0 {\n                    Some(cnt - 1)\n                } else {\n                    None\n                }\n            })\n            .is_err()'))

# ---- F19: revert (CoIo closes its fd before it leaves the selector)
mut("f19-revert-coio-field-order", ["C17"], "drop-order/deregister-before-close",
    ("src/io/sys/unix/co_io.rs", "    io: io_impl::IoData,\n    inner: T,\n", "    inner: T,\n    io: io_impl::IoData,\n"))
mut("f19-tcpstream-field-order", ["C17"], "drop-order/deregister-before-close",
    ("src/net/tcp.rs", "pub struct TcpStream {\n    _io: io_impl::IoData,\n    sys: net::TcpStream,", "pub struct TcpStream {\n    sys: net::TcpStream,\n    _io: io_impl::IoData,"))

# ---- C02
mut("c02-subscribe-check-before-store", ["C02"], "park-slot",
    ("src/park.rs", "        // register the coroutine\n        self.wait_co.store(co);\n\n        // re-check the state, only clear once after resume\n        if self.state.load(Ordering::Acquire) {",
     "        // register the coroutine\n        let st = self.state.load(Ordering::Acquire);\n        self.wait_co.store(co);\n\n        if st {"))
mut("c02-unpark-swap-relaxed", ["C02"], "state-swap",
    ("src/park.rs", "if !self.state.swap(true, Ordering::AcqRel) {", "if !self.state.swap(true, Ordering::Relaxed) {"))
mut("c02-unpark-wake-before-swap", ["C02"], "unpark/publish-then-take",
    ("src/park.rs", "        if !self.state.swap(true, Ordering::AcqRel) {\n            self.wake_up(b_sync);\n        }", "        self.wake_up(b_sync);\n        self.state.swap(true, Ordering::AcqRel);"))
mut("c02-park-no-disarm", ["C02"], "disarm-after",
    ("src/park.rs", "        // remove timer handle\n        self.remove_timeout_handle();\n", "        // remove timer handle\n        if dur.is_none() { self.remove_timeout_handle(); }\n"))
mut("c02-threadpark-notify-without-token", ["C02"], "token-then-notify",
    ("src/sync/blocking.rs", "        if *guard == 0 {\n            *guard = 1;\n            self.cvar.notify_one();\n        }", "        if *guard == 0 {\n            self.cvar.notify_one();\n            *guard = 1;\n        }"))
mut("c02-cancel-take-before-flag", ["C02"], "cancel/publish-then-take",
    ("src/cancel.rs", "        self.state.fetch_or(1, Ordering::Release);\n\n        if let Some(Ok(())) = self.io.cancel() {\n            // successfully canceled\n            return;\n        }\n\n        if let Some(co) = self.co.take() {",
     "        if let Some(Ok(())) = self.io.cancel() {\n            self.state.fetch_or(1, Ordering::Release);\n            return;\n        }\n        let taken = self.co.take();\n        self.state.fetch_or(1, Ordering::Release);\n        if let Some(co) = taken {"))
ben("c02-park-if-let-to-match", ["C02"],
    ("src/park.rs", "            if let Some(co) = self.wait_co.take() {\n                // we own the coroutine again", "            let back = self.wait_co.take();\n            if let Some(co) = back {\n                // we own the coroutine again"))

# ---- C05
mut("c05-count-before-enqueue", ["C05"], "enqueue-then-count",
    ("src/sync/mutex.rs", "            self.to_wake.push(cur.clone());\n            // inc the cnt, if it's the first grab, unpark the first waiter\n            if self.cnt.fetch_add(1, Ordering::SeqCst) == 0 {",
     "            let first = self.cnt.fetch_add(1, Ordering::SeqCst) == 0;\n            self.to_wake.push(cur.clone());\n            if first {"))
mut("c05-waker-drops-forward", ["C05"], "waker/release-forwards",
    ("src/sync/mutex.rs", "    fn unpark_one(&self, w: &SyncBlocker) {\n        w.unpark();\n        if w.take_release() {\n            self.unlock();\n        }\n    }",
     "    fn unpark_one(&self, w: &SyncBlocker) {\n        w.unpark();\n        w.take_release();\n    }"))
mut("c05-panic-before-handshake", ["C05"], "handshake/H",
    ("src/sync/mutex.rs", "                    // check the unpark status\n                    if cur.is_unparked() {\n                        if b_ignore {",
     "                    if !b_ignore {\n                        trigger_cancel_panic();\n                    }\n                    // check the unpark status\n                    if cur.is_unparked() {\n                        if b_ignore {"))
mut("c05-unlock-relaxed", ["C05"], "unlock-release",
    ("src/sync/mutex.rs", "if self.cnt.fetch_sub(1, Ordering::SeqCst) > 1 {", "if self.cnt.fetch_sub(1, Ordering::Relaxed) > 1 {"))
mut("c05-no-recheck-after-set-release", ["C05"], "handshake",
    ("src/sync/mutex.rs", "                        // re-check unpark status\n                        if cur.is_unparked() && cur.take_release() {\n                            if b_ignore {\n                                break;\n                            }\n                            self.unlock();\n                        }",
     ""))
mut("c05-guard-drop-skips-unlock-when-poisoned", ["C05"], "drop-unlocks",
    ("src/sync/mutex.rs", "        self.__lock.poison.done(&self.__poison);\n        self.__lock.unlock();", "        self.__lock.poison.done(&self.__poison);\n        if !self.__lock.poison.get() {\n            self.__lock.unlock();\n        }"))
ben("c05-hoist-blocker", ["C05"],
    ("src/sync/mutex.rs", "    fn unpark_one(&self, w: &SyncBlocker) {\n        w.unpark();\n        if w.take_release() {\n            self.unlock();\n        }\n    }",
     "    fn unpark_one(&self, w: &SyncBlocker) {\n        w.unpark();\n        let released = w.take_release();\n        if released {\n            self.unlock();\n        }\n    }"))


# ---- reverts of the fix: commits (each must make the owning check fire again)
mut("revert-f1-atomic-dur", ["C08", "C18"], "encode/",
    ("src/sync/atomic_dur.rs", "            let ms = d.as_nanos().div_ceil(1_000_000);\n            usize::try_from(ms).unwrap_or(usize::MAX).max(1)", "            d.as_millis() as usize"))
mut("c08-encode-micros-decode-millis", ["C08"], "C-unit-agrees",
    ("src/sync/atomic_dur.rs", "            let ms = d.as_nanos().div_ceil(1_000_000);", "            let ms = d.as_nanos().div_ceil(1_000);"))
mut("revert-f2-try-read-count", ["C12"], "try_read/count-before-guard",
    ("src/sync/rwlock.rs", "        *r += 1;\n        Ok(RwLockReadGuard::new(self)?)", "        let g = RwLockReadGuard::new(self)?;\n        *r += 1;\n        Ok(g)"))
mut("revert-f3-lost-cas-poisoned", ["C12"], "acquired-variants-behind-cas",
    ("src/sync/rwlock.rs", "                Err(_) => Err(TryLockError::WouldBlock),", "                Err(_) => {\n                    if self.poison.get() {\n                        Err(TryLockError::Poisoned(std::sync::PoisonError::new(())))\n                    } else {\n                        Err(TryLockError::WouldBlock)\n                    }\n                }"))
mut("revert-f4-spsc-recheck", ["C07"], "spsc/co-",
    ("src/sync/spsc.rs", "        if !self.queue.queue.is_empty() || self.queue.channels.load(Ordering::Acquire) == 0 {", "        if !self.queue.queue.is_empty() {"))
mut("revert-f5-mpmc-repost", ["C07"], "permit-returned",
    ("src/sync/mpmc.rs", "                0 => {\n                    // we took the disconnect permit, put it back so that\n                    // every other/later receiver would also see it\n                    self.sem.post();\n                    Err(RecvTimeoutError::Disconnected)\n                }", "                0 => Err(RecvTimeoutError::Disconnected),"))
mut("revert-f13-mpmc-try-recv-recheck", ["C07"], "mpmc/try_recv/drain-before-disconnected",
    ("src/sync/mpmc.rs", "            if !self.sem.try_wait() {\n                return Err(TryRecvError::Disconnected);\n            }", "            return Err(TryRecvError::Disconnected);"))
mut("revert-f6-scoped-join-guard", ["C14"], "scope/join-cancel-masked",
    ("src/scoped.rs", "                let _g = CancelDisableGuard::new();\n                handle.join()", "                handle.join()"))
mut("revert-f6-cqueue-drop-guard", ["C14"], "cqueue/drain-cancel-masked",
    ("src/cqueue.rs", "        let _g = CancelDisableGuard::new();\n\n        // run the rest event", "        // run the rest event"))
mut("revert-f10-eventsender-yield-back", ["C15"], "consume-after:EventSender",
    ("src/cqueue.rs", "        if get_co_para().is_some() && !std::thread::panicking() {\n            trigger_cancel_panic();\n        }", "        let _ = trigger_cancel_panic;"))
mut("revert-f10-rawioblock-yield-back", ["C15"], "consume-after:RawIoBlock",
    ("src/io/sys/unix/wait_io.rs", "        // or it would be seen by the next park/io call on this stack\n        get_co_para();", "        // or it would be seen by the next park/io call on this stack"))
mut("revert-f12-spsc-wait-kernel", ["C09"], "wait-kernel-starts-false",
    ("src/sync/spsc.rs", "            wait_kernel: AtomicBool::new(false),", "            wait_kernel: AtomicBool::new(true),"))
mut("revert-f14-mutex-repark", ["C05", "C09"], "H8-no-repark",
    ("src/sync/mutex.rs", "                    // start over with a new blocker\n                    if b_ignore {\n                        continue;\n                    }", "                    if b_ignore {\n                        if cur.park(None).is_ok() {\n                            break;\n                        }\n                        continue;\n                    }"))
mut("revert-f15a-finished-drain", ["C14", "C16"], "cqueue/drain-before-finished",
    ("src/cqueue.rs", "                        match self.ev_queue.pop() {\n                            Some(mut ev) => run_ev!(ev),\n                            None => return Err(PollError::Finished),\n                        }", "                        return Err(PollError::Finished);"))
mut("revert-f15b-check-panic-lock", ["C13"], "cqueue/lock-released-before-join",
    ("src/cqueue.rs", "        let handle = self.selectors.lock().unwrap()[id]\n            .take()\n            .expect(\"join handler not set\");", "        let mut sel = self.selectors.lock().unwrap();\n        let handle = sel[id].take().expect(\"join handler not set\");"),
    ("src/cqueue.rs", "        match res {\n            Ok(_) => {}", "        let _keep = &mut sel;\n        match res {\n            Ok(_) => {}"))
mut("revert-f17-add-timer-wrap", ["C08"], "interval-no-wrap",
    ("src/timeout_list.rs", "        let interval = u64::try_from(dur.as_nanos()).unwrap_or(u64::MAX);", "        let interval = dur.as_nanos() as u64;"))
mut("revert-f17-add-timer-overflow", ["C08"], "expiry-saturates",
    ("src/timeout_list.rs", "        let time = now().saturating_add(interval);", "        let time = now() + interval;"))

# ---- C03 / C04 / C19
mut("c03-mpsc-ready-before-write", ["C03"], "mpsc/write-then-ready",
    ("may_queue/src/mpsc.rs", "            data.value.get().write(MaybeUninit::new(v));\n\n            std::sync::atomic::fence(Ordering::Release);\n            // mark the data ready\n            data.ready.store(1, Ordering::Release);",
     "            std::sync::atomic::fence(Ordering::Release);\n            data.ready.store(1, Ordering::Release);\n            data.value.get().write(MaybeUninit::new(v));"))
mut("c03-mpsc-ready-relaxed-no-fence", ["C03"], "mpsc/ready-store",
    ("may_queue/src/mpsc.rs", "            std::sync::atomic::fence(Ordering::Release);\n            // mark the data ready\n            data.ready.store(1, Ordering::Release);", "            data.ready.store(1, Ordering::Relaxed);"))
mut("c03-mpsc-pop-early-none", ["C03"], "mpsc/none-only-if-empty",
    ("may_queue/src/mpsc.rs", "                if pop_index >= self.push_index() {\n                    return None;\n                } else {\n                    head.get(id)\n                }", "                return None;"))
mut("c03-spsc-publish-before-write", ["C03"], "spsc/write-then-publish",
    ("may_queue/src/spsc.rs", "        // store the data\n        tail.set(push_index, v);\n", "        self.tail.index.store(push_index.wrapping_add(1), Ordering::Release);\n        tail.set(push_index, v);\n"))
mut("c03-spsc-pop-load-relaxed", ["C03"], "spsc/pop-load-acq",
    ("may_queue/src/spsc.rs", "    pub fn pop(&self) -> Option<T> {\n        let index = unsafe { self.head.index.unsync_load() };\n        let push_index = self.tail.index.load(Ordering::Acquire);", "    pub fn pop(&self) -> Option<T> {\n        let index = unsafe { self.head.index.unsync_load() };\n        let push_index = self.tail.index.load(Ordering::Relaxed);"))
ben("c03-spsc-len-load-relaxed", ["C03"],
    ("may_queue/src/spsc.rs", "        let pop_index = self.head.index.load(Ordering::Relaxed);\n        let push_index = self.tail.index.load(Ordering::Acquire);\n        push_index.wrapping_sub(pop_index)", "        let pop_index = self.head.index.load(Ordering::Relaxed);\n        let push_index = self.tail.index.load(Ordering::Relaxed);\n        push_index.wrapping_sub(pop_index)"))
mut("c04-pop-no-wait-loop", ["C04"], "pop/read-behind-publish",
    ("may_queue/src/spmc.rs", "                        while pop_index >= self.tail.index.load(Ordering::Acquire) {\n                            std::thread::sleep(std::time::Duration::from_millis(10));\n                        }\n                    }\n                    // get the data\n                    let v = block.get(id);\n\n                    if block.mark_slots_read(1) {\n                        // we need to free the old block\n                        let _unused_block = unsafe { Box::from_raw(block) };\n                    }\n                    return Some(v);\n                }\n                Err(i) => {\n                    head = i;\n                    backoff.spin();\n                    push_index",
     "                    }\n                    // get the data\n                    let v = block.get(id);\n\n                    if block.mark_slots_read(1) {\n                        // we need to free the old block\n                        let _unused_block = unsafe { Box::from_raw(block) };\n                    }\n                    return Some(v);\n                }\n                Err(i) => {\n                    head = i;\n                    backoff.spin();\n                    push_index"))
mut("c04-push-index-relaxed-no-fence", ["C04"], "tail-index-store",
    ("may_queue/src/spmc.rs", "        // need this to make sure the data is stored before the index is updated\n        std::sync::atomic::fence(Ordering::Release);\n", ""),
    ("may_queue/src/spmc.rs", "        // commit the push\n        self.tail.index.store(new_index, Ordering::Release);", "        // commit the push\n        self.tail.index.store(new_index, Ordering::Relaxed);"))
mut("c19-push-publish-before-prev", ["C19"], "prev-then-publish",
    ("may_queue/src/mpsc_list_v1.rs", "            (*node).prev = prev;\n            (*prev).next.store(node, Ordering::Release);", "            (*prev).next.store(node, Ordering::Release);\n            (*node).prev = prev;"))
mut("c19-push-swap-relaxed", ["C19"], "head-swap",
    ("may_queue/src/mpsc_list_v1.rs", "let prev = self.head.swap(node, Ordering::AcqRel);", "let prev = self.head.swap(node, Ordering::Relaxed);"))
mut("c19-remove-ignores-null-next", ["C19"], "remove/",
    ("may_queue/src/mpsc_list_v1.rs", "            if !next.is_null() {\n                // clear the link bit", "            if true {\n                // clear the link bit"))

# ---- C06 / C07 / C10 / C11 / C16 / C17
mut("c06-mpsc-wake-before-push", ["C06"], "mpsc/push-then-wake",
    ("src/sync/mpsc.rs", "        self.queue.push(t);\n        if let Some(w) = self.to_wake.take() {\n            w.unpark();\n        }\n        Ok(())", "        let w = self.to_wake.take();\n        self.queue.push(t);\n        if let Some(w) = w {\n            w.unpark();\n        }\n        Ok(())"))
mut("c06-mpmc-post-before-push", ["C06"], "mpmc/push-then-post",
    ("src/sync/mpmc.rs", "        self.queue.push(t);\n        self.sem.post();", "        self.sem.post();\n        self.queue.push(t);"))
mut("c07-mpsc-last-sender-no-wake", ["C07"], "mpsc/last-sender-wakes",
    ("src/sync/mpsc.rs", "            1 => self.to_wake.take().map(|w| w.unpark()).unwrap_or(()),", "            1 => {}"))
mut("c10-sem-count-before-enqueue", ["C10"], "enqueue-then-count",
    ("src/sync/semphore.rs", "        self.to_wake.push(cur.clone());\n        // dec the cnt, if it's positive, unpark one waiter\n        if self.cnt.fetch_sub(1, Ordering::SeqCst) > 0 {\n            self.wakeup_one();\n        }",
     "        let late = self.cnt.fetch_sub(1, Ordering::SeqCst) > 0;\n        self.to_wake.push(cur.clone());\n        if late {\n            self.wakeup_one();\n        }"))
mut("c10-syncflag-reset-on-timeout", ["C10"], "flag/writers",
    ("src/sync/sync_flag.rs", "                if err == ParkError::Canceled {\n                    trigger_cancel_panic();\n                }\n                false", "                if err == ParkError::Canceled {\n                    trigger_cancel_panic();\n                }\n                self.cnt.fetch_add(1, Ordering::SeqCst);\n                false"))
mut("c11-unlock-before-enqueue", ["C11"], "enqueue-then-unlock",
    ("src/sync/condvar.rs", "        self.to_wake.push(cur.clone());\n\n        // unlock the mutex to let other continue\n        mutex::unlock_mutex(lock);", "        // unlock the mutex to let other continue\n        mutex::unlock_mutex(lock);\n        self.to_wake.push(cur.clone());"))
mut("c11-early-return-without-enable", ["C11"], "cancel-region-balanced",
    ("src/sync/condvar.rs", "        // drop the parker here without panic!", "        if ret.is_ok() {\n            return ret;\n        }\n        // drop the parker here without panic!"))
mut("c11-barrier-notify-before-generation", ["C11"], "generation-then-notify",
    ("src/sync/barrier.rs", "            lock.generation_id = lock.generation_id.wrapping_add(1);\n            self.cvar.notify_all();", "            self.cvar.notify_all();\n            lock.generation_id = lock.generation_id.wrapping_add(1);"))
mut("c16-subscribe-wake-before-push", ["C16"], "subscribe/push-then-wake",
    ("src/cqueue.rs", "    fn subscribe(&mut self, co: CoroutineImpl) {\n        self.cqueue.ev_queue.push(Event {", "    fn subscribe(&mut self, co: CoroutineImpl) {\n        let w0 = self.cqueue.to_wake.take();\n        if let Some(w) = w0 {\n            w.unpark();\n        }\n        self.cqueue.ev_queue.push(Event {"))
mut("c16-sender-drop-count-before-done", ["C16"], "sender-drop/done-then-count",
    ("src/cqueue.rs", "    fn drop(&mut self) {\n        self.cqueue.ev_queue.push(Event {", "    fn drop(&mut self) {\n        self.cqueue.cnt.fetch_sub(1, Ordering::Release);\n        self.cqueue.cnt.fetch_add(1, Ordering::Release);\n        self.cqueue.ev_queue.push(Event {"))
mut("c17-socket-write-clear-after-syscall", ["C17"], "done",
    ("src/io/sys/unix/net/socket_write.rs", "            // clear the io_flag\n            self.io_data.io_flag.store(0, Ordering::Relaxed);\n", ""),
    ("src/io/sys/unix/net/socket_write.rs", "            if self.io_data.io_flag.load(Ordering::Relaxed) != 0 {", "            if self.io_data.io_flag.swap(0, Ordering::Relaxed) != 0 {"))
mut("c17-udp-recv-subscribe-no-recheck", ["C17"], "subscribe:UdpRecvFrom",
    ("src/io/sys/unix/net/udp_recv_from.rs", "        if io_data.io_flag.load(Ordering::Acquire) != 0 {\n            #[allow(clippy::needless_return)]\n            return io_data.fast_schedule();\n        }\n", ""))
mut("c17-add-fd-no-epollout", ["C17"], "epoll/add-fd",
    ("src/io/sys/unix/epoll.rs", "            EpollFlags::EPOLLIN\n                | EpollFlags::EPOLLOUT\n                | EpollFlags::EPOLLRDHUP\n                | EpollFlags::EPOLLET,", "            EpollFlags::EPOLLIN | EpollFlags::EPOLLRDHUP | EpollFlags::EPOLLET,"))
mut("c18-timeout-handler-ignores-null", ["C18"], "handler/only-if-armed",
    ("src/io/sys/unix/mod.rs", "    if data.event_data.is_null() {\n        return;\n    }\n", "    if data.event_data.is_null() {\n        log::trace!(\"stale io timer\");\n    }\n"))
mut("c09-sleep-no-cancel-recheck", ["C09"], "cancel-registration:Sleep",
    ("src/sleep.rs", "        // re-check the cancel status\n        if cancel.is_canceled() {\n            unsafe { cancel.cancel() };\n        }", ""))
mut("c09-poison-ignores-cancel", ["C09", "C13"], "no-poison-on-cancel",
    ("src/sync/poison.rs", "            if !is_canceled {\n                self.failed.store(1, Ordering::Relaxed);\n            }", "            let _ = is_canceled;\n            self.failed.store(1, Ordering::Relaxed);"))
mut("c13-write-guard-skips-unlock-when-poisoning", ["C13", "C12"], "rw-guard-drop-unlocks|write-guard-drop-unlocks",
    ("src/sync/rwlock.rs", "        self.__lock.poison.done(&self.__poison);\n        self.__lock.write_unlock();", "        self.__lock.poison.done(&self.__poison);\n        if !self.__lock.poison.get() {\n            self.__lock.write_unlock();\n        }"))
ben("c14-scope-drop-no-join-after-f37", ["C14", "C13"],
    ("src/scoped.rs", "        // `scope` has already run all the dtors\n        self.drop_all();", "        // `scope` has already run all the dtors"))
mut("c14-scope-landing-pad-and-no-join-in-drop", ["C14"], "scope/",
    ("src/scoped.rs", "    let ret = panic::catch_unwind(panic::AssertUnwindSafe(|| f(&scope)));\n", "    let ret: std::thread::Result<R> = Ok(f(&scope));\n"),
    ("src/scoped.rs", "        // `scope` has already run all the dtors\n        self.drop_all();", "        // `scope` has already run all the dtors"))
mut("c15-check-cancel-no-consume", ["C15", "C09"], "check-cancel-always-consumes|consume-before-panic",
    ("src/cancel.rs", "            // this would affect future new coroutine that reuse the instance\n            get_co_para();\n", "            // this would affect future new coroutine that reuse the instance\n"))

# ---- benign edits
ben("ben-mutex-unlock-seqcst-fence", ["C05"],
    ("src/sync/mutex.rs", "        self.__lock.unlock();\n        // after release the lock we should sync the mem\n        fence(Ordering::SeqCst);", "        fence(Ordering::SeqCst);\n        self.__lock.unlock();\n        // after release the lock we should sync the mem\n        fence(Ordering::SeqCst);"))
ben("ben-sem-hoist-cur", ["C10"],
    ("src/sync/semphore.rs", "            .map(|w| {\n                w.unpark();\n                if w.take_release() {\n                    self.post();\n                }\n            })", "            .map(|w| {\n                w.unpark();\n                let rel = w.take_release();\n                if rel {\n                    self.post();\n                }\n            })"))
ben("ben-mpsc-send-log", ["C06", "C07"],
    ("src/sync/mpsc.rs", "        self.queue.push(t);\n        if let Some(w) = self.to_wake.take() {", "        self.queue.push(t);\n        log::trace!(\"pushed\");\n        if let Some(w) = self.to_wake.take() {"))
ben("ben-join-state-seqcst-loads", ["C01", "C14"],
    ("src/join.rs", "        !self.join.state.load(Ordering::Acquire)", "        !self.join.state.load(Ordering::SeqCst)"))
ben("ben-spsc-release-via-fence", ["C03"],
    ("may_queue/src/spsc.rs", "        self.tail.index.store(new_index, Ordering::Release);", "        std::sync::atomic::fence(Ordering::Release);\n        self.tail.index.store(new_index, Ordering::Relaxed);"))


mut("revert-f9-cancel-leaves-timer", ["C18"], "taker/disarms-timer",
    ("src/io/sys/unix/cancel.rs", "                #[cfg(feature = \"io_timeout\")]\n                let co = match e.del_timer(co) {\n                    Some(co) => co,\n                    None => return Some(Ok(())), // scheduled by the selector thread\n                };\n", ""))
mut("revert-f8-park-deadline-recheck", ["C02"], "deadline-recheck",
    ("src/park.rs", "        if deadline.is_some_and(|t| now() >= t) {\n            if let Some(mut co) = self.wait_co.take() {\n                set_co_para(&mut co, io::Error::new(ErrorKind::TimedOut, \"timeout\"));\n                return get_scheduler().schedule(co);\n            }\n        }\n", "        let _ = (deadline, now(), io::ErrorKind::TimedOut, set_co_para as fn(&mut CoroutineImpl, io::Error));\n"))
mut("revert-f8-io-raw-store", ["C18"], "arm-publish/uses-store-co:SocketRead",
    ("src/io/sys/unix/net/socket_read.rs", "        io_data.store_co(co);", "        io_data.co.store(co);"))
mut("revert-f11-remove-on-foreign-thread", ["C18"], "del-timer/remove-only-on-owner-thread",
    ("src/io/sys/unix/mod.rs", "        if crate::scheduler::WORKER_ID.get() == id {\n            // it's safe to remove the timer", "        if id < usize::MAX {\n            // it's safe to remove the timer"))
mut("revert-f11-fast-schedule-direct-remove", ["C18", "C19"], "entry-remove-callers",
    ("src/io/sys/unix/mod.rs", "        #[cfg(feature = \"io_timeout\")]\n        let co = match self.del_timer(co) {\n            Some(co) => co,\n            None => return, // passed to the selector thread together with the timer\n        };\n\n        // run the coroutine",
     "        #[cfg(feature = \"io_timeout\")]\n        if let Some(h) = self.timer.borrow_mut().take() {\n            unsafe { h.with_mut_data(|value| value.data.event_data = std::ptr::null_mut()) };\n            h.remove();\n        }\n\n        // run the coroutine"))


mut("c01-collect-global-drops-overflow", ["C01"], "no-silent-drop",
    ("src/scheduler.rs", "            v = global.bulk_pop();\n        }\n    }", "            v = global.bulk_pop();\n            if v.len() > 48 {\n                drop(v.pop());\n            }\n        }\n    }"))
mut("c01-atomic-option-peek", ["C01", "C02"], "surface",
    ("src/sync/atomic_option.rs", "    #[inline]\n    pub fn clear(&self) {", "    #[inline]\n    pub fn is_some(&self) -> bool {\n        let v = self.inner.take();\n        let r = v.is_some();\n        if let Some(v) = v {\n            self.inner.store(Some(v));\n        }\n        r\n    }\n\n    #[inline]\n    pub fn clear(&self) {"))

MUTANTS = M
BENIGN = B
