"""C09 — cancellation stops the target, cleans up, never corrupts what it waited on (structural clauses)."""
from lib import *
from props import shared
from props.shared import *

EXPLANATION = ("R-ORDER in Cancel::cancel / yield_with / check_cancel; R-SIB cancel registration of every EventSource::subscribe "
               "(enumerated from the impl list: register with set_co/set_io after publishing the coroutine, then re-check "
               "is_canceled, true edge calls cancel(), or be in the non-cancellable table); R-SIB forwarding handshake of all "
               "five waiters and their wakers; R-WHO callers of trigger_cancel_panic; R-EXIT no poisoning by a cancel unwind; "
               "a Park that never entered the kernel is droppable (wait_kernel starts false)")
EXPLANATION_2 = ('CancelImpl.state encoding (bit 0 / +2 per disable; is_canceled == 1, is_disabled >= 2), set_co/clear forwarding, Coroutine::cancel forwarding, Mutex cancel arm, blocker wiring; a destructor that yields is cancel-masked (F27); the wait is registered with the Cancel before the coroutine is published (F34, known finding)')
NOT_DECIDED = "that every stack value is dropped once (Rust unwinding, trusted); progress of the other actors over all interleavings"
CONFIGS_QUICK = ["default"]
CONFIGS_THOROUGH = ["default", "nosteal", "bare"]

C = "may::cancel::CancelImpl"
ES = "may::coroutine_impl::EventSource"

NON_CANCELLABLE = {
    # impl self type (normalised adt) -> reason
    "may::yield_now::Yield": "re-queued at once",
    "may::coroutine_impl::Done": "the coroutine has finished",
    "may::cqueue::EventSender": "the bottom half must run; cancel is checked in send() before yielding",
    "may::sync::spsc::Park": "spsc receive is not in the property's list of cancellable calls",
    "may::io::sys::net::socket_write::SocketWrite": "writes are not in the property's list",
    "may::io::sys::net::socket_write_vectored::SocketWriteVectored": "writes are not in the property's list",
    "may::io::sys::net::udp_send_to::UdpSendTo": "writes are not in the property's list",
    "may::io::sys::net::unix_send_to::UnixSendTo": "writes are not in the property's list",
}

def check(ctx):
    io_cancel = any(k.startswith("<may::io::sys::cancel::CancelIoImpl as ") for k in ctx.prog.fns)
    # ---- Cancel::cancel
    CC = C + "::cancel"
    ctx.order(CC, atomic("fetch_or", C + ".state"), Call(r"may::cancel::CancelIo::cancel|<.* as may::cancel::CancelIo>::cancel"), "flag-then-io-cancel",
              "the cancel bit is published before the blocked io is kicked (the woken coroutine must see it)")
    ctx.order(CC, atomic("fetch_or", C + ".state"), ao("take", C + ".co"), "flag-then-take",
              "the cancel bit is published before the parked coroutine is taken (a concurrent subscribe re-checks the bit)")
    ctx.must_follow(CC, atomic("fetch_or", C + ".state"), Call(r"may::cancel::CancelIo::cancel|<.* as may::cancel::CancelIo>::cancel", transitive=False), "cancel-always-proceeds",
                    "cancel() always goes on to wake the target after setting the bit, also when the bit was already set: the subscribers' own re-check calls cancel() with the bit set "
                    "(a cancel that landed during registration is delivered by that second call)")
    f = ctx.fn("R-ORDER", CC, "sets-bit-0")
    if f is not None:
        ok = False; site = None
        for pt in ctx.an.sites(f, atomic("fetch_or", C + ".state"), "must"):
            site = pt; ok = const_int(f, f.node(pt)["args"][1]) == 1
        ctx.ob("R-ORDER", CC, "sets-bit-0", ok, "cancel sets bit 0 of the state" if ok else "cancel no longer sets bit 0 of CancelImpl.state", f.where(site))
    # is_canceled is `state == 1` (disabled ⇒ not cancelled)
    f = ctx.fn("R-EXIT", C + "::is_canceled", "is-canceled-eq-1")
    if f is not None:
        ok = False
        for pt in f.points():
            n = f.node(pt)
            if not f.is_term(pt) and n["s"] == "=" and not n["l"]["p"] and n["l"]["l"] == 0:
                o = simplify(trace_rvalue(f, n["rv"], 0))
                if o[0] == "bin" and o[1] == "Eq" and is_call_result(A("load"))(simplify(o[2])) and is_const(1)(simplify(o[3])): ok = True
        ctx.ob("R-EXIT", C + "::is_canceled", "is-canceled-eq-1", ok, "is_canceled() is `state == 1`: a disabled cancel (state ≥ 2) is not observed" if ok else
               "is_canceled() is no longer `state.load() == 1`", f.where())
    # ---- yield_with
    YW = "may::yield_now::yield_with"
    COY = Call(r"generator::(\w+::)*co_yield_with", transitive=False)
    ctx.guarded(YW, COY, call_false(re.escape(C) + "::is_canceled"), "no-yield-when-canceled",
                "a coroutine that is already cancelled does not enter the kernel (it would never be woken)", pred_label="edge `is_canceled()` is false")
    ctx.must_follow(YW, None, Call(re.escape(ES) + "::yield_back|<.* as " + re.escape(ES) + ">::yield_back", transitive=False), "canceled-goes-to-yield-back",
                    "the cancelled short-circuit goes through yield_back (where the Cancel panic is raised)", edge=call_true(re.escape(C) + "::is_canceled"),
                    edge_label="edge `is_canceled()` is true")
    ctx.must_follow(YW, COY, Call(re.escape(ES) + "::yield_back|<.* as " + re.escape(ES) + ">::yield_back", transitive=False), "yield-back-after-resume",
                    "after every resume yield_back runs (cancel check)")
    ctx.must_follow(YW, COY, Call(re.escape(C) + "::clear", transitive=False), "clear-io-after-resume",
                    "after a resume the io cancel registration is cleared (a later cancel must not kick an io the coroutine no longer waits on)")
    # default yield_back checks cancel
    ctx.must_call(ES + "::yield_back", Call(re.escape(C) + "::check_cancel"), "default-yield-back-checks", "the default yield_back raises the Cancel panic")
    # ---- check_cancel
    CK = C + "::check_cancel"
    shared.check_cancel_consumes(ctx)
    ctx.order(CK, Call(r"may::yield_now::get_co_para"), TRIGGER, "consume-before-panic", "the injected result is consumed before the Cancel panic (it must not leak to the next user of the stack)")
    ctx.guarded(CK, TRIGGER, call_false(r"std::thread::panicking"), "no-double-panic", "no Cancel panic while already unwinding", pred_label="edge `thread::panicking()` is false")
    ctx.guarded(CK, TRIGGER, lambda a: a.kind == "cmp" and a.op == "Eq" and is_call_result(A("load"), C + ".state")(a.a) and is_const(1)(a.b),
                "panic-only-if-canceled", "a coroutine that is not cancelled never observes a cancellation", pred_label="edge `state.load() == 1`")
    # ---- cancel registration of every EventSource
    impls = ctx.prog.impls_of(ES)
    if len(impls) < 10:
        ctx.missing("R-SIB", ES, "impl-list", "expected ≥10 EventSource impls, found %d" % len(impls))
    n_cancellable = 0
    for im in impls:
        adt = norm(im.get("self_adt") or im["self_ty"])
        sub = None
        for m in im["methods"]:
            if m["n"] == "subscribe": sub = norm(m["id"])
        if sub is None:
            ctx.missing("R-SIB", adt, "cancel-registration", "impl EventSource for %s has no subscribe" % adt); continue
        f = ctx.prog.fn(sub)
        if f is None:
            ctx.missing("R-SIB", adt, "cancel-registration", "body of %s not found" % sub); continue
        reg = Call(re.escape(C) + "::(set_co|set_io)", transitive=False)
        has_reg = bool(ctx.an.sites(f, reg, "must"))
        if adt in NON_CANCELLABLE:
            ctx.ob("R-SIB", adt, "cancel-registration", True, "non-cancellable by design: %s" % NON_CANCELLABLE[adt], f.where(), nontrivial=False)
            continue
        if not io_cancel and not has_reg and "::io::" in adt:
            ctx.ob("R-SIB", adt, "cancel-registration", True, "io_cancel feature off: io sources are not cancellable in this configuration", f.where(), nontrivial=False)
            continue
        if not has_reg:
            ctx.ob("R-SIB", adt, "cancel-registration", False,
                   "impl EventSource for %s neither registers with the cancel data (set_co/set_io) nor is in the non-cancellable table: "
                   "a coroutine blocked there can not be cancelled" % adt, f.where())
            continue
        n_cancellable += 1
        ok = slot_waiter(ctx, f.id, reg, Call(re.escape(C) + "::is_canceled", transitive=False), call_true(re.escape(C) + "::is_canceled"),
                         Call(re.escape(C) + "::cancel", transitive=False), "cancel-registration:" + adt.rsplit("::", 1)[-1], "%s::subscribe" % adt, "is_canceled() is true")
        # the coroutine is published before the cancel side can reach it
        pub = Call(AO + "(store|some)|may::scheduler::Scheduler::add_timer|may::sync::atomic_option::AtomicOption::some", transitive=True)
        pubs = ctx.an.sites(f, Call(AO + "store|" + AO + "some", transitive=True), "must")
        if not pubs:
            ctx.missing("R-SIB", f.id, "publish-before-register:" + adt.rsplit("::", 1)[-1], "no publication of the coroutine (AtomicOption store/some) found in %s" % f.id)
        elif shared.recheck_takes_own_slot(ctx, f):
            ctx.ob("R-SIB", f.id, "publish-before-register:" + adt.rsplit("::", 1)[-1], True, "the re-check takes the coroutine out of its own slot: the registration does not have to follow the publication", f.where(), nontrivial=False)
        else:
            ctx.order(f.id, Call(AO + "store|" + AO + "some", transitive=True), reg, "publish-before-register:" + adt.rsplit("::", 1)[-1],
                      "%s::subscribe publishes the coroutine before it registers with the cancel data" % adt, rule="R-SIB")
    ctx.ob("R-SIB", ES, "cancellable-count", n_cancellable >= (11 if io_cancel else 2),
           "%d cancellable event sources checked" % n_cancellable, None)
    # ---- handshakes: all five waiters + wakers
    MXL = "may::sync::mutex::Mutex"; RW = "may::sync::rwlock::RwLock"; SE = "may::sync::semphore::Semphore"; SF = "may::sync::sync_flag::SyncFlag"; CV = "may::sync::condvar::Condvar"
    perr = lambda a: variant_of_call(re.escape(SB) + "::park", "Err")(a)
    handshake_waiter(ctx, MXL + "::lock", Call(re.escape(MXL) + "::unlock"), "handshake:Mutex", "lock", perr, exits_kind="trigger+park")
    handshake_waiter(ctx, RW + "::lock", Call(re.escape(RW) + "::unlock"), "handshake:RwLock", "lock", perr, exits_kind="ret")
    handshake_waiter(ctx, SE + "::wait_timeout_impl", Call(re.escape(SE) + "::post"), "handshake:Semphore", "permit", perr, exits_kind="ret+trigger")
    handshake_waiter(ctx, SF + "::wait_timeout_impl", Call(re.escape(SF) + "::fire"), "handshake:SyncFlag", "fired state", perr, exits_kind="ret+trigger")
    handshake_waiter(ctx, CV + "::wait_impl", Call(re.escape(CV) + "::notify_one"), "handshake:Condvar", "notification", call_true(r"std::result::Result::is_err"), exits_kind="ret")
    handshake_waker(ctx, MXL + "::unpark_one", Call(re.escape(MXL) + "::unlock"), "waker:Mutex", "lock")
    handshake_waker(ctx, RW + "::unpark_one", Call(re.escape(RW) + "::unlock"), "waker:RwLock", "lock")
    handshake_waker(ctx, SE + "::wakeup_one", Call(re.escape(SE) + "::post"), "waker:Semphore", "permit")
    handshake_waker(ctx, SF + "::wakeup_all", Call(re.escape(SF) + "::fire"), "waker:SyncFlag", "fired state")
    handshake_waker(ctx, CV + "::notify_one", Call(re.escape(CV) + "::notify_one"), "waker:Condvar", "notification")
    syncblocker_rules(ctx)
    # ---- who may raise the Cancel panic
    ctx.who_may_call(r"may::cancel::trigger_cancel_panic",
                     {CK, MXL + "::lock", RW + "::read", RW + "::write", SE + "::wait_timeout_impl", SF + "::wait_timeout_impl", CV + "::wait", CV + "::wait_timeout",
                      # (F30) the select coroutine whose event was never sent: guarded by the C16 rule yield-back/cancel-panic-only-if-event-not-sent
                      "<may::cqueue::EventSender as may::coroutine_impl::EventSource>::yield_back"},
                     "cancel-panic-callers", "the Cancel panic is raised only by check_cancel, by the five primitives after their handshake and by a select coroutine whose event was not sent", min_callers=8)
    ctx.import_rules("C16", r"^yield-back/cancel-panic-only-if-event-not-sent")
    for fid in (RW + "::read", RW + "::write"):
        ctx.guarded(fid, TRIGGER, lambda a: a.kind == "variant" and a.name == "Canceled", fid.rsplit("::", 1)[-1] + "-panic-only-if-canceled",
                    "%s raises the Cancel panic only when lock() reported Canceled" % fid, pred_label="edge `lock()` is Err(Canceled)")
    ctx.guarded(MXL + "::lock", TRIGGER, lambda a: a.kind == "variant" and a.name == "Canceled", "mutex-panic-only-if-canceled",
                "Mutex::lock raises the Cancel panic only when park reported Canceled", pred_label="edge `park()` is Err(Canceled)")
    for fid in (SE + "::wait_timeout_impl", SF + "::wait_timeout_impl"):
        ctx.guarded(fid, TRIGGER, lambda a: (a.kind == "call" and a.truth is True and (a.name or "").endswith("::eq")) or (a.kind == "variant" and a.name == "Canceled")
                    or (a.kind == "cmp" and a.op == "Eq"),
                    fid.split("::")[-2] + "-panic-only-if-canceled", "%s raises the Cancel panic only for ParkError::Canceled (a timeout returns false)" % fid,
                    pred_label="edge `err == Canceled`")
    # ---- no poisoning by a cancel unwind
    shared.poison_rules(ctx)
    # ---- a Park that never reached the kernel must be droppable: wait_kernel starts false
    for adt, ctor in (("may::park::Park", "may::park::Park::new"), ("may::sync::spsc::Park", "may::sync::spsc::Park::new")):
        f = ctx.fn("R-PAIR", ctor, "wait-kernel-starts-false")
        if f is None: continue
        ok = None; site = None
        for pt in f.points():
            n = f.node(pt)
            if not f.is_term(pt) and n["s"] == "=" and n["rv"]["r"] == "agg" and n["rv"].get("ak") == "adt" and norm(n["rv"]["adt"]) == adt:
                names = n["rv"]["fields"]
                if "wait_kernel" in names:
                    o = simplify(trace_operand(f, n["rv"]["ops"][names.index("wait_kernel")]))
                    site = pt
                    if o[0] == "call" and (o[2] or "").endswith("Atomic::new"):
                        ok = const_int(f, f.term(o[1])["args"][0]) == 0
        if ok is None:
            ctx.missing("R-PAIR", ctor, "wait-kernel-starts-false", "construction of %s with a wait_kernel field not found" % adt)
        else:
            ctx.ob("R-PAIR", ctor, "wait-kernel-starts-false", ok,
                   "%s.wait_kernel starts false: a cancelled coroutine whose yield short-circuits (never enters subscribe) can drop the Park" % adt if ok else
                   "%s.wait_kernel starts true but only subscribe's guard clears it: a coroutine cancelled before it blocks spins forever in Drop (yield_now short-circuits too)" % adt,
                   f.where(site))
    # dependency (seed C09-6): a cancelled first reader must not leave the reader count behind
    ctx.import_rules("C12", r"^read/")
    shared.injected_kinds(ctx)
    shared.cancel_state_encoding(ctx)
    shared.cancel_api_forwarding(ctx)
    shared.mutex_cancel_arm_rules(ctx)
    ctx.import_rules("C02", r"^(sync-blocker|blocker|fast-blocker|thread-park)/")
    ctx.import_rules("C02", r"^canceled-only-if-canceled$|^self-injection$|^injected-kind$")
    ctx.import_rules("C18", r"^io-cancel/")
    shared.drops_do_not_block_unmasked(ctx)
    shared.cancel_registered_before_publish(ctx, only=r"may::park::|may::sleep::|may::sync::fast_blocking::")
    shared.no_blocking_landing_pad(ctx)
    # dependency (seed C09-10): a coroutine that is not cancelled never observes a cancellation - every injected result is consumed by the wait it
    # was injected into (rules owned by C15)
    ctx.import_rules("C15", r"^consume-after:")
