"""Rule instances shared by several properties."""
import re
from lib import *

AO = r"may::sync::atomic_option::AtomicOption::"
ATOM = r"(std|core)::sync::atomic::Atomic::"
MQ_MPSC = r"may_queue::mpsc::Queue::"
SEGQ = r"crossbeam_queue::seg_queue::SegQueue::"

def A(method): return ATOM + method
def ao(method, on=None, **kw): return Call(AO + method, on=on, **kw)
def atomic(method, on=None, **kw): return Call(ATOM + "(" + method + ")", on=on, **kw)

# ------------------------------------------------------------------------------------------------
# Join (C01, C14)

def join_rules(ctx):
    J = "may::join::Join"
    # trigger: publish, then wake
    ctx.order(J + "::trigger", atomic("store", J + ".state"), ao("take", J + ".to_wake"), "publish-then-wake",
              "Join::trigger must publish `state=false` before taking the waiter (else the waiter re-checks a stale flag and parks forever)")
    ctx.order(J + "::trigger", ao("take", J + ".to_wake"), Call(r"may::sync::blocking::Blocker::unpark"), "take-then-unpark",
              "the waiter that is unparked is the one taken from the slot", rule="R-SLOT")
    # wait: register, then re-check
    f = ctx.fn("R-SLOT", J + "::wait", "register-then-recheck")
    if f is not None:
        st = ctx.an.sites(f, ao("store", J + ".to_wake"), "must")
        park = ctx.an.sites(f, Call(r"may::sync::blocking::Blocker::park"), "may")
        if not st or not park:
            ctx.missing("R-SLOT", J + "::wait", "register-then-recheck", "no to_wake.store / Blocker::park in Join::wait")
        else:
            # every park is reached only through (store, then a `state` load whose true edge leads to park)
            ok = True
            for p in sorted(park):
                # a state load after the store must lie on every path store -> park
                loads = ctx.an.sites(f, atomic("load", J + ".state"), "must")
                starts = []
                for s in st: starts.extend(ctx.an.after(f, s))
                r = ctx.an.reach(f, starts, blocked=loads)
                if p in r:
                    ok = False
                    pa = ctx.an.path(f, starts, [p], blocked=loads)
                    ctx.ob("R-SLOT", J + "::wait", "register-then-recheck", False,
                           "Join::wait parks after registering without re-reading `state` (a trigger between the first check and the registration is lost)",
                           f.where(p), detail=ctx.an.fmt_path(f, pa))
                # and the store precedes the park
                r0 = ctx.an.reach(f, [Point(0, 0)], blocked=st)
                if p in r0:
                    ok = False
                    ctx.ob("R-SLOT", J + "::wait", "register-then-recheck", False,
                           "Join::wait parks without having registered in `to_wake`", f.where(p))
            if ok:
                ctx.ob("R-SLOT", J + "::wait", "register-then-recheck", True,
                       "Join::wait: to_wake.store precedes every park and a `state` load lies between them", f.where(sorted(st)[0]))
    # park only on the state==true edge of the re-check
    ctx.guarded(J + "::wait", Call(r"may::sync::blocking::Blocker::park"), call_true(A("load"), J + ".state"),
                "park-behind-recheck", "Join::wait may park only when the re-check still sees `state == true`",
                pred_label="edge `state.load()` is true", rule="R-SLOT")
    # R-EXIT: return only after having seen state == false, with no park after that observation
    ctx.guarded(J + "::wait", Ev("ret"), call_false(A("load"), J + ".state"), "return-only-when-done",
                "Join::wait must return only after observing `state == false` (join()/wait() must not report completion early; "
                "park() can return early for a cancelled or unwinding coroutine)",
                invalidate=Call(r"may::sync::blocking::Blocker::park"),
                pred_label="edge `state.load()` is false")
    # R-MO
    ctx.mo_floor(J + ".state", ("store",), "REL", "state-store", "result/packet writes must be visible to the joiner",
                 only_in=r"may::join::Join::trigger")
    ctx.mo_floor(J + ".state", ("load",), "ACQ", "state-load", "the joiner must see the packet written before trigger", min_sites=3)
    # JoinHandle::join takes the packet only after wait
    ctx.order("may::join::JoinHandle::join", Call(J + "::wait"), ao("take"), "wait-then-take",
              "join() reads the result slot only after wait() returned")
    ctx.order("may::join::JoinHandle::wait", Call(J + "::wait"), Ev("ret"), "wait-delegates",
              "JoinHandle::wait delegates to Join::wait")
    # is_done is `!state.load(Acquire)`
    f = ctx.fn("R-EXIT", "may::join::JoinHandle::is_done", "is-done-negates-state")
    if f is not None:
        ok = False; site = None
        for pt in f.points():
            n = f.node(pt)
            if not f.is_term(pt) and n["s"] == "=" and not n["l"]["p"] and n["l"]["l"] == 0:
                o = simplify(trace_rvalue(f, n["rv"], 0))
                if o[0] == "un" and o[1] == "Not":
                    inner = simplify(o[2])
                    if inner[0] == "call" and re.fullmatch(A("load"), inner[2] or "") and receiver_leaf(f, f.term(inner[1])) == J + ".state":
                        ok = True; site = pt
        ctx.ob("R-EXIT", "may::join::JoinHandle::is_done", "is-done-negates-state", ok,
               "is_done() returns exactly `!state.load()`" if ok else "is_done() is not `!state.load()` any more: it could report completion early", f.where(site))

# ------------------------------------------------------------------------------------------------
# scheduler ownership chain (C01, C04)

def worker_queue_confinement(ctx):
    S = "may::scheduler::Scheduler"
    SEL = "may::io::sys::select::Selector"
    rule = "R-WHO"
    work_steal = ctx.prog.fn(S + "::schedule_with_id") is not None and \
        any("spmc" in (callee_name(f.node(pt)) or "") or "crossbeam" in (callee_name(f.node(pt)) or "")
            for f in [ctx.prog.fn(S + "::schedule_with_id")] for pt in f.points() if f.is_term(pt) and f.node(pt)["t"] == "call")
    allowed = {
        S + "::schedule_with_id": {S + "::schedule", SEL + "::select"},
        S + "::collect_global": {S + "::run_queued_tasks", SEL + "::select"},
        S + "::run_queued_tasks": {SEL + "::select"},
        SEL + "::select": {"may::io::event_loop::EventLoop::run"},
        "may::io::event_loop::EventLoop::run": {"may::scheduler::init_scheduler"},
    }
    for callee_id, allow in allowed.items():
        cs = ctx.callers_of(re.escape(callee_id))
        if not cs:
            # schedule_with_id has no selector caller without work stealing; but every link must have ≥1 caller
            ctx.missing(rule, callee_id, "callers", "no caller of %s found" % callee_id)
            continue
        for gid, sites in sorted(cs.items()):
            base = gid.split("::{closure#")[0]
            okc = base in allow
            for (g, pt, cid) in sites:
                ctx.fns_touched.add(g.id)
                if not okc:
                    ctx.ob(rule, callee_id, "caller:" + gid, False,
                           "%s touches the single-owner per-worker queue of worker `id`; it may be called only from %s, but %s calls it"
                           % (callee_id, sorted(allow), gid), g.where(pt))
                    continue
                # provenance of the id argument: last argument
                t = g.node(pt)
                ida = t["args"][-1]
                if callee_id.endswith("::select"):
                    ida = t["args"][2]
                o = simplify(trace_operand(g, ida))
                good = False; how = fmt_origin(o)
                if o[0] == "arg":
                    nm = g.local_name(o[1])
                    good = True; how = "own parameter `%s`" % nm
                    # the parameter must itself be an id parameter of a function in the chain
                    if base not in allowed and base != S + "::schedule":
                        good = False
                elif o[0] == "call" and o[2] == "std::thread::LocalKey::get":
                    ct = g.term(o[1])
                    ro = simplify(trace_operand(g, ct["args"][0]))
                    while ro[0] in ("ref", "deref"): ro = ro[1]
                    if ro[0] == "const" and "may::scheduler::WORKER_ID" in (ro[3] if len(ro) > 3 else ()):
                        good = True; how = "WORKER_ID.get()"
                        # and it must be behind the `!= usize::MAX` edge
                elif o[0] == "field" and o[2].startswith("closure:") and base == "may::scheduler::init_scheduler":
                    good = True; how = "captured loop variable of the worker spawn loop"
                ctx.ob(rule, callee_id, "caller:%s/id-provenance" % gid, good,
                       "%s is called from %s with id = %s%s" % (callee_id, gid, how, "" if good else
                       " — not the caller's own worker id: two threads could use the single-producer side of one run queue"), g.where(pt))
    # EventLoop::run publishes its id into WORKER_ID before selecting
    f = ctx.fn(rule, "may::io::event_loop::EventLoop::run", "worker-id-set")
    if f is not None:
        def sets_own_id(g, pt, t):
            ro = simplify(trace_operand(g, t["args"][0]))
            while ro[0] in ("ref", "deref"): ro = ro[1]
            if not (ro[0] == "const" and "may::scheduler::WORKER_ID" in (ro[3] if len(ro) > 3 else ())):
                return False
            v = simplify(trace_operand(g, t["args"][1]))
            return v[0] == "arg"
        ctx.order("may::io::event_loop::EventLoop::run", Call(r"std::thread::LocalKey::set", where=sets_own_id, label="WORKER_ID.set(id)"),
                  Call(re.escape(SEL) + "::select"), "worker-id-set", "the worker stores its own id into WORKER_ID before it runs any coroutine", rule=rule)
    # schedule(): schedule_with_id only behind `id != usize::MAX`
    ctx.guarded(S + "::schedule", Call(re.escape(S) + "::schedule_with_id"),
                lambda a: a.kind == "cmp" and a.op == "Ne", "local-only-on-worker",
                "Scheduler::schedule uses the local queue only on a worker thread (WORKER_ID != usize::MAX)", rule=rule,
                pred_label="edge `id != usize::MAX`")

def global_handoff(ctx):
    S = "may::scheduler::Scheduler"
    for fn in ("schedule_global", "schedule_global_with_id"):
        fid = S + "::" + fn
        ctx.order(fid, Call(MQ_MPSC + "push", on=S + ".global_queues"), Call(r"may::io::sys::select::Selector::wakeup"),
                  "push-then-wakeup", "a coroutine handed to another worker is queued before that worker is signalled")
        f = ctx.prog.fn(fid)
        if f is None: continue
        # same target index for the queue and the wakeup
        qidx = None; widx = None; wpt = None
        for pt in f.points():
            if not f.is_term(pt): continue
            t = f.node(pt)
            if t["t"] != "call": continue
            nm = callee_name(t) or ""
            if re.fullmatch(MQ_MPSC + "push", nm):
                o = simplify(trace_operand(f, t["args"][0]))
                while o[0] in ("ref", "deref"): o = o[1]
                if o[0] == "index": qidx = o[2]
            if nm == "may::io::sys::select::Selector::wakeup":
                widx = simplify(trace_operand(f, t["args"][1])); wpt = pt
        ok = qidx is not None and widx is not None and qidx == widx
        ctx.ob("R-ORDER", fid, "same-target", ok,
               "queue index and wakeup target are the same value (%s)" % (fmt_origin(widx) if widx else "?") if ok else
               "the worker that is woken (%s) is not the one whose global queue received the coroutine (%s)" %
               (fmt_origin(widx) if widx else "?", fmt_origin(qidx) if qidx else "?"), f.where(wpt))
