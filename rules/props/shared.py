"""Rule instances shared by several properties."""
import re
from lib import *

AO = r"may::sync::atomic_option::AtomicOption::"
ATOM = r"(std|core)::sync::atomic::Atomic::"
MQ_MPSC = r"may_queue::mpsc::Queue::"
SEGQ = r"crossbeam(::crossbeam_queue|_queue)(::seg_queue)?::SegQueue::"

def A(method): return ATOM + method
def ao(method, on=None, **kw): return Call(AO + method, on=on, **kw)
def atomic(method, on=None, **kw): return Call(ATOM + "(" + method + ")", on=on, **kw)

# ------------------------------------------------------------------------------------------------
# Join (C01, C14)

def join_rules(ctx):
    J = "may::join::Join"
    # trigger: publish, then wake
    ctx.order(J + "::trigger", atomic("store", J + ".state"), ao("take", J + ".to_wake"), "publish-then-wake",
              "Join::trigger must publish `state=false` before taking the waiter (else the waiter re-checks a stale flag and parks forever)")
    ctx.order(J + "::trigger", ao("take", J + ".to_wake"), Call(r"may::sync::blocking::Blocker::unpark"), "take-then-unpark",
              "the waiter that is unparked is the one taken from the slot", rule="R-SLOT")
    # wait: register, then re-check
    f = ctx.fn("R-SLOT", J + "::wait", "register-then-recheck")
    if f is not None:
        st = ctx.an.sites(f, ao("store", J + ".to_wake"), "must")
        park = ctx.an.sites(f, Call(r"may::sync::blocking::Blocker::park"), "may")
        if not st or not park:
            ctx.missing("R-SLOT", J + "::wait", "register-then-recheck", "no to_wake.store / Blocker::park in Join::wait")
        else:
            # every park is reached only through (store, then a `state` load whose true edge leads to park)
            ok = True
            for p in sorted(park):
                # a state load after the store must lie on every path store -> park
                loads = ctx.an.sites(f, atomic("load", J + ".state"), "must")
                starts = []
                for s in st: starts.extend(ctx.an.after(f, s))
                r = ctx.an.reach(f, starts, blocked=loads)
                if p in r:
                    ok = False
                    pa = ctx.an.path(f, starts, [p], blocked=loads)
                    ctx.ob("R-SLOT", J + "::wait", "register-then-recheck", False,
                           "Join::wait parks after registering without re-reading `state` (a trigger between the first check and the registration is lost)",
                           f.where(p), detail=ctx.an.fmt_path(f, pa))
                # and the store precedes the park
                r0 = ctx.an.reach(f, [Point(0, 0)], blocked=st)
                if p in r0:
                    ok = False
                    ctx.ob("R-SLOT", J + "::wait", "register-then-recheck", False,
                           "Join::wait parks without having registered in `to_wake`", f.where(p))
            if ok:
                ctx.ob("R-SLOT", J + "::wait", "register-then-recheck", True,
                       "Join::wait: to_wake.store precedes every park and a `state` load lies between them", f.where(sorted(st)[0]))
    # park only on the state==true edge of the re-check
    ctx.guarded(J + "::wait", Call(r"may::sync::blocking::Blocker::park"), call_true(A("load"), J + ".state"),
                "park-behind-recheck", "Join::wait may park only when the re-check still sees `state == true`",
                pred_label="edge `state.load()` is true", rule="R-SLOT")
    # R-EXIT: return only after having seen state == false, with no park after that observation
    ctx.guarded(J + "::wait", Ev("ret"), call_false(A("load"), J + ".state"), "return-only-when-done",
                "Join::wait must return only after observing `state == false` (join()/wait() must not report completion early; "
                "park() can return early for a cancelled or unwinding coroutine)",
                invalidate=Call(r"may::sync::blocking::Blocker::park"),
                pred_label="edge `state.load()` is false")
    # R-MO
    ctx.mo_floor(J + ".state", ("store",), "REL", "state-store", "result/packet writes must be visible to the joiner",
                 only_in=r"may::join::Join::trigger")
    ctx.mo_floor(J + ".state", ("load",), "ACQ", "state-load", "the joiner must see the packet written before trigger", min_sites=3)
    # JoinHandle::join takes the packet only after wait
    ctx.order("may::join::JoinHandle::join", Call(J + "::wait"), ao("take"), "wait-then-take",
              "join() reads the result slot only after wait() returned")
    ctx.order("may::join::JoinHandle::wait", Call(J + "::wait"), Ev("ret"), "wait-delegates",
              "JoinHandle::wait delegates to Join::wait")
    # is_done is `!state.load(Acquire)`
    f = ctx.fn("R-EXIT", "may::join::JoinHandle::is_done", "is-done-negates-state")
    if f is not None:
        ok = False; site = None
        for pt in f.points():
            n = f.node(pt)
            if not f.is_term(pt) and n["s"] == "=" and not n["l"]["p"] and n["l"]["l"] == 0:
                o = simplify(trace_rvalue(f, n["rv"], 0))
                if o[0] == "un" and o[1] == "Not":
                    inner = simplify(o[2])
                    if inner[0] == "call" and re.fullmatch(A("load"), inner[2] or "") and receiver_leaf(f, f.term(inner[1])) == J + ".state":
                        ok = True; site = pt
        ctx.ob("R-EXIT", "may::join::JoinHandle::is_done", "is-done-negates-state", ok,
               "is_done() returns exactly `!state.load()`" if ok else "is_done() is not `!state.load()` any more: it could report completion early", f.where(site))

# ------------------------------------------------------------------------------------------------
# scheduler ownership chain (C01, C04)

def worker_queue_confinement(ctx):
    S = "may::scheduler::Scheduler"
    SEL = "may::io::sys::select::Selector"
    rule = "R-WHO"
    work_steal = ctx.prog.fn(S + "::schedule_with_id") is not None and \
        any("spmc" in (callee_name(f.node(pt)) or "") or "crossbeam" in (callee_name(f.node(pt)) or "")
            for f in [ctx.prog.fn(S + "::schedule_with_id")] for pt in f.points() if f.is_term(pt) and f.node(pt)["t"] == "call")
    allowed = {
        S + "::schedule_with_id": {S + "::schedule", SEL + "::select"},
        S + "::collect_global": {S + "::run_queued_tasks", SEL + "::select"},
        S + "::run_queued_tasks": {SEL + "::select"},
        SEL + "::select": {"may::io::event_loop::EventLoop::run"},
        "may::io::event_loop::EventLoop::run": {"may::scheduler::init_scheduler"},
    }
    for callee_id, allow in allowed.items():
        cs = ctx.callers_of(re.escape(callee_id))
        if not cs:
            # schedule_with_id has no selector caller without work stealing; but every link must have ≥1 caller
            ctx.missing(rule, callee_id, "callers", "no caller of %s found" % callee_id)
            continue
        for gid, sites in sorted(cs.items()):
            base = gid.split("::{closure#")[0]
            okc = base in allow
            for (g, pt, cid) in sites:
                ctx.fns_touched.add(g.id)
                if not okc:
                    ctx.ob(rule, callee_id, "caller:" + gid, False,
                           "%s touches the single-owner per-worker queue of worker `id`; it may be called only from %s, but %s calls it"
                           % (callee_id, sorted(allow), gid), g.where(pt))
                    continue
                # provenance of the id argument: last argument
                t = g.node(pt)
                ida = t["args"][-1]
                if callee_id.endswith("::select"):
                    ida = t["args"][2]
                o = simplify(trace_operand(g, ida))
                good = False; how = fmt_origin(o)
                if o[0] == "arg":
                    nm = g.local_name(o[1])
                    good = True; how = "own parameter `%s`" % nm
                    # the parameter must itself be an id parameter of a function in the chain
                    if base not in allowed and base != S + "::schedule":
                        good = False
                elif o[0] == "call" and o[2] == "std::thread::LocalKey::get":
                    ct = g.term(o[1])
                    ro = simplify(trace_operand(g, ct["args"][0]))
                    while ro[0] in ("ref", "deref"): ro = ro[1]
                    if ro[0] == "const" and "may::scheduler::WORKER_ID" in (ro[3] if len(ro) > 3 else ()):
                        good = True; how = "WORKER_ID.get()"
                        # and it must be behind the `!= usize::MAX` edge
                elif o[0] == "field" and o[2].startswith("closure:") and base == "may::scheduler::init_scheduler":
                    good = True; how = "captured loop variable of the worker spawn loop"
                ctx.ob(rule, callee_id, "caller:%s/id-provenance" % gid, good,
                       "%s is called from %s with id = %s%s" % (callee_id, gid, how, "" if good else
                       " — not the caller's own worker id: two threads could use the single-producer side of one run queue"), g.where(pt))
    # EventLoop::run publishes its id into WORKER_ID before selecting
    f = ctx.fn(rule, "may::io::event_loop::EventLoop::run", "worker-id-set")
    if f is not None:
        def sets_own_id(g, pt, t):
            ro = simplify(trace_operand(g, t["args"][0]))
            while ro[0] in ("ref", "deref"): ro = ro[1]
            if not (ro[0] == "const" and "may::scheduler::WORKER_ID" in (ro[3] if len(ro) > 3 else ())):
                return False
            v = simplify(trace_operand(g, t["args"][1]))
            return v[0] == "arg"
        ctx.order("may::io::event_loop::EventLoop::run", Call(r"std::thread::LocalKey::set", where=sets_own_id, label="WORKER_ID.set(id)"),
                  Call(re.escape(SEL) + "::select"), "worker-id-set", "the worker stores its own id into WORKER_ID before it runs any coroutine", rule=rule)
    # schedule(): schedule_with_id only behind `id != usize::MAX`
    ctx.guarded(S + "::schedule", Call(re.escape(S) + "::schedule_with_id"),
                lambda a: a.kind == "cmp" and a.op == "Ne", "local-only-on-worker",
                "Scheduler::schedule uses the local queue only on a worker thread (WORKER_ID != usize::MAX)", rule=rule,
                pred_label="edge `id != usize::MAX`")

def global_handoff(ctx):
    S = "may::scheduler::Scheduler"
    for fn in ("schedule_global", "schedule_global_with_id"):
        fid = S + "::" + fn
        ctx.order(fid, Call(MQ_MPSC + "push", on=S + ".global_queues"), Call(r"may::io::sys::select::Selector::wakeup"),
                  "push-then-wakeup", "a coroutine handed to another worker is queued before that worker is signalled")
        f = ctx.prog.fn(fid)
        if f is None: continue
        # same target index for the queue and the wakeup
        qidx = None; widx = None; wpt = None
        for pt in f.points():
            if not f.is_term(pt): continue
            t = f.node(pt)
            if t["t"] != "call": continue
            nm = callee_name(t) or ""
            if re.fullmatch(MQ_MPSC + "push", nm):
                o = simplify(trace_operand(f, t["args"][0]))
                while o[0] in ("ref", "deref"): o = o[1]
                if o[0] == "index": qidx = o[2]
            if nm == "may::io::sys::select::Selector::wakeup":
                widx = simplify(trace_operand(f, t["args"][1])); wpt = pt
        ok = qidx is not None and widx is not None and qidx == widx
        ctx.ob("R-ORDER", fid, "same-target", ok,
               "queue index and wakeup target are the same value (%s)" % (fmt_origin(widx) if widx else "?") if ok else
               "the worker that is woken (%s) is not the one whose global queue received the coroutine (%s)" %
               (fmt_origin(widx) if widx else "?", fmt_origin(qidx) if qidx else "?"), f.where(wpt))

# ------------------------------------------------------------------------------------------------
# slot helpers (R-SLOT)

def slot_waiter(ctx, fid, store, recheck, cond_pred, selfwake, inst, why, cond_label="re-check sees the condition"):
    """after `store` every path to the exit passes `recheck`; the edge on which the re-check sees
    the waker's condition must lead to `selfwake` (take + resume) before the exit"""
    ok = ctx.must_follow(fid, store, recheck, inst + "/store-then-recheck",
                         why + ": the waiter registers, then re-reads the waker's condition (a waker that published before "
                         "the registration found an empty slot and will not come back)", rule="R-SLOT")
    if selfwake is not None:
        ok &= ctx.must_follow(fid, None, selfwake, inst + "/recheck-true-selfwake",
                              why + ": when the re-check sees the condition the waiter takes itself back out of the slot",
                              rule="R-SLOT", edge=cond_pred, edge_label="edge `%s`" % cond_label)
    return ok

def slot_waker(ctx, fid, publish, take, inst, why):
    return ctx.order(fid, publish, take, inst + "/publish-then-take",
                     why + ": the waker publishes its condition before it takes the waiter out of the slot", rule="R-SLOT")

# ------------------------------------------------------------------------------------------------
# the forwarding handshake (C05, C09, C10, C11, C12)

SB = "may::sync::blocking::SyncBlocker"
IS_UNPARKED = Call(re.escape(SB) + "::is_unparked", transitive=False)
SET_RELEASE = Call(re.escape(SB) + "::set_release", transitive=False)
TAKE_RELEASE = Call(re.escape(SB) + "::take_release", transitive=False)
SB_PARK = Call(re.escape(SB) + "::park", transitive=False)
SB_UNPARK = Call(re.escape(SB) + "::unpark")
TRIGGER = Call(r"may::cancel::trigger_cancel_panic", transitive=False)

def handshake_waiter(ctx, fid, forward, inst, what, err_edge, exits_kind="ret+trigger", rule="R-SIB"):
    """waiter side: on the arm where park returned Err(..): before leaving (trigger_cancel_panic /
    return / looping back to park) the waiter must run
        if is_unparked() { forward } else { set_release(); if is_unparked() && take_release() { forward } }"""
    f = ctx.fn(rule, fid, inst)
    if f is None: return False
    an = ctx.an
    forward = Ev("call", fn=forward.fn.pattern, on=forward.on, label=forward.label, transitive=False)
    iu = an.sites(f, IS_UNPARKED, "must"); sr = an.sites(f, SET_RELEASE, "must"); tr = an.sites(f, TAKE_RELEASE, "must")
    fw = an.sites(f, forward, "must"); pk = an.sites(f, SB_PARK, "may"); tg = an.sites(f, TRIGGER, "may")
    if not (iu and sr and tr and fw and pk):
        ctx.missing(rule, fid, inst, "handshake anchors missing in %s: is_unparked=%d set_release=%d take_release=%d forward(%s)=%d park=%d"
                    % (fid, len(iu), len(sr), len(tr), forward.label, len(fw), len(pk)))
        return False
    def exits(g):
        ex = set()
        if "ret" in exits_kind: ex |= set(g.ret_points())
        if "trigger" in exits_kind: ex |= tg
        if "park" in exits_kind: ex |= pk
        return ex
    ok = True
    # H1: from the Err edge of park every path to an exit passes is_unparked
    ok &= ctx.must_follow(fid, None, IS_UNPARKED, inst + "/H1-check-unparked",
                          "%s: a waiter whose park failed (cancel/timeout) checks whether it was already handed the %s" % (fid, what),
                          rule=rule, edge=err_edge, edge_label="edge `park()` is Err", exits=exits)
    # H2: on an is_unparked()==true edge: forward before leaving (first check), unless the waiter keeps the resource
    # H3: on the first is_unparked()==false edge: set_release then is_unparked again
    # identify first check = is_unparked sites not reachable from a set_release site
    after_sr = an.reach(f, [q for s in sr for q in an.after(f, s)], blocked=pk)
    first = set(s for s in iu if s not in after_sr)
    second = set(s for s in iu if s in after_sr)
    if not first or not second:
        ctx.ob(rule, fid, inst + "/H3-register-then-recheck", False,
               "%s: the cancel/timeout arm no longer has the shape check / set_release / re-check (first=%d, re-check=%d): a %s handed over "
               "between the check and the registration is lost" % (fid, len(first), len(second), what), f.where(sorted(iu)[0]))
        return False
    def edge_of(sites, truth):
        bbs = set(s.bb for s in sites)
        def p(a):
            return a.kind == "call" and a.truth is truth and a.name == SB + "::is_unparked" and a.site in bbs
        return p
    ok &= ctx.must_follow(fid, None, forward, inst + "/H2-unparked-forwards",
                          "%s: a waiter that was already unparked when its park failed passes the %s on" % (fid, what), rule=rule,
                          edge=edge_of(first, True), edge_label="edge first `is_unparked()` is true", exits=exits)
    ok &= ctx.must_follow(fid, None, SET_RELEASE, inst + "/H3-register",
                          "%s: a waiter that was not yet unparked registers the release request" % fid, rule=rule,
                          edge=edge_of(first, False), edge_label="edge first `is_unparked()` is false", exits=exits)
    ok &= ctx.must_follow(fid, SET_RELEASE, IS_UNPARKED, inst + "/H3-recheck",
                          "%s: after registering the release request the waiter re-checks is_unparked (Dekker)" % fid, rule=rule, exits=exits)
    # H4: take_release true -> forward
    ok &= ctx.must_follow(fid, None, forward, inst + "/H4-took-release-forwards",
                          "%s: a waiter that wins take_release() passes the %s on itself" % (fid, what), rule=rule,
                          edge=call_true(re.escape(SB) + "::take_release"), edge_label="edge `take_release()` is true", exits=exits)
    # H5: forward only behind (first is_unparked true) or (take_release true): never when not unparked
    ok &= ctx.guarded(fid, forward, any_of(edge_of(first, True), call_true(re.escape(SB) + "::take_release")), inst + "/H5-forward-only-if-handed",
                      "%s: the %s is passed on only when it was actually handed to this waiter" % (fid, what), rule=rule,
                      pred_label="edge `is_unparked()`/`take_release()` is true", target_mode="must")
    # take_release only behind the re-check true edge
    ok &= ctx.guarded(fid, TAKE_RELEASE, edge_of(second, True), inst + "/H5b-take-only-if-unparked",
                      "%s: the waiter withdraws its release request only when it saw the unpark" % fid, rule=rule,
                      pred_label="edge second `is_unparked()` is true", target_mode="must")
    # H6: never forward twice without parking again
    r = an.reach(f, [q for s in fw for q in an.after(f, s)], blocked=pk)
    dbl = [s for s in fw if s in r]
    ctx.ob(rule, fid, inst + "/H6-forward-once", not dbl,
           "%s: the %s is passed on at most once per failed park" % (fid, what) if not dbl else
           "%s: the %s can be passed on twice after one failed park (duplicated permit/hand-off)" % (fid, what), f.where(sorted(fw)[0]))
    ok &= not dbl
    # H8: never park again on a blocker whose release request is pending: after set_release every
    # path to a park passes SyncBlocker::current() (a fresh blocker)
    fresh = an.sites(f, Call(re.escape(SB) + "::current", transitive=False), "must")
    r8 = an.reach(f, [q for s in sr for q in an.after(f, s)], blocked=fresh)
    again = [p for p in pk if p in r8]
    ctx.ob(rule, fid, inst + "/H8-no-repark-with-pending-release", not again,
           "%s: a waiter that registered a release request never parks again on that blocker" % fid if not again else
           "%s: after set_release() the waiter can park again on the same blocker with the request still pending: the next unlocker wakes it AND "
           "releases on its behalf (two owners / duplicated %s)" % (fid, what), f.where(sorted(sr)[0]),
           detail=an.fmt_path(f, an.path(f, [q for s in sr for q in an.after(f, s)], again, blocked=fresh)) if again else None)
    ok &= not again
    # H7: trigger_cancel_panic only after the handshake
    if tg:
        r0 = an.reach(f, [Point(0, 0)], blocked=iu)
        bad = [t for t in tg if t in r0]
        ctx.ob(rule, fid, inst + "/H7-panic-after-handshake", not bad,
               "%s: trigger_cancel_panic is reached only after the handshake" % fid if not bad else
               "%s: trigger_cancel_panic can be reached without the is_unparked handshake: a %s handed to the cancelled waiter is lost" % (fid, what),
               f.where(sorted(tg)[0]))
        ok &= not bad
    return ok

def _not_own_blocker(g, pt, t):
    """the receiver of this SyncBlocker call is NOT the caller's own blocker (`SyncBlocker::current()`): it is a waiter taken from a queue"""
    if not t["args"]: return True
    o = simplify(trace_operand(g, t["args"][0]))
    for _ in range(6):
        while o[0] in ("ref", "deref", "clone", "field", "downcast", "index", "cast"): o = simplify(o[1])
        if o[0] == "call" and re.search(r"::(deref|as_ref|borrow|clone)$", o[2] or "") and g.term(o[1])["args"]:
            o = simplify(trace_operand(g, g.term(o[1])["args"][0])); continue
        break
    if o[0] == "phi": return not any(x[0] == "call" and (x[2] or "").endswith("SyncBlocker::current") for x in o[2])
    return not (o[0] == "call" and (o[2] or "").endswith("SyncBlocker::current"))

TAKE_RELEASE_W = Call(re.escape(SB) + "::take_release", transitive=False, where=_not_own_blocker)
SB_UNPARK_W = Call(re.escape(SB) + "::unpark", where=_not_own_blocker)

def handshake_waker(ctx, fid, forward, inst, what, rule="R-SIB", forward_required=True):
    """waker side: unpark the waiter, then take_release(); on true pass the thing on.
    The waker body is looked for in `fid` (and its closures); when that helper does not exist (inlined by hand into its callers) every
    function of the same type that calls take_release on a blocker that is not its own is a waker body."""
    f0 = ctx.prog.fn(fid)
    if f0 is not None:
        ctx.fns_touched.add(fid)
        bodies = [g for g in [f0] + ctx.prog.closures_of(f0) if ctx.an.sites(g, TAKE_RELEASE_W, "must")]
    else:
        cont = fid.rsplit("::", 1)[0] + "::"
        bodies = [g for k, g in sorted(ctx.prog.fns.items()) if k.startswith(cont) and ctx.an.sites(g, TAKE_RELEASE_W, "must")]
    if not bodies or (f0 is not None and len(bodies) != 1):
        ctx.missing(rule, fid, inst, "expected a body in %s (or, if it is gone, in its type) calling take_release on a dequeued waiter, found %d" % (fid, len(bodies)))
        return False
    ok = True
    for g in bodies:
        gi = inst if f0 is not None else "%s@%s" % (inst, g.id.rsplit("::", 1)[-1] if "{closure" not in g.id else g.id.split("::")[-2])
        ok &= ctx.order(g.id, SB_UNPARK_W, TAKE_RELEASE_W, gi + "/unpark-then-take-release",
                        "%s: the waker marks the waiter unparked before it looks for a release request (Dekker)" % g.id, rule=rule)
        if forward_required:
            def released(a, g=g):
                return call_true(re.escape(SB) + "::take_release")(a) and a.site is not None and _not_own_blocker(g, None, g.term(a.site))
            ok &= ctx.must_follow(g.id, None, forward, gi + "/release-forwards",
                                  "%s: a waker that finds a release request passes the %s on" % (g.id, what), rule=rule,
                                  edge=released, edge_label="edge `take_release()` is true")
    return ok

def syncblocker_rules(ctx, rule="R-SIB"):
    ctx.order(SB + "::unpark", Call(r"may::sync::blocking::Blocker::unpark"), atomic("store", SB + ".unparked"), "unpark/wake-then-flag",
              "SyncBlocker::unpark wakes, then publishes `unparked` (a waiter that sees the flag has its token)", rule=rule)
    ctx.mo_floor(SB + ".unparked", ("store",), "REL", "unparked-store", "handshake flag")
    ctx.mo_floor(SB + ".unparked", ("load",), "ACQ", "unparked-load", "handshake flag")
    ctx.mo_floor(SB + ".release", ("store",), "REL", "release-store", "handshake flag")
    ctx.mo_floor(SB + ".release", ("swap",), "ACQ", "release-swap", "handshake flag")
    f = ctx.fn(rule, SB + "::take_release", "swap-false")
    if f is not None:
        ok = False; site = None
        for pt in ctx.an.sites(f, atomic("swap", SB + ".release"), "must"):
            site = pt; ok = const_int(f, f.node(pt)["args"][1]) == 0
        ctx.ob(rule, SB + "::take_release", "swap-false", ok, "take_release consumes the request (swap(false)): exactly one side wins" if ok else
               "take_release no longer clears the flag atomically: both sides can forward", f.where(site))
    # SyncBlocker ignores cancel itself (callers handle it): Blocker::new(true)
    f = ctx.fn(rule, SB + "::current", "ignore-cancel")
    if f is not None:
        ok = False; site = None
        for pt in ctx.an.sites(f, Call(r"may::sync::blocking::Blocker::new"), "must"):
            site = pt; ok = const_int(f, f.node(pt)["args"][0]) == 1
        ctx.ob(rule, SB + "::current", "ignore-cancel", ok, "SyncBlocker parks with cancel ignored, so Canceled is reported to the handshake instead of panicking inside park" if ok else
               "SyncBlocker::current no longer creates a cancel-ignoring Blocker: a cancel would panic inside park and skip the forwarding handshake", f.where(site))

# ------------------------------------------------------------------------------------------------
# poison flag (C09, C13)

def poison_rules(ctx):
    C = "may::cancel::CancelImpl"
    FD = "may::sync::poison::Flag::done"
    PST = atomic("store", "may::sync::poison::Flag.failed")
    ctx.guarded(FD, PST, call_true(r"std::thread::panicking"), "poison-only-when-panicking", "a guard poisons only when dropped by a panic", pred_label="edge `thread::panicking()` is true")
    def not_canceled_edge(a):
        if a.kind != "truth" or a.truth is not False: return False
        o = a.origin
        alts = [simplify(x) for x in o[2]] if o[0] == "phi" else [o]
        return any(x[0] == "call" and x[2] == C + "::is_canceled" for x in alts)
    # (in thread context there is no cancel: the `else { false }` arm of `is_canceled` is threaded straight to the store)
    ctx.guarded(FD, PST, any_of(not_canceled_edge, call_false(r"may::coroutine_impl::is_coroutine")), "no-poison-on-cancel", "a guard dropped by a cancellation unwind releases without poisoning", pred_label="edge `is_canceled` is false")
    ctx.must_follow(FD, None, Call(re.escape(C) + "::is_canceled", transitive=False), "coroutine-consults-cancel", "in coroutine context the cancel state is consulted before poisoning",
                    edge=call_true(r"may::coroutine_impl::is_coroutine"), edge_label="edge `is_coroutine()` is true", exits=lambda g: ctx.an.sites(g, PST, "must"))
    def guard_not_panicking(a):
        return a.kind == "truth" and a.truth is False and all_fields(a.origin)[-1:] == ["may::sync::poison::Guard.panicking"]
    ctx.guarded(FD, PST, guard_not_panicking, "poison-only-new-panic", "no poisoning when the guard was created while already panicking", pred_label="edge `guard.panicking` is false")

# ------------------------------------------------------------------------------------------------
# cqueue: drain before Finished (C14, C16)

def cqueue_finished_rules(ctx):
    CQ = "may::cqueue::Cqueue"
    PL = CQ + "::poll"
    f = ctx.fn("R-EXIT", PL, "cqueue/drain-before-finished")
    if f is not None:
        cz = lambda a: a.kind == "cmp" and a.op == "Eq" and is_call_result(A("load"), CQ + ".cnt")(a.a) and is_const(0)(a.b)
        es = ctx.edges(f, cz)
        fin = ctx.an.sites(f, Agg("may::cqueue::PollError", "Finished", transitive=False), "may")
        pops = ctx.an.sites(f, Call(MQ_MPSC + "pop", on=CQ + ".ev_queue", transitive=False), "must")
        if not es or not fin or not pops:
            ctx.missing("R-EXIT", PL, "cqueue/drain-before-finished", "cnt==0 edges=%d Finished=%d pop=%d" % (len(es), len(fin), len(pops)))
        else:
            r = ctx.an.reach(f, [Point(tb, 0) for _, tb, _ in es], blocked=pops)
            bad = [x for x in fin if x in r]
            ctx.ob("R-EXIT", PL, "cqueue/drain-before-finished", not bad,
                   "after seeing cnt == 0 the queue is popped once more before Finished is reported: every Done event (= every join of a selector) is consumed first" if not bad else
                   "poll reports Finished right after seeing cnt == 0: a Done event pushed between the empty pop and the cnt load is skipped, so its selector is not joined and may still be running when the cqueue is freed",
                   f.where(sorted(fin)[0]))
        ctx.mo_floor(CQ + ".cnt", ("fetch_sub",), "REL", "cqueue/cnt-dec-release", "the Done push is visible to the poller that sees the decrement", only_in=r"<may::cqueue::EventSender as std::ops::Drop>::drop")
        ctx.mo_floor(CQ + ".cnt", ("load",), "ACQ", "cqueue/cnt-load-acquire", "", only_in=re.escape(PL))

# ------------------------------------------------------------------------------------------------
# queue index commit rules (C03, C01: the global run queue must not skip or repeat a coroutine)

def queue_commit_rules(ctx):
    MQ = "may_queue::mpsc"; SQ = "may_queue::spsc"
    BP = MQ + "::Queue::bulk_pop"; POP = MQ + "::Queue::pop"
    # the committed pop index equals the end of the range that was copied out (an index jumped past
    # unread slots loses them; an index short of the copied range duplicates them)
    def same_origin_rule(fid, copy_rx, store_on, store_any, inst, what):
        f = ctx.fn("R-ENUM", fid, inst)
        if f is None: return
        ends = [simplify(trace_operand(f, f.node(pt)["args"][2])) for pt in sorted(ctx.an.sites(f, Call(copy_rx, transitive=False), "must"))]
        stores = [(pt, simplify(trace_operand(f, f.node(pt)["args"][1]))) for pt in sorted(ctx.an.sites(f, Call(A("store"), on=store_on, on_any=store_any, transitive=False), "must"))]
        if not ends or not stores:
            ctx.missing("R-ENUM", fid, inst, "copy_to_bulk (%d) / index store (%d) not found" % (len(ends), len(stores))); return
        ok = all(any(v == e for e in ends) for _, v in stores)
        ctx.ob("R-ENUM", fid, inst, ok, "%s: the index committed is exactly the `end` of the copied range" % what if ok else
               "%s commits an index (%s) that is not the end of the range it copied out (%s): slots are skipped (values lost) or re-read (duplicated)" %
               (what, [fmt_origin(v) for _, v in stores], [fmt_origin(e) for e in ends]), f.where(stores[0][0]))
    same_origin_rule(BP, re.escape(MQ) + "::BlockNode::copy_to_bulk", MQ + "::Position.index", None, "mpsc/bulk-commit-equals-range", "mpsc bulk_pop")
    same_origin_rule(SQ + "::Queue::bulk_pop", re.escape(SQ) + "::BlockNode::copy_to_bulk", SQ + "::Position.index", SQ + "::Queue.head", "spsc/bulk-commit-equals-range", "spsc bulk_pop")
    def plus_one_rule(fid, store_on, store_any, inst, what):
        f = ctx.fn("R-ENUM", fid, inst)
        if f is None: return
        ok = False; site = None
        for pt in sorted(ctx.an.sites(f, Call(A("store"), on=store_on, on_any=store_any, transitive=False), "must")):
            v = simplify(trace_operand(f, f.node(pt)["args"][1])); site = pt
            while v[0] == "field" and v[2] == "(tuple)": v = simplify(v[1])
            if v[0] == "bin" and v[1].startswith("Add") and is_const(1)(simplify(v[3])) and simplify(v[2])[0] == "call": ok = True
            if v[0] == "call" and (v[2] or "").endswith("wrapping_add"):
                t = f.term(v[1]); ok = is_const(1)(simplify(trace_operand(f, t["args"][1])))
        ctx.ob("R-ENUM", fid, inst, ok, "%s commits index + 1" % what if ok else "%s no longer commits exactly index + 1" % what, f.where(site))
    plus_one_rule(POP, MQ + "::Position.index", None, "mpsc/pop-commit-plus-one", "mpsc pop")
    plus_one_rule(SQ + "::Queue::pop", SQ + "::Position.index", SQ + "::Queue.head", "spsc/pop-commit-plus-one", "spsc pop")
    plus_one_rule(SPUSH if False else SQ + "::Queue::push", SQ + "::Position.index", SQ + "::Queue.tail", "spsc/push-commit-plus-one", "spsc push")
    # the block-boundary test uses the committed index
    f = ctx.fn("R-ENUM", BP, "mpsc/bulk-boundary-test-uses-commit")
    if f is not None:
        stores = [simplify(trace_operand(f, f.node(pt)["args"][1])) for pt in sorted(ctx.an.sites(f, Call(A("store"), on=MQ + "::Position.index", transitive=False), "must"))]
        ok = False
        for bi in range(f.nblocks()):
            if f.is_cleanup(bi) or f.term(bi)["t"] != "sw": continue
            o = switch_info(f, bi)
            if o[0] == "bin" and o[1] == "Eq" and is_const(0)(simplify(o[3])):
                a = simplify(o[2])
                if a[0] == "bin" and a[1] == "BitAnd" and any(simplify(a[2]) == v for v in stores): ok = True
        ctx.ob("R-ENUM", BP, "mpsc/bulk-boundary-test-uses-commit", ok, "the block is retired iff the committed index is block-aligned" if ok else
               "mpsc bulk_pop's block-boundary test is not on the index it commits", f.where())

# ------------------------------------------------------------------------------------------------
# R-LIN: linear ownership of the suspended coroutine (C01, C02)

def _strip_shared(t):
    out = t
    for head in ("std::sync::Arc<", "std::rc::Rc<", "std::sync::Weak<"):
        while head in out:
            i = out.index(head); j = i + len(head); d = 1
            while j < len(out) and d:
                if out[j] == '<': d += 1
                elif out[j] == '>' and out[j - 1] != '-': d -= 1
                j += 1
            out = out[:i] + "SHARED" + out[j:]
    return out

def owns_coroutine(prog, t, memo=None, depth=0):
    """type string denotes a value that owns (by value, not through Arc/&/raw pointer) a suspended coroutine"""
    memo = memo if memo is not None else {}
    if t in memo: return memo[t]
    if depth > 6: return False
    memo[t] = False
    s = _strip_shared(t).strip()
    r = False
    if s.startswith("&") or s.startswith("*const") or s.startswith("*mut"): r = False
    elif "GeneratorObj" in s or "generator::gen_impl::Generator" in s: r = True
    else:
        for name in set(re.findall(r"(may(?:_queue)?::[\w:]+)", s)):
            a = prog.adts.get(norm(name))
            if a:
                for v in a["variants"]:
                    for fld in v["fields"]:
                        if owns_coroutine(prog, fld["t"], memo, depth + 1): r = True
    memo[t] = r
    return r

# (function, head of the dropped type) -> reason; everything else is a violation
COROUTINE_SINKS = {
    ("may::coroutine_impl::Done::drop_coroutine", "GeneratorObj"): "a finished coroutine whose stack is not recycled (non-default size)",
    ("may::pool::CoroutinePool::put", "GeneratorObj"): "a finished coroutine's stack when the pool is full",
    ("may::scheduler::Scheduler::collect_global", "smallvec::IntoIter"): "the exhausted iterator of a drained batch (every element was moved to the local queue)",
    ("may::scheduler::Scheduler::collect_global", "smallvec::SmallVec"): "the empty batch that ends the drain loop",
    ("may::cqueue::Cqueue::poll", "may::cqueue::Event"): "a Done event (constructed with co: None) or an event whose coroutine was taken by continue_bottom",
    ("<may::cqueue::Cqueue as std::ops::Drop>::drop", "std::result::Result"): "events returned by poll during the final drain (their coroutine was taken by continue_bottom)",
    ("may::cqueue::scope", "may::cqueue::Cqueue"): "the Cqueue itself, whose Drop drains it",
    ("may::io::sys::select::Selector::new", "may::io::sys::select::Selector"): "construction failure: no coroutine exists yet",
    ("may::scheduler::Scheduler::new", "may_queue::spmc::Steal"): "a clone of the shared stealer handle (Arc inside)",
    ("may::scheduler::Scheduler::new", "may::crossbeam_queue_shim::Steal"): "a clone of the shared stealer handle (crossbeam Stealer: Arc inside)",
}

def coroutine_linearity_rules(ctx):
    memo = {}
    seen = set(); n = 0
    for f in sorted(ctx.prog.fns.values(), key=lambda x: x.id):
        if not (f.id.startswith("may::") or f.id.startswith("<may::") or f.id.startswith("<T as may")): continue
        for pt in f.points():
            if not f.is_term(pt): continue
            nd = f.node(pt)
            if nd["t"] == "drop":
                ty = nd["ty"]
            elif nd["t"] == "call" and (callee_name(nd) or "") in ("std::mem::drop", "core::mem::drop", "std::mem::forget", "core::mem::forget") and nd["args"]:
                pl = nd["args"][0].get("m") or nd["args"][0].get("c")
                ty = type_of_place(f, pl) if pl else None
                if ty is None: continue
            else:
                continue
            if not owns_coroutine(ctx.prog, ty, memo): continue
            n += 1
            base = f.id.split("::{closure#")[0]
            head = "GeneratorObj" if ty.startswith("generator::gen_impl::GeneratorObj") else ty.split("<", 1)[0]
            key = (base, head)
            if key in seen: continue
            seen.add(key)
            ok = key in COROUTINE_SINKS
            ctx.fns_touched.add(f.id)
            ctx.ob("R-LIN", base, "no-silent-drop:" + head.rsplit("::", 1)[-1], ok,
                   "normal-path drop of a coroutine-owning %s in %s is an enumerated sink: %s" % (head, base, COROUTINE_SINKS.get(key)) if ok else
                   "%s drops a value of type %s that owns a suspended coroutine on a NORMAL path and is not an enumerated sink: that coroutine never runs to its end (its join hangs)" % (base, ty[:120]),
                   f.where(pt))
    if n < 8:
        ctx.missing("R-LIN", "coroutine drops", "no-silent-drop", "expected ≥8 normal-path drops of coroutine-owning values (the enumerated sinks), found %d" % n)
    # forge / duplicate sites: raw round trips of a coroutine
    ctx.who_may_call(r"generator::gen_impl::Generator(Obj|Impl)::(from_raw|into_raw)|generator::gen_impl::Generator::(from_raw|into_raw)",
                     {"may::sync::spsc::Blocker::new_coroutine", "may::sync::spsc::Blocker::into_coroutine"}, "raw-round-trip-sites",
                     "a coroutine is turned into / rebuilt from a raw pointer only by spsc::Blocker (each consuming its source): nothing else can forge or duplicate one", rule="R-LIN", min_callers=2)
    ctx.who_may_call(r"may::sync::spsc::Blocker::into_coroutine", {"may::sync::spsc::Blocker::unpark", "<may::sync::spsc::Park as may::coroutine_impl::EventSource>::subscribe"},
                     "into-coroutine-callers", "the raw handle is turned back into a coroutine only where the Blocker was just taken out of the slot (consumed by value)", rule="R-LIN", min_callers=2)
    # AtomicOption surface: no accessor that could hand out a second owner
    ms = set()
    for im in ctx.prog.impls:
        if norm(im.get("self_adt") or "") == "may::sync::atomic_option::AtomicOption" and not im.get("trait"):
            ms |= set(m["n"] for m in im["methods"])
    ok = ms == {"none", "some", "store", "take", "clear"}
    ctx.ob("R-API", "may::sync::atomic_option::AtomicOption", "surface", ok,
           "AtomicOption exposes exactly {none, some, store, take, clear}: a value can only be moved in or moved out (two resumers cannot both obtain the coroutine)" if ok else
           "AtomicOption's inherent API is %s; anything beyond {none, some, store, take, clear} (a getter, a peek, a clone) lets two parties hold the same coroutine" % sorted(ms), None)

# ---------------------------------------------------------------------------------------------------------------------------
# scoped.rs: the deferred-join chain is walked "transactionally" (seeds C13-3 / C14-3)
def _cell_fields(f, o):
    """fields named by an origin, looking through a RefCell::borrow_mut() / Deref(Mut) of the guard"""
    o = simplify(o)
    for _ in range(6):
        while o[0] in ("ref", "deref", "cast"): o = simplify(o[1])
        if o[0] == "call" and re.search(r"RefCell::(borrow_mut|borrow|get_mut)$|::deref(_mut)?$", o[2] or ""):
            t = f.term(o[1])
            if t["args"]: o = simplify(trace_operand(f, t["args"][0])); continue
        break
    return all_fields(o)

def _mentions_field(f, o, fld, depth=0):
    o = simplify(o)
    if fld in all_fields(o): return True
    if depth > 5: return False
    if o[0] == "call":
        t = f.term(o[1])
        return any(_mentions_field(f, trace_operand(f, a), fld, depth + 1) for a in t["args"])
    if o[0] == "phi": return any(_mentions_field(f, a, fld, depth + 1) for a in o[2])
    if o[0] in ("ref", "deref", "cast", "field", "downcast"): return _mentions_field(f, o[1], fld, depth + 1)
    return False

def scope_dtor_chain_rules(ctx):
    """Each deferred destructor joins one scoped coroutine and may re-raise that child's panic out of drop_all; the unwinding then
    runs Drop for Scope, which calls drop_all again to join the REMAINING children. That only works if, at the moment a dtor runs,
    the rest of the chain is stored back in `Scope.dtors` - not held in a local of the unwinding frame (where it would be dropped:
    the remaining JoinHandles are detached and scope() is left while their coroutines still borrow the owner's frame)."""
    D = "may::scoped::Scope::drop_all"
    inst = "scope/remainder-parked-before-dtor"
    f = ctx.fn("R-ORDER", D, inst)
    if f is None: return
    FLD = "may::scoped::Scope.dtors"
    takes = set(); writes = set(); runs = set()
    for pt in f.points():
        n = f.node(pt)
        if f.is_term(pt):
            if n.get("t") != "call" or not n["args"]: continue
            nm = callee_name(n) or ""
            a0 = trace_operand(f, n["args"][0])
            if re.search(r"option::Option::take$|mem::(take|replace)$|RefCell::(take|replace)$", nm) and FLD in _cell_fields(f, a0): takes.add(pt)
            if re.search(r"FnOnce>::call_once$|FnOnce::call_once$|FnBox::call_box$", nm) and "may::scoped::DtorChain.dtor" in all_fields(simplify(a0)): runs.add(pt)
        elif n.get("s") == "=" and n["l"]["p"] and not f.is_cleanup(pt.bb):
            if FLD in _cell_fields(f, trace_place(f, n["l"])) and _mentions_field(f, trace_rvalue(f, n["rv"], 0, pt), "may::scoped::DtorChain.next"):
                writes.add(pt)
    if not takes or not runs:
        ctx.missing("R-ORDER", D, inst, "take of Scope.dtors (%d) / dtor invocation (%d)" % (len(takes), len(runs))); return
    r = ctx.an.reach(f, [q for s in takes for q in ctx.an.after(f, s)], blocked=writes)
    bad = sorted(x for x in runs if x in r)
    ctx.ob("R-ORDER", D, inst, not bad,
           "between taking a node out of Scope.dtors and running its dtor, the rest of the chain (`node.next`) is stored back into Scope.dtors, so a dtor that "
           "re-raises a child's panic leaves the remaining joins to Drop for Scope" if not bad else
           "drop_all runs a dtor while the rest of the chain is NOT stored in Scope.dtors: when that dtor re-raises a child's panic the remaining joins are dropped "
           "with the unwinding frame (children detached, scope() left while they still run)", f.where(bad[0] if bad else sorted(runs)[0]),
           detail=ctx.an.fmt_path(f, ctx.an.path(f, [q for s in takes for q in ctx.an.after(f, s)], bad, blocked=writes)) if bad else None)


def park_deadline_sampled_before_arm(ctx):
    SUB = "<may::park::Park as may::coroutine_impl::EventSource>::subscribe"
    f = ctx.fn("R-ORDER", SUB, "deadline-recheck/sampled-before-arm")
    if f is None: return
    # (seed C08-3) the deadline is sampled BEFORE the timer is armed: deadline <= the timer's expiry, so "the timer fired and found
    # the slot empty" implies "the deadline has passed" at the re-check. A deadline sampled after add_timer can lie behind it.
    NOW = Call(r"may::timeout_list::now", transitive=False); ARM = Call(r"may::scheduler::Scheduler::add_timer", transitive=False)
    bodies = [f] + ctx.prog.closures_of(f)
    armers = [(g, ctx.an.sites(g, ARM, "must")) for g in bodies]
    armers = [(g, t) for g, t in armers if t]
    if not armers:
        ctx.missing("R-ORDER", SUB, "deadline-recheck/sampled-before-arm", "no add_timer call in Park::subscribe or its closures")
    else:
        bad = None
        for g, ts in armers:
            ns = ctx.an.sites(g, NOW, "must")
            if ns:
                r = ctx.an.reach(g, [Point(0, 0)], blocked=ns)
                if any(t in r for t in ts): bad = g.where(sorted(ts)[0])
            elif g is f:
                bad = f.where(sorted(ts)[0])
            else:
                # the closure arms without sampling: a sample must precede the combinator that runs it
                inv = [pt for pt in ctx.an.sites(f, Call(r"may::scheduler::Scheduler::add_timer", transitive=True), "may")]
                nm = ctx.an.sites(f, Call(r"may::timeout_list::now", transitive=True), "must")
                r = ctx.an.reach(f, [Point(0, 0)], blocked=nm)
                if not inv or any(t in r for t in inv): bad = g.where(sorted(ts)[0])
        ctx.ob("R-ORDER", SUB, "deadline-recheck/sampled-before-arm", bad is None,
               "the re-check deadline is sampled (now()) before add_timer arms the timer" if bad is None else
               "Park::subscribe arms the timer before it samples the deadline: a stall between the two puts the deadline behind the timer's expiry, the timer "
               "fires on the empty slot, the re-check still sees `now < deadline` and nobody delivers the timeout", bad)


def no_nested_run_under_guard(ctx, rule="R-ORDER"):
    """(F18) A subscriber that runs a coroutine NESTED on the worker's stack (`run_coroutine(co)` inside `subscribe`) must have
    released its delay-drop guard (wait_kernel) first: the resumed coroutine may finish and drop the very object the guard protects,
    and `Drop` then waits - in thread context, on top of the frame that owns the guard - for a flag that can never be cleared."""
    n = 0
    for f in ctx.prog.fns.values():
        if not f.id.startswith(("may::", "<may::")): continue
        guards = [pt for pt in f.points() if f.is_term(pt) and f.node(pt)["t"] == "call" and (callee_name(f.node(pt)) or "").endswith("::delay_drop")]
        runs = sorted(ctx.an.sites(f, Call(r"may::coroutine_impl::run_coroutine", transitive=False), "must"))
        if not guards: continue
        n += 1
        if not runs:
            ctx.ob(rule, f.id, "no-nested-run-under-guard", True, "%s holds a delay-drop guard and resumes no coroutine on top of its own frame" % f.id, f.where(guards[0]))
            continue
        rel = set()
        for pt in f.points():
            if not f.is_term(pt): continue
            t = f.node(pt)
            if t["t"] == "drop" and "DropGuard" in (t.get("ty") or ""): rel.add(pt)
            if t["t"] == "call" and re.fullmatch(r"(std|core)::mem::drop", callee_name(t) or "") and t["args"]:
                a = t["args"][0]; pl = a.get("m") or a.get("c")
                if pl is not None and "DropGuard" in f.locals[pl["l"]]: rel.add(pt)
        r = ctx.an.reach(f, [q for g in guards for q in ctx.an.after(f, g)], blocked=rel)
        bad = [x for x in runs if x in r]
        ctx.ob(rule, f.id, "no-nested-run-under-guard", not bad,
               "%s releases its delay-drop guard before it resumes a coroutine on top of its own frame" % f.id if not bad else
               "%s runs a coroutine nested (run_coroutine) while its delay-drop guard is still held: if that coroutine finishes (or parks again) the protected "
               "object's Drop / next park waits on the worker stack for a flag only the frame below can clear - the worker thread is lost" % f.id,
               f.where((bad or runs)[0]))
    if n < 2:
        ctx.missing(rule, "may::park::DropGuard", "no-nested-run-under-guard", "expected >= 2 subscribers holding a delay-drop guard (park.rs, sync/spsc.rs), found %d" % n)


def mpsc_pop_reports_empty_only_when_empty(ctx):
    """dependency rule (C03 owns it; C05/C10/C11/C12 wait queues and C06/C07 channels rely on it): may_queue::mpsc::Queue::pop returns None
    only behind `pop_index >= push_index()` - a slot that was reserved by a producer's CAS but not yet written is waited for, never
    reported as "queue empty" (an unlocker that popped None would hand the lock / permit to nobody)."""
    MQ = "may_queue::mpsc"; POP = MQ + "::Queue::pop"
    pidx = is_call_result(re.escape(MQ) + "::Queue::push_index")
    empty = lambda a: a.kind == "cmp" and ((a.op == "Ge" and pidx(a.b)) or (a.op == "Le" and pidx(a.a)))
    ctx.guarded(POP, Agg(r"(std|core)::option::Option", "None", transitive=False), empty, "mpsc/none-only-if-empty",
                "pop returns None only when pop_index >= push_index (a reserved but not yet written slot is waited for, not reported as empty)",
                pred_label="edge `pop_index >= push_index()`")


def own_sites(ctx, g, ev):
    """sites of g that perform `ev` themselves: direct matches, plus calls that are handed a closure of g which performs it directly
    (`opt.map(|w| w.unpark())`). Unlike a transitive event this does not look into named callees."""
    out = set(ctx.an.sites(g, ev, "must"))
    cl = set(c.id for c in ctx.prog.closures_of(g) if ctx.an.sites(c, ev, "must"))
    if cl:
        for pt in g.points():
            if g.is_term(pt) and g.node(pt)["t"] == "call" and any(norm(c) in cl or c in cl for c in closure_args(g, g.node(pt))):
                out.add(pt)
    return out


# ---------------------------------------------------------------------------------------------------------------------------
# round-3 seeds
def check_cancel_consumes(ctx):
    """(seeds C01-6, C02-5, C09-5: three agents, same slip) check_cancel consumes the injected Canceled result whenever the cancel bit is
    set - also when it must not panic because the coroutine is already unwinding; a result left in the generator survives stack reuse"""
    CK = "may::cancel::CancelImpl::check_cancel"
    ctx.must_follow(CK, None, Call(r"may::yield_now::get_co_para", transitive=False), "check-cancel-always-consumes",
                    "check_cancel consumes the injected Canceled result whenever the cancel bit is set, also when it must not panic (already unwinding)",
                    edge=lambda a: a.kind == "cmp" and a.op == "Eq" and is_call_result(A("load"))(a.a) and is_const(1)(a.b), edge_label="edge `state.load() == 1`")

def mpsc_fast_bulk_contiguous(ctx):
    """(seed C01-5) mpsc fast_bulk_pop takes a CONTIGUOUS prefix of ready slots: it stops at the first slot whose producer has reserved
    but not yet written it. Skipping such a slot (filter instead of take-while) commits an index past an unread slot: that element is
    lost and a later one is handed out twice."""
    FB = "may_queue::mpsc::Queue::fast_bulk_pop"; inst = "mpsc/fast-bulk-stops-at-first-gap"
    f = ctx.fn("R-EXIT", FB, inst)
    if f is None: return
    TG = Call(r"may_queue::mpsc::BlockNode::try_get", transitive=False)
    direct = ctx.an.sites(f, TG, "must")
    if direct:
        es = ctx.edges(f, variant_of_call(r"may_queue::mpsc::BlockNode::try_get", "None"))
        if not es:
            ctx.missing("R-EXIT", FB, inst, "no edge `try_get()` is None"); return
        r = ctx.an.reach(f, [Point(tb, 0) for _, tb, _ in es])
        bad = [d for d in direct if d in r]
        ctx.ob("R-EXIT", FB, inst, not bad, "after the first not-ready slot fast_bulk_pop reads no further slot (contiguous prefix)" if not bad else
               "fast_bulk_pop goes on reading slots after a not-ready one: the committed index passes an unread slot (lost element, duplicate delivery)", f.where((bad or sorted(direct))[0]))
        return
    # the scan is an iterator chain: the adapter that runs try_get must be one that stops at the first None
    ok = None; site = None
    for pt in f.points():
        if not f.is_term(pt) or f.node(pt)["t"] != "call": continue
        cl = [ctx.prog.fns.get(c) for c in closure_args(f, f.node(pt))]
        if any(c is not None and ctx.an.sites(c, TG, "must") for c in cl):
            site = pt
            nm = (callee_name(f.node(pt)) or "").rsplit("::", 1)[-1]
            ok = nm in ("map_while", "take_while", "scan")
    if ok is None:
        ctx.missing("R-EXIT", FB, inst, "no try_get scan found in fast_bulk_pop"); return
    ctx.ob("R-EXIT", FB, inst, ok, "the slot scan stops at the first not-ready slot (map_while / take_while)" if ok else
           "fast_bulk_pop scans the slots with an adapter that skips not-ready slots instead of stopping at the first one: the committed index passes an unread slot "
           "(lost element, duplicate delivery)", f.where(site))

def _resolve_upvar_origin(f, o, depth=0):
    """origin with a leading closure-upvar projection replaced by what the parent function captured there"""
    o = simplify(o)
    ch, root = field_chain(o)
    if depth < 3 and ch and ch[0][0].startswith("closure:") and root[0] == "arg" and root[1] == 1 and "::{closure" in f.id:
        parent = f.prog.fns.get(f.id.rsplit("::{closure", 1)[0])
        try: idx = int(ch[0][1])
        except ValueError: idx = None
        if parent is not None and idx is not None:
            cid = norm(ch[0][0][len("closure:"):])
            for b in parent.blocks:
                if b.get("ghost"): continue
                for st in b["st"]:
                    if st.get("s") == "=" and st["rv"]["r"] == "agg" and st["rv"].get("ak") == "closure" and norm(st["rv"]["did"]) == cid and idx < len(st["rv"]["ops"]):
                        return parent, _resolve_upvar_origin(parent, trace_operand(parent, st["rv"]["ops"][idx]), depth + 1)[1]
    return f, o

def is_own_blocker_arg(g, t, argi):
    """argument argi of the call is the caller's own blocker (`SyncBlocker::current()`), possibly captured by a closure"""
    if len(t["args"]) <= argi: return False
    h, o = _resolve_upvar_origin(g, trace_operand(g, t["args"][argi]))
    for _ in range(6):
        while o[0] in ("ref", "deref", "clone", "field", "downcast", "index", "cast"): o = simplify(o[1])
        if o[0] == "call" and re.search(r"::(deref|as_ref|borrow|clone)$", o[2] or "") and h.term(o[1])["args"]:
            o = simplify(trace_operand(h, h.term(o[1])["args"][0])); continue
        break
    alts = o[2] if o[0] == "phi" else [o]
    return any(x[0] == "call" and (x[2] or "").endswith("SyncBlocker::current") for x in alts)

def wakes_dequeued_waiter(ctx, type_path, helper="unpark_one", rule="R-SIB"):
    """(seed C05-6) the blocker handed to the wake-up helper is the one that was dequeued, never the caller's own: waking oneself
    while discarding the popped waiter strands that waiter (its blocker is gone from the queue, nobody will unpark it)"""
    n = 0
    for k, g in sorted(ctx.prog.fns.items()):
        if not k.startswith(type_path + "::"): continue
        for pt in sorted(ctx.an.sites(g, Call(re.escape(type_path) + "::" + helper, transitive=False), "must")):
            n += 1
            bad = is_own_blocker_arg(g, g.node(pt), 1)
            ctx.ob(rule, k, "wakes-the-dequeued-waiter", not bad, "%s hands the dequeued blocker to %s" % (k, helper) if not bad else
                   "%s pops a waiter but hands its OWN blocker to %s: the popped waiter is dropped from the queue without being woken (stranded), the caller wakes itself" % (k, helper),
                   g.where(pt))
    if not n:
        ctx.missing(rule, type_path + "::" + helper, "wakes-the-dequeued-waiter", "no call of %s::%s found" % (type_path, helper))

def no_panicking_instant_arithmetic(ctx, rule="R-NUM"):
    """(seed C10-6; same family as F17) `Instant + Duration` panics on overflow. A timeout like Duration::MAX ("no timeout") given to a
    timed wait must saturate / be checked, not panic in the middle of the wait protocol (the waiter is already registered and counted)."""
    bad = []; n = 0
    for k, f in ctx.prog.fns.items():
        if not k.lstrip("<&'a ").startswith("may"): continue
        for pt in f.points():
            if not f.is_term(pt) or f.node(pt)["t"] != "call": continue
            nm = callee_name(f.node(pt)) or ""
            if re.search(r"(Instant|SystemTime)::checked_(add|sub)$|Duration::(checked|saturating)_(add|sub|mul)$", nm): n += 1
            if re.search(r"<std::time::(Instant|SystemTime) as std::ops::(Add|Sub|AddAssign|SubAssign)(<[^>]*>)?>::", nm) and "Duration" in " ".join(callee_generic_args(f.node(pt)) + [f.locals[(a.get("m") or a.get("c") or {"l": 0})["l"]] for a in f.node(pt)["args"][1:2] if (a.get("m") or a.get("c"))]):
                bad.append((f, pt, nm))
    ctx.ob(rule, "std::time::Instant", "no-panicking-instant-arithmetic", not bad,
           "no `Instant +/- Duration` with the panicking operators in may (deadlines use checked_add / saturating arithmetic; %d checked sites)" % n if not bad else
           "%s computes a deadline with the panicking `Instant + Duration`: a huge timeout (Duration::MAX used as 'no timeout') panics inside the wait, after the waiter "
           "registered itself - its permit / notification is handed to a dead waiter" % bad[0][0].id, bad[0][0].where(bad[0][1]) if bad else None)


def injected_kinds(ctx, rule="R-ENUM"):
    """(seed C02-6) park_timeout / the io front-ends decode an injected result purely by its io::ErrorKind: TimedOut -> Timeout,
    Other -> Canceled. Every resumer therefore injects the kind of what it stands for: the four timeout deliverers (timer-thread
    handler, io timeout handler, the two deadline re-checks) TimedOut, cancel Other. A timeout delivered as `Other` is reported as
    Canceled to a coroutine nobody cancelled (the sync primitives then kill it with a Cancel panic)."""
    want = {"may::scheduler::init_scheduler": "TimedOut", "may::io::sys::timeout_handler": "TimedOut",
            "<may::park::Park as may::coroutine_impl::EventSource>::subscribe": "TimedOut", "may::io::sys::EventData::store_co": "TimedOut",
            "may::cancel::CancelImpl::cancel": "Other"}
    n = 0
    for k, f in sorted(ctx.prog.fns.items()):
        base = k.split("::{closure")[0]
        for pt in sorted(ctx.an.sites(f, Call(r"may::yield_now::set_co_para", transitive=False), "must")):
            t = f.node(pt)
            o = simplify(trace_operand(f, t["args"][1]))
            kind = None
            if o[0] == "call":
                nm = o[2] or ""; ct = f.term(o[1])
                if nm.endswith("io::Error::other"): kind = "Other"
                elif nm.endswith("io::Error::new") and ct["args"]:
                    ko = simplify(trace_operand(f, ct["args"][0]))
                    if ko[0] == "agg" and "ErrorKind" in (ko[1] or ""): kind = ko[2]
                    elif ko[0] == "const" and ko[1]: 
                        m = re.search(r"ErrorKind::(\w+)", ko[1]); kind = m.group(1) if m else None
                elif nm.endswith("io::Error::from") and ct["args"]:
                    ko = simplify(trace_operand(f, ct["args"][0]))
                    if ko[0] == "agg" and "ErrorKind" in (ko[1] or ""): kind = ko[2]
            exp = want.get(base)
            n += 1
            if exp is None:
                continue          # not a frozen injector: the who-may-call rule `result-injectors` reports it
            ctx.ob(rule, base, "injected-kind", kind == exp, "%s injects io::ErrorKind::%s" % (base, exp) if kind == exp else
                   "%s injects %s where the decoders expect %s: park_timeout / the io front-ends map the kind to Timeout (TimedOut) or Canceled (Other) - "
                   "the woken coroutine is told the wrong reason" % (base, "ErrorKind::%s" % kind if kind else "an error of unknown kind", exp), f.where(pt))
    if n < 4:
        ctx.missing(rule, "may::yield_now::set_co_para", "injected-kind", "expected >= 4 result injection sites, found %d" % n)
