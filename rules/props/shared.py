"""Rule instances shared by several properties."""
import re
from lib import *

AO = r"may::sync::atomic_option::AtomicOption::"
ATOM = r"(std|core)::sync::atomic::Atomic::"
MQ_MPSC = r"may_queue::mpsc::Queue::"
SEGQ = r"crossbeam(::crossbeam_queue|_queue)(::seg_queue)?::SegQueue::"

def A(method): return ATOM + method
def ao(method, on=None, **kw): return Call(AO + method, on=on, **kw)
def atomic(method, on=None, **kw): return Call(ATOM + "(" + method + ")", on=on, **kw)

# ------------------------------------------------------------------------------------------------
# Join (C01, C14)

def join_rules(ctx):
    flag_values(ctx, [("init", "may::join::Join::new", "may::join::Join.state", 1, "join/state-starts-running", "`state == true` means the coroutine has not finished"),
                      ("store", "may::join::Join::trigger", "may::join::Join.state", 0, "join/trigger-clears-state", "the finisher publishes `done` as state == false (the value Join::wait leaves on)")])
    taken_waiter_is_woken(ctx, only=r"join::Join\.to_wake$")
    J = "may::join::Join"
    # trigger: publish, then wake
    ctx.order(J + "::trigger", atomic("store", J + ".state"), ao("take", J + ".to_wake"), "publish-then-wake",
              "Join::trigger must publish `state=false` before taking the waiter (else the waiter re-checks a stale flag and parks forever)")
    ctx.order(J + "::trigger", ao("take", J + ".to_wake"), Call(r"may::sync::blocking::Blocker::unpark"), "take-then-unpark",
              "the waiter that is unparked is the one taken from the slot", rule="R-SLOT")
    # wait: register, then re-check
    f = ctx.fn("R-SLOT", J + "::wait", "register-then-recheck")
    if f is not None:
        st = ctx.an.sites(f, ao("store", J + ".to_wake"), "must")
        park = ctx.an.sites(f, Call(r"may::sync::blocking::Blocker::park"), "may")
        if not st or not park:
            ctx.missing("R-SLOT", J + "::wait", "register-then-recheck", "no to_wake.store / Blocker::park in Join::wait")
        else:
            # every park is reached only through (store, then a `state` load whose true edge leads to park)
            ok = True
            for p in sorted(park):
                # a state load after the store must lie on every path store -> park
                loads = ctx.an.sites(f, atomic("load", J + ".state"), "must")
                starts = []
                for s in st: starts.extend(ctx.an.after(f, s))
                r = ctx.an.reach(f, starts, blocked=loads)
                if p in r:
                    ok = False
                    pa = ctx.an.path(f, starts, [p], blocked=loads)
                    ctx.ob("R-SLOT", J + "::wait", "register-then-recheck", False,
                           "Join::wait parks after registering without re-reading `state` (a trigger between the first check and the registration is lost)",
                           f.where(p), detail=ctx.an.fmt_path(f, pa))
                # and the store precedes the park
                r0 = ctx.an.reach(f, [Point(0, 0)], blocked=st)
                if p in r0:
                    ok = False
                    ctx.ob("R-SLOT", J + "::wait", "register-then-recheck", False,
                           "Join::wait parks without having registered in `to_wake`", f.where(p))
            if ok:
                ctx.ob("R-SLOT", J + "::wait", "register-then-recheck", True,
                       "Join::wait: to_wake.store precedes every park and a `state` load lies between them", f.where(sorted(st)[0]))
    # park only on the state==true edge of the re-check
    ctx.guarded(J + "::wait", Call(r"may::sync::blocking::Blocker::park"), call_true(A("load"), J + ".state"),
                "park-behind-recheck", "Join::wait may park only when the re-check (after registering in to_wake) still sees `state == true`",
                invalidate=Call(AO + "store", on=J + ".to_wake", transitive=False),
                pred_label="edge `state.load()` is true", rule="R-SLOT")
    # R-EXIT: return only after having seen state == false, with no park after that observation
    ctx.guarded(J + "::wait", Ev("ret"), call_false(A("load"), J + ".state"), "return-only-when-done",
                "Join::wait must return only after observing `state == false` (join()/wait() must not report completion early; "
                "park() can return early for a cancelled or unwinding coroutine)",
                invalidate=Call(r"may::sync::blocking::Blocker::park"),
                pred_label="edge `state.load()` is false")
    # R-MO
    ctx.mo_floor(J + ".state", ("store",), "REL", "state-store", "result/packet writes must be visible to the joiner",
                 only_in=r"may::join::Join::trigger")
    ctx.mo_floor(J + ".state", ("load",), "ACQ", "state-load", "the joiner must see the packet written before trigger", min_sites=3)
    # JoinHandle::join takes the packet only after wait
    ctx.order("may::join::JoinHandle::join", Call(J + "::wait"), ao("take"), "wait-then-take",
              "join() reads the result slot only after wait() returned")
    ctx.order("may::join::JoinHandle::wait", Call(J + "::wait"), Ev("ret"), "wait-delegates",
              "JoinHandle::wait delegates to Join::wait")
    # is_done is `!state.load(Acquire)`
    f = ctx.fn("R-EXIT", "may::join::JoinHandle::is_done", "is-done-negates-state")
    if f is not None:
        ok = False; site = None
        for pt in f.points():
            n = f.node(pt)
            if not f.is_term(pt) and n["s"] == "=" and not n["l"]["p"] and n["l"]["l"] == 0:
                o = simplify(trace_rvalue(f, n["rv"], 0))
                if o[0] == "un" and o[1] == "Not":
                    inner = simplify(o[2])
                    if inner[0] == "call" and re.fullmatch(A("load"), inner[2] or "") and receiver_leaf(f, f.term(inner[1])) == J + ".state":
                        ok = True; site = pt
        ctx.ob("R-EXIT", "may::join::JoinHandle::is_done", "is-done-negates-state", ok,
               "is_done() returns exactly `!state.load()`" if ok else "is_done() is not `!state.load()` any more: it could report completion early", f.where(site))

# ------------------------------------------------------------------------------------------------
# scheduler ownership chain (C01, C04)

def worker_queue_confinement(ctx):
    S = "may::scheduler::Scheduler"
    SEL = "may::io::sys::select::Selector"
    rule = "R-WHO"
    work_steal = ctx.prog.fn(S + "::schedule_with_id") is not None and \
        any("spmc" in (callee_name(f.node(pt)) or "") or "crossbeam" in (callee_name(f.node(pt)) or "")
            for f in [ctx.prog.fn(S + "::schedule_with_id")] for pt in f.points() if f.is_term(pt) and f.node(pt)["t"] == "call")
    allowed = {
        S + "::schedule_with_id": {S + "::schedule", SEL + "::select"},
        S + "::collect_global": {S + "::run_queued_tasks", SEL + "::select"},
        S + "::run_queued_tasks": {SEL + "::select"},
        SEL + "::select": {"may::io::event_loop::EventLoop::run"},
        "may::io::event_loop::EventLoop::run": {"may::scheduler::init_scheduler"},
    }
    for callee_id, allow in allowed.items():
        cs = ctx.callers_of(re.escape(callee_id))
        if not cs:
            # schedule_with_id has no selector caller without work stealing; but every link must have ≥1 caller
            ctx.missing(rule, callee_id, "callers", "no caller of %s found" % callee_id)
            continue
        for gid, sites in sorted(cs.items()):
            base = gid.split("::{closure#")[0]
            okc = base in allow
            for (g, pt, cid) in sites:
                ctx.fns_touched.add(g.id)
                if not okc:
                    ctx.ob(rule, callee_id, "caller:" + gid, False,
                           "%s touches the single-owner per-worker queue of worker `id`; it may be called only from %s, but %s calls it"
                           % (callee_id, sorted(allow), gid), g.where(pt))
                    continue
                # provenance of the id argument: last argument
                t = g.node(pt)
                ida = t["args"][-1]
                if callee_id.endswith("::select"):
                    ida = t["args"][2]
                o = simplify(trace_operand(g, ida))
                good = False; how = fmt_origin(o)
                if o[0] == "arg":
                    nm = g.local_name(o[1])
                    good = True; how = "own parameter `%s`" % nm
                    # the parameter must itself be an id parameter of a function in the chain
                    if base not in allowed and base != S + "::schedule":
                        good = False
                elif o[0] == "call" and o[2] == "std::thread::LocalKey::get":
                    ct = g.term(o[1])
                    ro = simplify(trace_operand(g, ct["args"][0]))
                    while ro[0] in ("ref", "deref"): ro = ro[1]
                    if ro[0] == "const" and "may::scheduler::WORKER_ID" in (ro[3] if len(ro) > 3 else ()):
                        good = True; how = "WORKER_ID.get()"
                        # and it must be behind the `!= usize::MAX` edge
                elif o[0] == "field" and o[2].startswith("closure:") and base == "may::scheduler::init_scheduler":
                    good = True; how = "captured loop variable of the worker spawn loop"
                ctx.ob(rule, callee_id, "caller:%s/id-provenance" % gid, good,
                       "%s is called from %s with id = %s%s" % (callee_id, gid, how, "" if good else
                       " — not the caller's own worker id: two threads could use the single-producer side of one run queue"), g.where(pt))
    # EventLoop::run publishes its id into WORKER_ID before selecting
    f = ctx.fn(rule, "may::io::event_loop::EventLoop::run", "worker-id-set")
    if f is not None:
        def sets_own_id(g, pt, t):
            ro = simplify(trace_operand(g, t["args"][0]))
            while ro[0] in ("ref", "deref"): ro = ro[1]
            if not (ro[0] == "const" and "may::scheduler::WORKER_ID" in (ro[3] if len(ro) > 3 else ())):
                return False
            v = simplify(trace_operand(g, t["args"][1]))
            return v[0] == "arg"
        ctx.order("may::io::event_loop::EventLoop::run", Call(r"std::thread::LocalKey::set", where=sets_own_id, label="WORKER_ID.set(id)"),
                  Call(re.escape(SEL) + "::select"), "worker-id-set", "the worker stores its own id into WORKER_ID before it runs any coroutine", rule=rule)
    # schedule(): schedule_with_id only behind `id != usize::MAX`
    ctx.guarded(S + "::schedule", Call(re.escape(S) + "::schedule_with_id"),
                lambda a: a.kind == "cmp" and a.op == "Ne", "local-only-on-worker",
                "Scheduler::schedule uses the local queue only on a worker thread (WORKER_ID != usize::MAX)", rule=rule,
                pred_label="edge `id != usize::MAX`")

def global_handoff(ctx):
    S = "may::scheduler::Scheduler"
    for fn in ("schedule_global", "schedule_global_with_id"):
        fid = S + "::" + fn
        ctx.order(fid, Call(MQ_MPSC + "push", on=S + ".global_queues"), Call(r"may::io::sys::select::Selector::wakeup"),
                  "push-then-wakeup", "a coroutine handed to another worker is queued before that worker is signalled")
        # (seed C01-9) ... and it is signalled on every path: a wakeup decided by a test made BEFORE the push (`was the queue empty?`) is lost when
        # the worker drains the queue between the test and the push and goes to sleep
        ctx.must_follow(fid, Call(MQ_MPSC + "push", on=S + ".global_queues"), Call(r"may::io::sys::select::Selector::wakeup"), "push-always-wakes",
                        "every coroutine pushed to a worker's global queue is followed by a wakeup of that worker", rule="R-PAIR")
        f = ctx.prog.fn(fid)
        if f is None: continue
        # same target index for the queue and the wakeup
        qidx = None; widx = None; wpt = None
        for pt in f.points():
            if not f.is_term(pt): continue
            t = f.node(pt)
            if t["t"] != "call": continue
            nm = callee_name(t) or ""
            if re.fullmatch(MQ_MPSC + "push", nm):
                o = simplify(trace_operand(f, t["args"][0]))
                while o[0] in ("ref", "deref"): o = o[1]
                if o[0] == "index": qidx = o[2]
            if nm == "may::io::sys::select::Selector::wakeup":
                widx = simplify(trace_operand(f, t["args"][1])); wpt = pt
        ok = qidx is not None and widx is not None and qidx == widx
        ctx.ob("R-ORDER", fid, "same-target", ok,
               "queue index and wakeup target are the same value (%s)" % (fmt_origin(widx) if widx else "?") if ok else
               "the worker that is woken (%s) is not the one whose global queue received the coroutine (%s)" %
               (fmt_origin(widx) if widx else "?", fmt_origin(qidx) if qidx else "?"), f.where(wpt))

# ------------------------------------------------------------------------------------------------
# slot helpers (R-SLOT)

def slot_waiter(ctx, fid, store, recheck, cond_pred, selfwake, inst, why, cond_label="re-check sees the condition"):
    """after `store` every path to the exit passes `recheck`; the edge on which the re-check sees
    the waker's condition must lead to `selfwake` (take + resume) before the exit"""
    ok = ctx.must_follow(fid, store, recheck, inst + "/store-then-recheck",
                         why + ": the waiter registers, then re-reads the waker's condition (a waker that published before "
                         "the registration found an empty slot and will not come back)", rule="R-SLOT")
    if selfwake is not None:
        ok &= ctx.must_follow(fid, None, selfwake, inst + "/recheck-true-selfwake",
                              why + ": when the re-check sees the condition the waiter takes itself back out of the slot",
                              rule="R-SLOT", edge=cond_pred, edge_label="edge `%s`" % cond_label)
    return ok

def slot_waker(ctx, fid, publish, take, inst, why):
    return ctx.order(fid, publish, take, inst + "/publish-then-take",
                     why + ": the waker publishes its condition before it takes the waiter out of the slot", rule="R-SLOT")

# ------------------------------------------------------------------------------------------------
# the forwarding handshake (C05, C09, C10, C11, C12)

SB = "may::sync::blocking::SyncBlocker"
IS_UNPARKED = Call(re.escape(SB) + "::is_unparked", transitive=False)
SET_RELEASE = Call(re.escape(SB) + "::set_release", transitive=False)
TAKE_RELEASE = Call(re.escape(SB) + "::take_release", transitive=False)
SB_PARK = Call(re.escape(SB) + "::park", transitive=False)
SB_UNPARK = Call(re.escape(SB) + "::unpark")
TRIGGER = Call(r"may::cancel::trigger_cancel_panic", transitive=False)

def handshake_waiter(ctx, fid, forward, inst, what, err_edge, exits_kind="ret+trigger", rule="R-SIB"):
    """waiter side: on the arm where park returned Err(..): before leaving (trigger_cancel_panic /
    return / looping back to park) the waiter must run
        if is_unparked() { forward } else { set_release(); if is_unparked() && take_release() { forward } }"""
    f = ctx.fn(rule, fid, inst)
    if f is None: return False
    an = ctx.an
    forward = Ev("call", fn=forward.fn.pattern, on=forward.on, label=forward.label, transitive=False)
    iu = an.sites(f, IS_UNPARKED, "must"); sr = an.sites(f, SET_RELEASE, "must"); tr = an.sites(f, TAKE_RELEASE, "must")
    fw = an.sites(f, forward, "must"); pk = an.sites(f, SB_PARK, "may"); tg = an.sites(f, TRIGGER, "may")
    if not (iu and sr and tr and fw and pk):
        ctx.missing(rule, fid, inst, "handshake anchors missing in %s: is_unparked=%d set_release=%d take_release=%d forward(%s)=%d park=%d"
                    % (fid, len(iu), len(sr), len(tr), forward.label, len(fw), len(pk)))
        return False
    def exits(g):
        ex = set()
        if "ret" in exits_kind: ex |= set(g.ret_points())
        if "trigger" in exits_kind: ex |= tg
        if "park" in exits_kind: ex |= pk
        return ex
    ok = True
    # H1: from the Err edge of park every path to an exit passes is_unparked
    ok &= ctx.must_follow(fid, None, IS_UNPARKED, inst + "/H1-check-unparked",
                          "%s: a waiter whose park failed (cancel/timeout) checks whether it was already handed the %s" % (fid, what),
                          rule=rule, edge=err_edge, edge_label="edge `park()` is Err", exits=exits)
    # H2: on an is_unparked()==true edge: forward before leaving (first check), unless the waiter keeps the resource
    # H3: on the first is_unparked()==false edge: set_release then is_unparked again
    # identify first check = is_unparked sites not reachable from a set_release site
    after_sr = an.reach(f, [q for s in sr for q in an.after(f, s)], blocked=pk)
    first = set(s for s in iu if s not in after_sr)
    second = set(s for s in iu if s in after_sr)
    if not first or not second:
        ctx.ob(rule, fid, inst + "/H3-register-then-recheck", False,
               "%s: the cancel/timeout arm no longer has the shape check / set_release / re-check (first=%d, re-check=%d): a %s handed over "
               "between the check and the registration is lost" % (fid, len(first), len(second), what), f.where(sorted(iu)[0]))
        return False
    def edge_of(sites, truth):
        bbs = set(s.bb for s in sites)
        def p(a):
            return a.kind == "call" and a.truth is truth and a.name == SB + "::is_unparked" and a.site in bbs
        return p
    ok &= ctx.must_follow(fid, None, forward, inst + "/H2-unparked-forwards",
                          "%s: a waiter that was already unparked when its park failed passes the %s on" % (fid, what), rule=rule,
                          edge=edge_of(first, True), edge_label="edge first `is_unparked()` is true", exits=exits)
    ok &= ctx.must_follow(fid, None, SET_RELEASE, inst + "/H3-register",
                          "%s: a waiter that was not yet unparked registers the release request" % fid, rule=rule,
                          edge=edge_of(first, False), edge_label="edge first `is_unparked()` is false", exits=exits)
    ok &= ctx.must_follow(fid, SET_RELEASE, IS_UNPARKED, inst + "/H3-recheck",
                          "%s: after registering the release request the waiter re-checks is_unparked (Dekker)" % fid, rule=rule, exits=exits)
    # H4: take_release true -> forward
    ok &= ctx.must_follow(fid, None, forward, inst + "/H4-took-release-forwards",
                          "%s: a waiter that wins take_release() passes the %s on itself" % (fid, what), rule=rule,
                          edge=call_true(re.escape(SB) + "::take_release"), edge_label="edge `take_release()` is true", exits=exits)
    # H5: forward only behind (first is_unparked true) or (take_release true): never when not unparked
    ok &= ctx.guarded(fid, forward, any_of(edge_of(first, True), call_true(re.escape(SB) + "::take_release")), inst + "/H5-forward-only-if-handed",
                      "%s: the %s is passed on only when it was actually handed to this waiter" % (fid, what), rule=rule,
                      pred_label="edge `is_unparked()`/`take_release()` is true", target_mode="must")
    # take_release only behind the re-check true edge
    ok &= ctx.guarded(fid, TAKE_RELEASE, edge_of(second, True), inst + "/H5b-take-only-if-unparked",
                      "%s: the waiter withdraws its release request only when it saw the unpark" % fid, rule=rule,
                      pred_label="edge second `is_unparked()` is true", target_mode="must")
    # H6: never forward twice without parking again
    r = an.reach(f, [q for s in fw for q in an.after(f, s)], blocked=pk)
    dbl = [s for s in fw if s in r]
    ctx.ob(rule, fid, inst + "/H6-forward-once", not dbl,
           "%s: the %s is passed on at most once per failed park" % (fid, what) if not dbl else
           "%s: the %s can be passed on twice after one failed park (duplicated permit/hand-off)" % (fid, what), f.where(sorted(fw)[0]))
    ok &= not dbl
    # H8: never park again on a blocker whose release request is pending: after set_release every
    # path to a park passes SyncBlocker::current() (a fresh blocker)
    fresh = an.sites(f, Call(re.escape(SB) + "::current", transitive=False), "must")
    r8 = an.reach(f, [q for s in sr for q in an.after(f, s)], blocked=fresh)
    again = [p for p in pk if p in r8]
    ctx.ob(rule, fid, inst + "/H8-no-repark-with-pending-release", not again,
           "%s: a waiter that registered a release request never parks again on that blocker" % fid if not again else
           "%s: after set_release() the waiter can park again on the same blocker with the request still pending: the next unlocker wakes it AND "
           "releases on its behalf (two owners / duplicated %s)" % (fid, what), f.where(sorted(sr)[0]),
           detail=an.fmt_path(f, an.path(f, [q for s in sr for q in an.after(f, s)], again, blocked=fresh)) if again else None)
    ok &= not again
    # H7: trigger_cancel_panic only after the handshake
    if tg:
        r0 = an.reach(f, [Point(0, 0)], blocked=iu)
        bad = [t for t in tg if t in r0]
        ctx.ob(rule, fid, inst + "/H7-panic-after-handshake", not bad,
               "%s: trigger_cancel_panic is reached only after the handshake" % fid if not bad else
               "%s: trigger_cancel_panic can be reached without the is_unparked handshake: a %s handed to the cancelled waiter is lost" % (fid, what),
               f.where(sorted(tg)[0]))
        ok &= not bad
    return ok

def _not_own_blocker(g, pt, t):
    """the receiver of this SyncBlocker call is NOT the caller's own blocker (`SyncBlocker::current()`): it is a waiter taken from a queue"""
    if not t["args"]: return True
    o = simplify(trace_operand(g, t["args"][0]))
    for _ in range(6):
        while o[0] in ("ref", "deref", "clone", "field", "downcast", "index", "cast"): o = simplify(o[1])
        if o[0] == "call" and re.search(r"::(deref|as_ref|borrow|clone)$", o[2] or "") and g.term(o[1])["args"]:
            o = simplify(trace_operand(g, g.term(o[1])["args"][0])); continue
        break
    if o[0] == "phi": return not any(x[0] == "call" and (x[2] or "").endswith("SyncBlocker::current") for x in o[2])
    return not (o[0] == "call" and (o[2] or "").endswith("SyncBlocker::current"))

TAKE_RELEASE_W = Call(re.escape(SB) + "::take_release", transitive=False, where=_not_own_blocker)
SB_UNPARK_W = Call(re.escape(SB) + "::unpark", where=_not_own_blocker)

def handshake_waker(ctx, fid, forward, inst, what, rule="R-SIB", forward_required=True):
    """waker side: unpark the waiter, then take_release(); on true pass the thing on.
    The waker body is looked for in `fid` (and its closures); when that helper does not exist (inlined by hand into its callers) every
    function of the same type that calls take_release on a blocker that is not its own is a waker body."""
    f0 = ctx.prog.fn(fid)
    if f0 is not None:
        ctx.fns_touched.add(fid)
        bodies = [g for g in [f0] + ctx.prog.closures_of(f0) if ctx.an.sites(g, TAKE_RELEASE_W, "must")]
    else:
        cont = fid.rsplit("::", 1)[0] + "::"
        bodies = [g for k, g in sorted(ctx.prog.fns.items()) if k.startswith(cont) and ctx.an.sites(g, TAKE_RELEASE_W, "must")]
    if not bodies or (f0 is not None and len(bodies) != 1):
        ctx.missing(rule, fid, inst, "expected a body in %s (or, if it is gone, in its type) calling take_release on a dequeued waiter, found %d" % (fid, len(bodies)))
        return False
    ok = True
    for g in bodies:
        gi = inst if f0 is not None else "%s@%s" % (inst, g.id.rsplit("::", 1)[-1] if "{closure" not in g.id else g.id.split("::")[-2])
        ok &= ctx.order(g.id, SB_UNPARK_W, TAKE_RELEASE_W, gi + "/unpark-then-take-release",
                        "%s: the waker marks the waiter unparked before it looks for a release request (Dekker)" % g.id, rule=rule)
        if forward_required:
            def released(a, g=g):
                return call_true(re.escape(SB) + "::take_release")(a) and a.site is not None and _not_own_blocker(g, None, g.term(a.site))
            ok &= ctx.must_follow(g.id, None, forward, gi + "/release-forwards",
                                  "%s: a waker that finds a release request passes the %s on" % (g.id, what), rule=rule,
                                  edge=released, edge_label="edge `take_release()` is true")
    return ok

def syncblocker_rules(ctx, rule="R-SIB"):
    ctx.order(SB + "::unpark", Call(r"may::sync::blocking::Blocker::unpark"), atomic("store", SB + ".unparked"), "unpark/wake-then-flag",
              "SyncBlocker::unpark wakes, then publishes `unparked` (a waiter that sees the flag has its token)", rule=rule)
    # finding F22: `unparked` / `release` are a store-buffering (Dekker) pair - the waiter that gives up stores `release` and then loads
    # `unparked`, the waker stores `unparked` and then swaps `release`; at least one must see the other's store or the hand-off is taken by
    # nobody. Release/Acquire does not order a store with a later load of another location (not even on x86): all four are SeqCst
    # (or separated by a SeqCst fence)
    why = "store-buffering pair of the give-up / hand-off handshake: needs sequential consistency"
    ctx.mo_floor(SB + ".unparked", ("store",), "SEQ", "unparked-store", why)
    ctx.mo_floor(SB + ".unparked", ("load",), "SEQ", "unparked-load", why)
    ctx.mo_floor(SB + ".release", ("store",), "SEQ", "release-store", why)
    ctx.mo_floor(SB + ".release", ("swap",), "SEQ", "release-swap", why)
    # the order inside each side of the pair
    for fid, first, second, inst in ((None, None, None, None),):
        pass
    f = ctx.fn(rule, SB + "::take_release", "swap-false")
    if f is not None:
        ok = False; site = None
        for pt in ctx.an.sites(f, atomic("swap", SB + ".release"), "must"):
            site = pt; ok = const_int(f, f.node(pt)["args"][1]) == 0
        ctx.ob(rule, SB + "::take_release", "swap-false", ok, "take_release consumes the request (swap(false)): exactly one side wins" if ok else
               "take_release no longer clears the flag atomically: both sides can forward", f.where(site))
    # SyncBlocker ignores cancel itself (callers handle it): Blocker::new(true)
    f = ctx.fn(rule, SB + "::current", "ignore-cancel")
    if f is not None:
        ok = False; site = None
        for pt in ctx.an.sites(f, Call(r"may::sync::blocking::Blocker::new"), "must"):
            site = pt; ok = const_int(f, f.node(pt)["args"][0]) == 1
        ctx.ob(rule, SB + "::current", "ignore-cancel", ok, "SyncBlocker parks with cancel ignored, so Canceled is reported to the handshake instead of panicking inside park" if ok else
               "SyncBlocker::current no longer creates a cancel-ignoring Blocker: a cancel would panic inside park and skip the forwarding handshake", f.where(site))

# ------------------------------------------------------------------------------------------------
# poison flag (C09, C13)

def poison_rules(ctx):
    C = "may::cancel::CancelImpl"
    FD = "may::sync::poison::Flag::done"
    PST = atomic("store", "may::sync::poison::Flag.failed")
    ctx.guarded(FD, PST, call_true(r"std::thread::panicking"), "poison-only-when-panicking", "a guard poisons only when dropped by a panic", pred_label="edge `thread::panicking()` is true")
    def not_canceled_edge(a):
        if a.kind != "truth" or a.truth is not False: return False
        o = a.origin
        alts = [simplify(x) for x in o[2]] if o[0] == "phi" else [o]
        return any(x[0] == "call" and x[2] == C + "::is_canceled" for x in alts)
    # (in thread context there is no cancel: the `else { false }` arm of `is_canceled` is threaded straight to the store)
    ctx.guarded(FD, PST, any_of(not_canceled_edge, call_false(r"may::coroutine_impl::is_coroutine")), "no-poison-on-cancel", "a guard dropped by a cancellation unwind releases without poisoning", pred_label="edge `is_canceled` is false")
    ctx.must_follow(FD, None, Call(re.escape(C) + "::is_canceled", transitive=False), "coroutine-consults-cancel", "in coroutine context the cancel state is consulted before poisoning",
                    edge=call_true(r"may::coroutine_impl::is_coroutine"), edge_label="edge `is_coroutine()` is true", exits=lambda g: ctx.an.sites(g, PST, "must"))
    def guard_not_panicking(a):
        return a.kind == "truth" and a.truth is False and all_fields(a.origin)[-1:] == ["may::sync::poison::Guard.panicking"]
    ctx.guarded(FD, PST, guard_not_panicking, "poison-only-new-panic", "no poisoning when the guard was created while already panicking", pred_label="edge `guard.panicking` is false")

# ------------------------------------------------------------------------------------------------
# cqueue: drain before Finished (C14, C16)

def cqueue_finished_rules(ctx):
    CQ = "may::cqueue::Cqueue"
    PL = CQ + "::poll"
    f = ctx.fn("R-EXIT", PL, "cqueue/drain-before-finished")
    if f is not None:
        cz = lambda a: a.kind == "cmp" and a.op == "Eq" and is_call_result(A("load"), CQ + ".cnt")(a.a) and is_const(0)(a.b)
        es = ctx.edges(f, cz)
        fin = ctx.an.sites(f, Agg("may::cqueue::PollError", "Finished", transitive=False), "may")
        pops = ctx.an.sites(f, Call(MQ_MPSC + "pop", on=CQ + ".ev_queue", transitive=False), "must")
        if not es or not fin or not pops:
            ctx.missing("R-EXIT", PL, "cqueue/drain-before-finished", "cnt==0 edges=%d Finished=%d pop=%d" % (len(es), len(fin), len(pops)))
        else:
            r = ctx.an.reach(f, [Point(tb, 0) for _, tb, _ in es], blocked=pops)
            bad = [x for x in fin if x in r]
            ctx.ob("R-EXIT", PL, "cqueue/drain-before-finished", not bad,
                   "after seeing cnt == 0 the queue is popped once more before Finished is reported: every Done event (= every join of a selector) is consumed first" if not bad else
                   "poll reports Finished right after seeing cnt == 0: a Done event pushed between the empty pop and the cnt load is skipped, so its selector is not joined and may still be running when the cqueue is freed",
                   f.where(sorted(fin)[0]))
        ctx.mo_floor(CQ + ".cnt", ("fetch_sub",), "REL", "cqueue/cnt-dec-release", "the Done push is visible to the poller that sees the decrement", only_in=r"<may::cqueue::EventSender as std::ops::Drop>::drop")
        ctx.mo_floor(CQ + ".cnt", ("load",), "ACQ", "cqueue/cnt-load-acquire", "", only_in=re.escape(PL))

# ------------------------------------------------------------------------------------------------
# queue index commit rules (C03, C01: the global run queue must not skip or repeat a coroutine)

def queue_commit_rules(ctx):
    MQ = "may_queue::mpsc"; SQ = "may_queue::spsc"
    BP = MQ + "::Queue::bulk_pop"; POP = MQ + "::Queue::pop"
    # the committed pop index equals the end of the range that was copied out (an index jumped past
    # unread slots loses them; an index short of the copied range duplicates them)
    def same_origin_rule(fid, copy_rx, store_on, store_any, inst, what):
        f = ctx.fn("R-ENUM", fid, inst)
        if f is None: return
        ends = [simplify(trace_operand(f, f.node(pt)["args"][2])) for pt in sorted(ctx.an.sites(f, Call(copy_rx, transitive=False), "must"))]
        stores = [(pt, simplify(trace_operand(f, f.node(pt)["args"][1]))) for pt in sorted(ctx.an.sites(f, Call(A("store"), on=store_on, on_any=store_any, transitive=False), "must"))]
        if not ends or not stores:
            ctx.missing("R-ENUM", fid, inst, "copy_to_bulk (%d) / index store (%d) not found" % (len(ends), len(stores))); return
        ok = all(any(v == e for e in ends) for _, v in stores)
        ctx.ob("R-ENUM", fid, inst, ok, "%s: the index committed is exactly the `end` of the copied range" % what if ok else
               "%s commits an index (%s) that is not the end of the range it copied out (%s): slots are skipped (values lost) or re-read (duplicated)" %
               (what, [fmt_origin(v) for _, v in stores], [fmt_origin(e) for e in ends]), f.where(stores[0][0]))
    same_origin_rule(BP, re.escape(MQ) + "::BlockNode::copy_to_bulk", MQ + "::Position.index", None, "mpsc/bulk-commit-equals-range", "mpsc bulk_pop")
    same_origin_rule(SQ + "::Queue::bulk_pop", re.escape(SQ) + "::BlockNode::copy_to_bulk", SQ + "::Position.index", SQ + "::Queue.head", "spsc/bulk-commit-equals-range", "spsc bulk_pop")
    def plus_one_rule(fid, store_on, store_any, inst, what):
        f = ctx.fn("R-ENUM", fid, inst)
        if f is None: return
        ok = False; site = None
        for pt in sorted(ctx.an.sites(f, Call(A("store"), on=store_on, on_any=store_any, transitive=False), "must")):
            v = simplify(trace_operand(f, f.node(pt)["args"][1])); site = pt
            while v[0] == "field" and v[2] == "(tuple)": v = simplify(v[1])
            if v[0] == "bin" and v[1].startswith("Add") and is_const(1)(simplify(v[3])) and simplify(v[2])[0] == "call": ok = True
            if v[0] == "call" and (v[2] or "").endswith("wrapping_add"):
                t = f.term(v[1]); ok = is_const(1)(simplify(trace_operand(f, t["args"][1])))
        ctx.ob("R-ENUM", fid, inst, ok, "%s commits index + 1" % what if ok else "%s no longer commits exactly index + 1" % what, f.where(site))
    plus_one_rule(POP, MQ + "::Position.index", None, "mpsc/pop-commit-plus-one", "mpsc pop")
    plus_one_rule(SQ + "::Queue::pop", SQ + "::Position.index", SQ + "::Queue.head", "spsc/pop-commit-plus-one", "spsc pop")
    plus_one_rule(SPUSH if False else SQ + "::Queue::push", SQ + "::Position.index", SQ + "::Queue.tail", "spsc/push-commit-plus-one", "spsc push")
    block_boundary_rules(ctx)
    mpsc_tail_protocol(ctx)
    mpsc_bulk_value_rules(ctx)
    spsc_block_recycling_rules(ctx)
    copy_to_bulk_rules(ctx)
    mpsc_block_start_chain(ctx)
    # the block-boundary test uses the committed index, and the block is advanced on exactly its aligned edge
    f = ctx.fn("R-ENUM", BP, "mpsc/bulk-boundary-test-uses-commit")
    if f is not None:
        stores = [simplify(trace_operand(f, f.node(pt)["args"][1])) for pt in sorted(ctx.an.sites(f, Call(A("store"), on=MQ + "::Position.index", transitive=False), "must"))]
        def masked_commit(o):
            o = simplify(o)
            return o[0] == "bin" and o[1] == "BitAnd" and any(simplify(o[2]) == v or simplify(o[3]) == v for v in stores)
        aligned = lambda a: cmp_matches(a, "Eq", masked_commit, is_const(0))
        es = ctx.edges(f, aligned)
        ok = bool(es)
        ctx.ob("R-ENUM", BP, "mpsc/bulk-boundary-test-uses-commit", ok, "the block is retired iff the committed index is block-aligned" if ok else
               "mpsc bulk_pop's block-boundary test is not on the index it commits", f.where())
        if ok:
            ADV = Call(A("store"), on=MQ + "::Position.block", transitive=False)
            ctx.guarded(BP, ADV, aligned, "mpsc/bulk-advance-only-when-aligned",
                        "bulk_pop moves head.block to the next block only when the index it committed is block-aligned (otherwise the unread rest of the block is skipped)",
                        rule="R-ENUM", pred_label="edge `(committed index & BLOCK_MASK) == 0`")
            ctx.must_follow(BP, None, ADV, "mpsc/bulk-aligned-advances",
                            "when the committed index is block-aligned bulk_pop moves head.block on (otherwise the next pop reads the exhausted block again)",
                            rule="R-ENUM", edge=aligned, edge_label="edge `(committed index & BLOCK_MASK) == 0`")

# ------------------------------------------------------------------------------------------------
# R-LIN: linear ownership of the suspended coroutine (C01, C02)

def _strip_shared(t):
    out = t
    for head in ("std::sync::Arc<", "std::rc::Rc<", "std::sync::Weak<"):
        while head in out:
            i = out.index(head); j = i + len(head); d = 1
            while j < len(out) and d:
                if out[j] == '<': d += 1
                elif out[j] == '>' and out[j - 1] != '-': d -= 1
                j += 1
            out = out[:i] + "SHARED" + out[j:]
    return out

def owns_coroutine(prog, t, memo=None, depth=0):
    """type string denotes a value that owns (by value, not through Arc/&/raw pointer) a suspended coroutine"""
    memo = memo if memo is not None else {}
    if t in memo: return memo[t]
    if depth > 6: return False
    memo[t] = False
    s = _strip_shared(t).strip()
    r = False
    if s.startswith("&") or s.startswith("*const") or s.startswith("*mut"): r = False
    elif "GeneratorObj" in s or "generator::gen_impl::Generator" in s: r = True
    else:
        for name in set(re.findall(r"(may(?:_queue)?::[\w:]+)", s)):
            a = prog.adts.get(norm(name))
            if a:
                for v in a["variants"]:
                    for fld in v["fields"]:
                        if owns_coroutine(prog, fld["t"], memo, depth + 1): r = True
    memo[t] = r
    return r

# (function, head of the dropped type) -> reason; everything else is a violation
COROUTINE_SINKS = {
    ("may::coroutine_impl::Done::drop_coroutine", "GeneratorObj"): "a finished coroutine whose stack is not recycled (non-default size)",
    ("may::pool::CoroutinePool::put", "GeneratorObj"): "a finished coroutine's stack when the pool is full",
    ("may::scheduler::Scheduler::collect_global", "smallvec::IntoIter"): "the exhausted iterator of a drained batch (every element was moved to the local queue)",
    ("may::scheduler::Scheduler::collect_global", "smallvec::SmallVec"): "the empty batch that ends the drain loop",
    ("may::cqueue::Cqueue::poll", "may::cqueue::Event"): "a Done event (constructed with co: None) or an event whose coroutine was taken by continue_bottom",
    ("<may::cqueue::Cqueue as std::ops::Drop>::drop", "std::result::Result"): "events returned by poll during the final drain (their coroutine was taken by continue_bottom)",
    ("may::cqueue::scope", "may::cqueue::Cqueue"): "the Cqueue itself, whose Drop drains it",
    ("may::io::sys::select::Selector::new", "may::io::sys::select::Selector"): "construction failure: no coroutine exists yet",
    ("may::scheduler::Scheduler::new", "may_queue::spmc::Steal"): "a clone of the shared stealer handle (Arc inside)",
    ("may::scheduler::Scheduler::new", "may::crossbeam_queue_shim::Steal"): "a clone of the shared stealer handle (crossbeam Stealer: Arc inside)",
}

def coroutine_linearity_rules(ctx):
    memo = {}
    seen = set(); n = 0
    for f in sorted(ctx.prog.fns.values(), key=lambda x: x.id):
        if not (f.id.startswith("may::") or f.id.startswith("<may::") or f.id.startswith("<T as may")): continue
        for pt in f.points():
            if not f.is_term(pt): continue
            nd = f.node(pt)
            if nd["t"] == "drop":
                ty = nd["ty"]
            elif nd["t"] == "call" and (callee_name(nd) or "") in ("std::mem::drop", "core::mem::drop", "std::mem::forget", "core::mem::forget") and nd["args"]:
                pl = nd["args"][0].get("m") or nd["args"][0].get("c")
                ty = type_of_place(f, pl) if pl else None
                if ty is None: continue
            else:
                continue
            if not owns_coroutine(ctx.prog, ty, memo): continue
            n += 1
            base = f.id.split("::{closure#")[0]
            head = "GeneratorObj" if ty.startswith("generator::gen_impl::GeneratorObj") else ty.split("<", 1)[0]
            key = (base, head)
            if key in seen: continue
            seen.add(key)
            ok = key in COROUTINE_SINKS
            ctx.fns_touched.add(f.id)
            ctx.ob("R-LIN", base, "no-silent-drop:" + head.rsplit("::", 1)[-1], ok,
                   "normal-path drop of a coroutine-owning %s in %s is an enumerated sink: %s" % (head, base, COROUTINE_SINKS.get(key)) if ok else
                   "%s drops a value of type %s that owns a suspended coroutine on a NORMAL path and is not an enumerated sink: that coroutine never runs to its end (its join hangs)" % (base, ty[:120]),
                   f.where(pt))
    if n < 8:
        ctx.missing("R-LIN", "coroutine drops", "no-silent-drop", "expected ≥8 normal-path drops of coroutine-owning values (the enumerated sinks), found %d" % n)
    # forge / duplicate sites: raw round trips of a coroutine
    ctx.who_may_call(r"generator::gen_impl::Generator(Obj|Impl)::(from_raw|into_raw)|generator::gen_impl::Generator::(from_raw|into_raw)",
                     {"may::sync::spsc::Blocker::new_coroutine", "may::sync::spsc::Blocker::into_coroutine"}, "raw-round-trip-sites",
                     "a coroutine is turned into / rebuilt from a raw pointer only by spsc::Blocker (each consuming its source): nothing else can forge or duplicate one", rule="R-LIN", min_callers=2)
    ctx.who_may_call(r"may::sync::spsc::Blocker::into_coroutine", {"may::sync::spsc::Blocker::unpark", "<may::sync::spsc::Park as may::coroutine_impl::EventSource>::subscribe"},
                     "into-coroutine-callers", "the raw handle is turned back into a coroutine only where the Blocker was just taken out of the slot (consumed by value)", rule="R-LIN", min_callers=2)
    # AtomicOption surface: no accessor that could hand out a second owner
    ms = set()
    for im in ctx.prog.impls:
        if norm(im.get("self_adt") or "") == "may::sync::atomic_option::AtomicOption" and not im.get("trait"):
            ms |= set(m["n"] for m in im["methods"])
    ok = ms == {"none", "some", "store", "take", "clear"}
    ctx.ob("R-API", "may::sync::atomic_option::AtomicOption", "surface", ok,
           "AtomicOption exposes exactly {none, some, store, take, clear}: a value can only be moved in or moved out (two resumers cannot both obtain the coroutine)" if ok else
           "AtomicOption's inherent API is %s; anything beyond {none, some, store, take, clear} (a getter, a peek, a clone) lets two parties hold the same coroutine" % sorted(ms), None)

# ---------------------------------------------------------------------------------------------------------------------------
# scoped.rs: the deferred-join chain is walked "transactionally" (seeds C13-3 / C14-3)
def _cell_fields(f, o):
    """fields named by an origin, looking through a RefCell::borrow_mut() / Deref(Mut) of the guard"""
    o = simplify(o)
    for _ in range(6):
        while o[0] in ("ref", "deref", "cast"): o = simplify(o[1])
        if o[0] == "call" and re.search(r"RefCell::(borrow_mut|borrow|get_mut)$|::deref(_mut)?$", o[2] or ""):
            t = f.term(o[1])
            if t["args"]: o = simplify(trace_operand(f, t["args"][0])); continue
        break
    return all_fields(o)

def _mentions_field(f, o, fld, depth=0):
    o = simplify(o)
    if fld in all_fields(o): return True
    if depth > 5: return False
    if o[0] == "call":
        t = f.term(o[1])
        return any(_mentions_field(f, trace_operand(f, a), fld, depth + 1) for a in t["args"])
    if o[0] == "phi": return any(_mentions_field(f, a, fld, depth + 1) for a in o[2])
    if o[0] in ("ref", "deref", "cast", "field", "downcast"): return _mentions_field(f, o[1], fld, depth + 1)
    return False

def scope_dtor_chain_rules(ctx):
    """Each deferred destructor joins one scoped coroutine and may re-raise that child's panic out of drop_all; the unwinding then
    runs Drop for Scope, which calls drop_all again to join the REMAINING children. That only works if, at the moment a dtor runs,
    the rest of the chain is stored back in `Scope.dtors` - not held in a local of the unwinding frame (where it would be dropped:
    the remaining JoinHandles are detached and scope() is left while their coroutines still borrow the owner's frame)."""
    D = "may::scoped::Scope::drop_all"
    inst = "scope/remainder-parked-before-dtor"
    f = ctx.fn("R-ORDER", D, inst)
    if f is None: return
    FLD = "may::scoped::Scope.dtors"
    takes = set(); writes = set(); runs = set(); caught_runs = set()
    for pt in f.points():
        n = f.node(pt)
        if f.is_term(pt):
            if n.get("t") != "call" or not n["args"]: continue
            nm = callee_name(n) or ""
            a0 = trace_operand(f, n["args"][0])
            if re.search(r"option::Option::take$|mem::(take|replace)$|RefCell::(take|replace)$", nm) and FLD in _cell_fields(f, a0): takes.add(pt)
            if re.search(r"FnOnce>::call_once$|FnOnce::call_once$|FnBox::call_box$", nm) and "may::scoped::DtorChain.dtor" in all_fields(simplify(a0)): runs.add(pt)
            if nm == "std::panic::catch_unwind":
                x = simplify(a0)
                while x[0] == "agg" and x[3]: x = simplify(x[3][0])          # AssertUnwindSafe(dtor)
                if "may::scoped::DtorChain.dtor" in all_fields(x): caught_runs.add(pt)
        elif n.get("s") == "=" and n["l"]["p"] and not f.is_cleanup(pt.bb):
            if FLD in _cell_fields(f, trace_place(f, n["l"])) and _mentions_field(f, trace_rvalue(f, n["rv"], 0, pt), "may::scoped::DtorChain.next"):
                writes.add(pt)
    if takes and caught_runs and not runs:
        # (F37) every dtor runs under catch_unwind inside the loop: a child's panic cannot leave drop_all, the loop itself goes on to the remaining joins
        ctx.ob("R-ORDER", D, inst, True, "drop_all runs every dtor under catch_unwind: a re-raised child panic is collected, the loop goes on with the remaining joins", f.where(sorted(caught_runs)[0])); return
    if not takes or not runs:
        ctx.missing("R-ORDER", D, inst, "take of Scope.dtors (%d) / dtor invocation (%d)" % (len(takes), len(runs))); return
    r = ctx.an.reach(f, [q for s in takes for q in ctx.an.after(f, s)], blocked=writes)
    bad = sorted(x for x in runs if x in r)
    ctx.ob("R-ORDER", D, inst, not bad,
           "between taking a node out of Scope.dtors and running its dtor, the rest of the chain (`node.next`) is stored back into Scope.dtors, so a dtor that "
           "re-raises a child's panic leaves the remaining joins to Drop for Scope" if not bad else
           "drop_all runs a dtor while the rest of the chain is NOT stored in Scope.dtors: when that dtor re-raises a child's panic the remaining joins are dropped "
           "with the unwinding frame (children detached, scope() left while they still run)", f.where(bad[0] if bad else sorted(runs)[0]),
           detail=ctx.an.fmt_path(f, ctx.an.path(f, [q for s in takes for q in ctx.an.after(f, s)], bad, blocked=writes)) if bad else None)


def park_deadline_sampled_before_arm(ctx):
    SUB = "<may::park::Park as may::coroutine_impl::EventSource>::subscribe"
    f = ctx.fn("R-ORDER", SUB, "deadline-recheck/sampled-before-arm")
    if f is None: return
    # (seed C08-3) the deadline is sampled BEFORE the timer is armed: deadline <= the timer's expiry, so "the timer fired and found
    # the slot empty" implies "the deadline has passed" at the re-check. A deadline sampled after add_timer can lie behind it.
    NOW = Call(r"may::timeout_list::now", transitive=False); ARM = Call(r"may::scheduler::Scheduler::add_timer", transitive=False)
    bodies = [f] + ctx.prog.closures_of(f)
    armers = [(g, ctx.an.sites(g, ARM, "must")) for g in bodies]
    armers = [(g, t) for g, t in armers if t]
    if not armers:
        ctx.missing("R-ORDER", SUB, "deadline-recheck/sampled-before-arm", "no add_timer call in Park::subscribe or its closures")
    else:
        bad = None
        for g, ts in armers:
            ns = ctx.an.sites(g, NOW, "must")
            if ns:
                r = ctx.an.reach(g, [Point(0, 0)], blocked=ns)
                if any(t in r for t in ts): bad = g.where(sorted(ts)[0])
            elif g is f:
                bad = f.where(sorted(ts)[0])
            else:
                # the closure arms without sampling: a sample must precede the combinator that runs it
                inv = [pt for pt in ctx.an.sites(f, Call(r"may::scheduler::Scheduler::add_timer", transitive=True), "may")]
                nm = ctx.an.sites(f, Call(r"may::timeout_list::now", transitive=True), "must")
                r = ctx.an.reach(f, [Point(0, 0)], blocked=nm)
                if not inv or any(t in r for t in inv): bad = g.where(sorted(ts)[0])
        ctx.ob("R-ORDER", SUB, "deadline-recheck/sampled-before-arm", bad is None,
               "the re-check deadline is sampled (now()) before add_timer arms the timer" if bad is None else
               "Park::subscribe arms the timer before it samples the deadline: a stall between the two puts the deadline behind the timer's expiry, the timer "
               "fires on the empty slot, the re-check still sees `now < deadline` and nobody delivers the timeout", bad)


def no_nested_run_under_guard(ctx, rule="R-ORDER"):
    """(F18) A subscriber that runs a coroutine NESTED on the worker's stack (`run_coroutine(co)` inside `subscribe`) must have
    released its delay-drop guard (wait_kernel) first: the resumed coroutine may finish and drop the very object the guard protects,
    and `Drop` then waits - in thread context, on top of the frame that owns the guard - for a flag that can never be cleared."""
    n = 0
    for f in ctx.prog.fns.values():
        if not f.id.startswith(("may::", "<may::")): continue
        guards = [pt for pt in f.points() if f.is_term(pt) and f.node(pt)["t"] == "call" and (callee_name(f.node(pt)) or "").endswith("::delay_drop")]
        runs = sorted(ctx.an.sites(f, Call(r"may::coroutine_impl::run_coroutine", transitive=False), "must"))
        if not guards: continue
        n += 1
        if not runs:
            ctx.ob(rule, f.id, "no-nested-run-under-guard", True, "%s holds a delay-drop guard and resumes no coroutine on top of its own frame" % f.id, f.where(guards[0]))
            continue
        rel = set()
        for pt in f.points():
            if not f.is_term(pt): continue
            t = f.node(pt)
            if t["t"] == "drop" and "DropGuard" in (t.get("ty") or ""): rel.add(pt)
            if t["t"] == "call" and re.fullmatch(r"(std|core)::mem::drop", callee_name(t) or "") and t["args"]:
                a = t["args"][0]; pl = a.get("m") or a.get("c")
                if pl is not None and "DropGuard" in f.locals[pl["l"]]: rel.add(pt)
        r = ctx.an.reach(f, [q for g in guards for q in ctx.an.after(f, g)], blocked=rel)
        bad = [x for x in runs if x in r]
        ctx.ob(rule, f.id, "no-nested-run-under-guard", not bad,
               "%s releases its delay-drop guard before it resumes a coroutine on top of its own frame" % f.id if not bad else
               "%s runs a coroutine nested (run_coroutine) while its delay-drop guard is still held: if that coroutine finishes (or parks again) the protected "
               "object's Drop / next park waits on the worker stack for a flag only the frame below can clear - the worker thread is lost" % f.id,
               f.where((bad or runs)[0]))
    if n < 2:
        ctx.missing(rule, "may::park::DropGuard", "no-nested-run-under-guard", "expected >= 2 subscribers holding a delay-drop guard (park.rs, sync/spsc.rs), found %d" % n)


def mpsc_pop_reports_empty_only_when_empty(ctx):
    """dependency rule (C03 owns it; C05/C10/C11/C12 wait queues and C06/C07 channels rely on it): may_queue::mpsc::Queue::pop returns None
    only behind `pop_index >= push_index()` - a slot that was reserved by a producer's CAS but not yet written is waited for, never
    reported as "queue empty" (an unlocker that popped None would hand the lock / permit to nobody)."""
    MQ = "may_queue::mpsc"; POP = MQ + "::Queue::pop"
    pidx = is_call_result(re.escape(MQ) + "::Queue::push_index")
    empty = lambda a: a.kind == "cmp" and ((a.op == "Ge" and pidx(a.b)) or (a.op == "Le" and pidx(a.a)))
    ctx.guarded(POP, Agg(r"(std|core)::option::Option", "None", transitive=False), empty, "mpsc/none-only-if-empty",
                "pop returns None only when pop_index >= push_index (a reserved but not yet written slot is waited for, not reported as empty)",
                pred_label="edge `pop_index >= push_index()`")


def own_sites(ctx, g, ev):
    """sites of g that perform `ev` themselves: direct matches, plus calls that are handed a closure of g which performs it directly
    (`opt.map(|w| w.unpark())`). Unlike a transitive event this does not look into named callees."""
    out = set(ctx.an.sites(g, ev, "must"))
    cl = set(c.id for c in ctx.prog.closures_of(g) if ctx.an.sites(c, ev, "must"))
    if cl:
        for pt in g.points():
            if g.is_term(pt) and g.node(pt)["t"] == "call" and any(norm(c) in cl or c in cl for c in closure_args(g, g.node(pt))):
                out.add(pt)
    return out


# ---------------------------------------------------------------------------------------------------------------------------
# round-3 seeds
def check_cancel_consumes(ctx):
    """(seeds C01-6, C02-5, C09-5: three agents, same slip) check_cancel consumes the injected Canceled result whenever the cancel bit is
    set - also when it must not panic because the coroutine is already unwinding; a result left in the generator survives stack reuse"""
    CK = "may::cancel::CancelImpl::check_cancel"
    ctx.must_follow(CK, None, Call(r"may::yield_now::get_co_para", transitive=False), "check-cancel-always-consumes",
                    "check_cancel consumes the injected Canceled result whenever the cancel bit is set, also when it must not panic (already unwinding)",
                    edge=lambda a: a.kind == "cmp" and a.op == "Eq" and is_call_result(A("load"))(a.a) and is_const(1)(a.b), edge_label="edge `state.load() == 1`")

def mpsc_fast_bulk_contiguous(ctx):
    """(seed C01-5) mpsc fast_bulk_pop takes a CONTIGUOUS prefix of ready slots: it stops at the first slot whose producer has reserved
    but not yet written it. Skipping such a slot (filter instead of take-while) commits an index past an unread slot: that element is
    lost and a later one is handed out twice."""
    FB = "may_queue::mpsc::Queue::fast_bulk_pop"; inst = "mpsc/fast-bulk-stops-at-first-gap"
    f = ctx.fn("R-EXIT", FB, inst)
    if f is None: return
    TG = Call(r"may_queue::mpsc::BlockNode::try_get", transitive=False)
    direct = ctx.an.sites(f, TG, "must")
    if direct:
        es = ctx.edges(f, variant_of_call(r"may_queue::mpsc::BlockNode::try_get", "None"))
        if not es:
            ctx.missing("R-EXIT", FB, inst, "no edge `try_get()` is None"); return
        r = ctx.an.reach(f, [Point(tb, 0) for _, tb, _ in es])
        bad = [d for d in direct if d in r]
        ctx.ob("R-EXIT", FB, inst, not bad, "after the first not-ready slot fast_bulk_pop reads no further slot (contiguous prefix)" if not bad else
               "fast_bulk_pop goes on reading slots after a not-ready one: the committed index passes an unread slot (lost element, duplicate delivery)", f.where((bad or sorted(direct))[0]))
        return
    # the scan is an iterator chain: the adapter that runs try_get must be one that stops at the first None
    ok = None; site = None
    for pt in f.points():
        if not f.is_term(pt) or f.node(pt)["t"] != "call": continue
        cl = [ctx.prog.fns.get(c) for c in closure_args(f, f.node(pt))]
        if any(c is not None and ctx.an.sites(c, TG, "must") for c in cl):
            site = pt
            nm = (callee_name(f.node(pt)) or "").rsplit("::", 1)[-1]
            ok = nm in ("map_while", "take_while", "scan")
    if ok is None:
        ctx.missing("R-EXIT", FB, inst, "no try_get scan found in fast_bulk_pop"); return
    ctx.ob("R-EXIT", FB, inst, ok, "the slot scan stops at the first not-ready slot (map_while / take_while)" if ok else
           "fast_bulk_pop scans the slots with an adapter that skips not-ready slots instead of stopping at the first one: the committed index passes an unread slot "
           "(lost element, duplicate delivery)", f.where(site))

def _resolve_upvar_origin(f, o, depth=0):
    """origin with a leading closure-upvar projection replaced by what the parent function captured there"""
    o = simplify(o)
    ch, root = field_chain(o)
    if depth < 3 and ch and ch[0][0].startswith("closure:") and root[0] == "arg" and root[1] == 1 and "::{closure" in f.id:
        parent = f.prog.fns.get(f.id.rsplit("::{closure", 1)[0])
        try: idx = int(ch[0][1])
        except ValueError: idx = None
        if parent is not None and idx is not None:
            cid = norm(ch[0][0][len("closure:"):])
            for b in parent.blocks:
                if b.get("ghost"): continue
                for st in b["st"]:
                    if st.get("s") == "=" and st["rv"]["r"] == "agg" and st["rv"].get("ak") == "closure" and norm(st["rv"]["did"]) == cid and idx < len(st["rv"]["ops"]):
                        return parent, _resolve_upvar_origin(parent, trace_operand(parent, st["rv"]["ops"][idx]), depth + 1)[1]
    return f, o

def is_own_blocker_arg(g, t, argi):
    """argument argi of the call is the caller's own blocker (`SyncBlocker::current()`), possibly captured by a closure"""
    if len(t["args"]) <= argi: return False
    h, o = _resolve_upvar_origin(g, trace_operand(g, t["args"][argi]))
    for _ in range(6):
        while o[0] in ("ref", "deref", "clone", "field", "downcast", "index", "cast"): o = simplify(o[1])
        if o[0] == "call" and re.search(r"::(deref|as_ref|borrow|clone)$", o[2] or "") and h.term(o[1])["args"]:
            o = simplify(trace_operand(h, h.term(o[1])["args"][0])); continue
        break
    alts = o[2] if o[0] == "phi" else [o]
    return any(x[0] == "call" and (x[2] or "").endswith("SyncBlocker::current") for x in alts)

def wakes_dequeued_waiter(ctx, type_path, helper="unpark_one", rule="R-SIB"):
    """(seed C05-6) the blocker handed to the wake-up helper is the one that was dequeued, never the caller's own: waking oneself
    while discarding the popped waiter strands that waiter (its blocker is gone from the queue, nobody will unpark it)"""
    n = 0
    for k, g in sorted(ctx.prog.fns.items()):
        if not k.startswith(type_path + "::"): continue
        for pt in sorted(ctx.an.sites(g, Call(re.escape(type_path) + "::" + helper, transitive=False), "must")):
            n += 1
            bad = is_own_blocker_arg(g, g.node(pt), 1)
            ctx.ob(rule, k, "wakes-the-dequeued-waiter", not bad, "%s hands the dequeued blocker to %s" % (k, helper) if not bad else
                   "%s pops a waiter but hands its OWN blocker to %s: the popped waiter is dropped from the queue without being woken (stranded), the caller wakes itself" % (k, helper),
                   g.where(pt))
    if not n:
        ctx.missing(rule, type_path + "::" + helper, "wakes-the-dequeued-waiter", "no call of %s::%s found" % (type_path, helper))

def no_panicking_instant_arithmetic(ctx, rule="R-NUM"):
    """(seed C10-6; same family as F17) `Instant + Duration` panics on overflow. A timeout like Duration::MAX ("no timeout") given to a
    timed wait must saturate / be checked, not panic in the middle of the wait protocol (the waiter is already registered and counted)."""
    bad = []; n = 0
    for k, f in ctx.prog.fns.items():
        if not k.lstrip("<&'a ").startswith("may"): continue
        for pt in f.points():
            if not f.is_term(pt) or f.node(pt)["t"] != "call": continue
            nm = callee_name(f.node(pt)) or ""
            if re.search(r"(Instant|SystemTime)::checked_(add|sub)$|Duration::(checked|saturating)_(add|sub|mul)$", nm): n += 1
            if re.search(r"<std::time::(Instant|SystemTime) as std::ops::(Add|Sub|AddAssign|SubAssign)(<[^>]*>)?>::", nm) and "Duration" in " ".join(callee_generic_args(f.node(pt)) + [f.locals[(a.get("m") or a.get("c") or {"l": 0})["l"]] for a in f.node(pt)["args"][1:2] if (a.get("m") or a.get("c"))]):
                bad.append((f, pt, nm))
    ctx.ob(rule, "std::time::Instant", "no-panicking-instant-arithmetic", not bad,
           "no `Instant +/- Duration` with the panicking operators in may (deadlines use checked_add / saturating arithmetic; %d checked sites)" % n if not bad else
           "%s computes a deadline with the panicking `Instant + Duration`: a huge timeout (Duration::MAX used as 'no timeout') panics inside the wait, after the waiter "
           "registered itself - its permit / notification is handed to a dead waiter" % bad[0][0].id, bad[0][0].where(bad[0][1]) if bad else None)


def injected_kinds(ctx, rule="R-ENUM"):
    """(seed C02-6) park_timeout / the io front-ends decode an injected result purely by its io::ErrorKind: TimedOut -> Timeout,
    Other -> Canceled. Every resumer therefore injects the kind of what it stands for: the four timeout deliverers (timer-thread
    handler, io timeout handler, the two deadline re-checks) TimedOut, cancel Other. A timeout delivered as `Other` is reported as
    Canceled to a coroutine nobody cancelled (the sync primitives then kill it with a Cancel panic)."""
    want = {"may::scheduler::init_scheduler": "TimedOut", "may::io::sys::timeout_handler": "TimedOut",
            "<may::park::Park as may::coroutine_impl::EventSource>::subscribe": "TimedOut", "may::io::sys::EventData::store_co": "TimedOut",
            "may::cancel::CancelImpl::cancel": "Other"}
    n = 0
    for k, f in sorted(ctx.prog.fns.items()):
        base = k.split("::{closure")[0]
        for pt in sorted(ctx.an.sites(f, Call(r"may::yield_now::set_co_para", transitive=False), "must")):
            t = f.node(pt)
            o = simplify(trace_operand(f, t["args"][1]))
            kind = None
            if o[0] == "call":
                nm = o[2] or ""; ct = f.term(o[1])
                if nm.endswith("io::Error::other"): kind = "Other"
                elif nm.endswith("io::Error::new") and ct["args"]:
                    ko = simplify(trace_operand(f, ct["args"][0]))
                    if ko[0] == "agg" and "ErrorKind" in (ko[1] or ""): kind = ko[2]
                    elif ko[0] == "const" and ko[1]: 
                        m = re.search(r"ErrorKind::(\w+)", ko[1]); kind = m.group(1) if m else None
                elif nm.endswith("io::Error::from") and ct["args"]:
                    ko = simplify(trace_operand(f, ct["args"][0]))
                    if ko[0] == "agg" and "ErrorKind" in (ko[1] or ""): kind = ko[2]
            exp = want.get(base)
            n += 1
            if exp is None:
                continue          # not a frozen injector: the who-may-call rule `result-injectors` reports it
            ctx.ob(rule, base, "injected-kind", kind == exp, "%s injects io::ErrorKind::%s" % (base, exp) if kind == exp else
                   "%s injects %s where the decoders expect %s: park_timeout / the io front-ends map the kind to Timeout (TimedOut) or Canceled (Other) - "
                   "the woken coroutine is told the wrong reason" % (base, "ErrorKind::%s" % kind if kind else "an error of unknown kind", exp), f.where(pt))
    # without the io_timeout feature (config `bare`) the io timeout handler and the io deadline re-check do not exist
    floor = 3 if ctx.cfg == "bare" else 4
    if n < floor:
        ctx.missing(rule, "may::yield_now::set_co_para", "injected-kind", "expected >= %d result injection sites, found %d" % (floor, n))


def agg_field_origins(ctx, f, adt, var, field):
    """[(point, origin)] of the operand stored in `field` by every aggregate construction of adt::var in f"""
    out = []
    for pt in f.points():
        if f.is_term(pt): continue
        n = f.node(pt)
        if n.get("s") == "=" and n["rv"]["r"] == "agg" and n["rv"].get("ak") == "adt" and norm(n["rv"]["adt"]) == adt and \
           (n["rv"].get("var") == var or (ctx.prog.adts.get(adt) or {}).get("kind") == "Struct"):     # a struct has one variant, whatever it is called
            names = n["rv"].get("fields") or []
            if field in names:
                out.append((pt, simplify(trace_operand(f, n["rv"]["ops"][names.index(field)]))))
    return out


def cqueue_selector_slot_rules(ctx, rule="R-ENUM"):
    """(seed C16-6) a select coroutine's EventSender.id is the index of its JoinHandle in Cqueue.selectors: check_panic(ev.id) joins
    `selectors[id]`. The index of the next push is the number of pushes so far, which is what `total` counts - not `cnt`, the number
    of selectors that are still alive. Necessary: the id is read from `total`, `total` is advanced exactly where a handle is pushed,
    once per push, and the Done event carries the sender's own id."""
    CQ = "may::cqueue::Cqueue"; AI = CQ + "::add_impl"; ES = "may::cqueue::EventSender"
    f = ctx.fn(rule, AI, "add/id-is-slot-index")
    if f is None: return
    ids = agg_field_origins(ctx, f, ES, "EventSender", "id")
    if not ids:
        ctx.missing(rule, AI, "add/id-is-slot-index", "no construction of EventSender in add_impl")
    else:
        def from_total(o):
            while o[0] == "cast": o = simplify(o[1])
            if o[0] != "call" or not re.fullmatch(A("(load|fetch_add)"), o[2] or ""): return False
            return receiver_leaf(f, f.term(o[1])) == CQ + ".total"
        bad = [(pt, o) for pt, o in ids if not from_total(o)]
        ctx.ob(rule, AI, "add/id-is-slot-index", not bad, "EventSender.id is the value of `total` (the number of handles pushed so far = the index of this selector's handle)" if not bad else
               "EventSender.id is %s, not the value of Cqueue.total: once a selector has finished, a later one gets an id that is not the index of its own JoinHandle - "
               "check_panic joins (and takes) another selector's handle" % fmt_origin(bad[0][1]), f.where(bad[0][0] if bad else ids[0][0]))
    PUSH = Call(r"(alloc|std)::vec::Vec::push", transitive=False)
    INC = atomic("fetch_add", CQ + ".total", transitive=False)
    ctx.must_call(AI, PUSH, "add/handle-pushed", "every add stores the selector's JoinHandle", rule=rule)
    ctx.must_call(AI, INC, "add/total-counts-push", "every add advances `total` (the next selector's slot index)", rule=rule)
    incs = sorted(ctx.an.sites(f, INC, "must")); pushes = sorted(ctx.an.sites(f, PUSH, "must"))
    ok1 = len(incs) == 1 and len(pushes) == 1 and const_int(f, f.node(incs[0])["args"][1]) == 1
    ctx.ob(rule, AI, "add/one-slot-per-selector", ok1, "exactly one push and one `total += 1` per added selector" if ok1 else
           "add_impl has %d push(es) and %d increment(s) of `total` (or the increment is not 1): ids and slot indices drift apart" % (len(pushes), len(incs)), f.where())
    writers = sorted(set(g.id.split("::{closure")[0] for g, pt, t, m in ctx.mo_sites(CQ + ".total", ("store", "fetch_add", "fetch_sub", "swap", "compare_exchange", "fetch_update"))))
    okw = writers == [AI]
    ctx.ob("R-WHO", CQ + ".total", "add/total-only-advanced-by-add", okw, "`total` is written only by add_impl" if okw else "`total` is also written by %s" % [w for w in writers if w != AI], None)
    # the Done event carries the id of the sender that is going away
    DR = "<may::cqueue::EventSender as std::ops::Drop>::drop"
    g = ctx.fn(rule, DR, "sender-drop/done-carries-own-id")
    if g is not None:
        evs = agg_field_origins(ctx, g, "may::cqueue::Event", "Event", "id")
        okd = bool(evs) and all(all_fields(o)[-1:] == [ES + ".id"] for _, o in evs)
        ctx.ob(rule, DR, "sender-drop/done-carries-own-id", okd, "the Done event is labelled with the dropped sender's id" if okd else
               "the Done event built in Drop for EventSender does not carry `self.id`", g.where())


def condvar_relock_keeps_guard(ctx, rule="R-PAIR"):
    """(seed C13-6) Condvar::wait_impl re-acquires the mutex with `lock.lock()` and must leave it locked: the caller still owns the
    original MutexGuard. Both variants of the LockResult hold a live guard (Err(PoisonError(guard)) too), so neither may be dropped:
    a dropped guard unlocks the mutex under the caller's feet (two owners) and the caller's guard unlocks it a second time."""
    WI = "may::sync::condvar::Condvar::wait_impl"
    f = ctx.fn(rule, WI, "condvar/relock-guard-not-dropped")
    if f is None: return
    locks = ctx.an.sites(f, Call(r"may::sync::mutex::Mutex::lock", transitive=False), "must")
    if not locks:
        ctx.missing(rule, WI, "condvar/relock-guard-not-dropped", "no call of Mutex::lock in wait_impl"); return
    drops = [pt for pt in f.points() if f.is_term(pt) and f.node(pt)["t"] == "drop" and "MutexGuard" in f.node(pt)["ty"]]
    calls = sorted(ctx.an.sites(f, Call(r"(std|core)::mem::drop", transitive=False, where=lambda g, pt, t: "MutexGuard" in (g.locals[t["args"][0].get("m", t["args"][0].get("c", {})).get("l", 0)] if t["args"] and ("m" in t["args"][0] or "c" in t["args"][0]) else "")), "must"))
    bad = sorted(drops) + calls
    ctx.ob(rule, WI, "condvar/relock-guard-not-dropped", not bad, "the guard obtained by the re-lock is never dropped in wait_impl (Ok and Poisoned alike): the mutex stays locked for the caller's guard" if not bad else
           "wait_impl drops a value holding the MutexGuard of its own re-lock: on that path the mutex is released although the caller continues with its guard "
           "(a poisoned re-lock still returns a live guard inside the PoisonError)", f.where(bad[0]) if bad else f.where())
    ctx.must_call(WI, Call(r"may::sync::mutex::Mutex::lock", transitive=False), "condvar/always-relocks", "wait_impl re-acquires the mutex on every path before it returns", rule=rule)


# ------------------------------------------------------------------------------------------------
# block-boundary discipline of the block queues (C03, C04, C01, C06): the side that commits an index moves its block pointer to the
# next block exactly when the committed index is block-aligned

def _sv(o):
    """strip casts and the (value, overflow) tuple of checked arithmetic"""
    o = simplify(o)
    while True:
        if o[0] == "cast": o = simplify(o[1]); continue
        if o[0] == "field" and o[2] == "(tuple)" and str(o[3]) == "0" and simplify(o[1])[0] == "bin" and "WithOverflow" in simplify(o[1])[1]:
            b = simplify(o[1]); o = O("bin", b[1].replace("WithOverflow", ""), b[2], b[3]); continue
        return o

def _is_mask_const(o):
    o = _sv(o)
    return o[0] == "const" and ("BLOCK_MASK" in (o[1] or "") or "BLOCK_MASK" in str(o[4] if len(o) > 4 else ""))

def _plus_one_of(v, f):
    """if v is x + 1 (checked add or wrapping_add) return x"""
    v = _sv(v)
    if v[0] == "bin" and v[1].startswith("Add") and is_const(1)(simplify(v[3])): return _sv(v[2])
    if v[0] == "call" and (v[2] or "").endswith("wrapping_add"):
        t = f.term(v[1])
        if is_const(1)(simplify(trace_operand(f, t["args"][1]))): return _sv(trace_operand(f, t["args"][0]))
    return None

def block_boundary_rule(ctx, fid, index_on, index_any, block_on, block_any, inst, what, rule="R-ENUM"):
    f = ctx.fn(rule, fid, inst + "/block-moves-iff-commit-aligned")
    if f is None: return
    an = ctx.an
    IDX = Call(A("store"), on=index_on, on_any=index_any, transitive=False)
    BLK = Call(A("store"), on=block_on, on_any=block_any, transitive=False)
    commits = [_sv(trace_operand(f, f.node(pt)["args"][1])) for pt in sorted(an.sites(f, IDX, "must"))]
    blks = an.sites(f, BLK, "must")
    if not commits or not blks:
        ctx.missing(rule, fid, inst + "/block-moves-iff-commit-aligned", "index stores=%d block stores=%d" % (len(commits), len(blks))); return
    prevs = [x for x in (_plus_one_of(c, f) for c in commits) if x is not None]
    def aligned(a):
        if a.kind != "cmp" or a.op != "Eq": return False
        for x, y in ((a.a, a.b), (a.b, a.a)):
            x = _sv(x)
            if x[0] == "bin" and x[1] == "BitAnd" and (_is_mask_const(x[2]) or _is_mask_const(x[3])):
                inner = _sv(x[3]) if _is_mask_const(x[2]) else _sv(x[2])
                if is_const(0)(simplify(y)) and inner in commits: return True          # (commit & MASK) == 0
                if _is_mask_const(y) and inner in prevs: return True                    # (commit - 1) & MASK == MASK
        return False
    es = ctx.edges(f, aligned)
    if not es:
        ctx.ob(rule, fid, inst + "/block-moves-iff-commit-aligned", False,
               "%s has no test `(committed index & BLOCK_MASK) == 0` (or its `id == BLOCK_MASK` form) on the index it commits: the decision to move to the next block is not taken on the committed index" % what, f.where())
        return
    # every commit is followed by the boundary decision (a second commit site - a slow path that returns early - needs it too)
    def unaligned(a):
        if a.kind != "cmp" or a.op != "Ne": return False
        class _A: pass
        b = _A(); b.kind = "cmp"; b.op = "Eq"; b.a = a.a; b.b = a.b
        return aligned(b)
    deciding = set(bi for (bi, tb, lab) in ctx.edges(f, aligned)) | set(bi for (bi, tb, lab) in ctx.edges(f, unaligned))
    csites = sorted(an.sites(f, IDX, "must"))
    stop = set(Point(bi, len(f.blocks[bi]["st"])) for bi in deciding)
    undecided = []
    for c in csites:
        before = c not in an.reach(f, [Point(0, 0)], blocked=stop)         # the decision was taken before this commit (spsc pop: test, move, commit)
        r = an.reach(f, an.after(f, c), blocked=stop)
        if not before and any(x in r for x in f.ret_points()): undecided.append(c)
    ctx.ob(rule, fid, inst + "/every-commit-decides-boundary", not undecided,
           "every path that commits an index in %s also takes the block-boundary decision on it" % what if not undecided else
           "%s commits an index on a path that never tests it against the block boundary: when that commit lands on the last slot of a block the block pointer stays on the "
           "exhausted block - the next accesses re-read / overwrite its slots" % what, f.where(undecided[0]) if undecided else f.where(csites[0]))
    ctx.guarded(fid, BLK, aligned, inst + "/block-moves-only-if-commit-aligned",
                "%s moves its block pointer only when the index it commits is block-aligned (moving early skips the unread/unwritten rest of the block)" % what, rule=rule,
                pred_label="edge `(committed index & BLOCK_MASK) == 0`")
    ctx.must_follow(fid, None, BLK, inst + "/commit-aligned-moves-block",
                    "when the committed index is block-aligned %s moves its block pointer on (staying re-uses the finished block: values are read twice / overwritten)" % what, rule=rule,
                    edge=aligned, edge_label="edge `(committed index & BLOCK_MASK) == 0`")

def block_boundary_rules(ctx):
    MQ = "may_queue::mpsc"; SQ = "may_queue::spsc"
    block_boundary_rule(ctx, MQ + "::Queue::pop", MQ + "::Position.index", None, MQ + "::Position.block", None, "mpsc/pop", "mpsc pop")
    block_boundary_rule(ctx, MQ + "::Queue::fast_bulk_pop", MQ + "::Position.index", None, MQ + "::Position.block", None, "mpsc/fast_bulk_pop", "mpsc fast_bulk_pop")
    block_boundary_rule(ctx, SQ + "::Queue::pop", SQ + "::Position.index", SQ + "::Queue.head", SQ + "::Position.block", SQ + "::Queue.head", "spsc/pop", "spsc pop")
    block_boundary_rule(ctx, SQ + "::Queue::bulk_pop", SQ + "::Position.index", SQ + "::Queue.head", SQ + "::Position.block", SQ + "::Queue.head", "spsc/bulk_pop", "spsc bulk_pop")
    block_boundary_rule(ctx, SQ + "::Queue::push", SQ + "::Position.index", SQ + "::Queue.tail", SQ + "::Position.block", SQ + "::Queue.tail", "spsc/push", "spsc push")
    # spsc push links the new block before it moves to it
    f = ctx.prog.fn(SQ + "::Queue::push")
    if f is not None:
        lk = ctx.an.sites(f, atomic("store", SQ + "::BlockNode.next", transitive=False), "must")
        mv = ctx.an.sites(f, Call(A("store"), on=SQ + "::Position.block", on_any=SQ + "::Queue.tail", transitive=False), "must")
        r = ctx.an.reach(f, [Point(0, 0)], blocked=lk | mv)
        # every path that moves the tail block also links the new block (in either order) before it returns
        bad = []
        for m in mv:
            before = m not in ctx.an.reach(f, [Point(0, 0)], blocked=lk)
            after = not any(x in ctx.an.reach(f, ctx.an.after(f, m), blocked=lk) for x in f.ret_points())
            if not (before or after): bad.append(m)
        pub = ctx.an.sites(f, Call(A("store"), on=SQ + "::Position.index", on_any=SQ + "::Queue.tail", transitive=False), "must")
        late = [x for x in lk | mv if x in ctx.an.reach(f, [q for s0 in pub for q in ctx.an.after(f, s0)])]
        ctx.ob("R-ORDER", f.id, "spsc/push/link-then-publish", bool(pub) and not late, "the new block is linked before tail.index publishes the index that makes the consumer follow the link" if pub and not late else
               "spsc push links / moves to the new block after publishing tail.index", f.where((late or sorted(pub) or [None])[0]))
        ctx.ob("R-ENUM", f.id, "spsc/push/moved-block-is-linked", bool(lk) and bool(mv) and not bad, "a push that moves to a new block also links it behind the old one" if lk and mv and not bad else
               "spsc push moves tail.block to a new block without linking it through the old block's `next`: the consumer reaches the end of the old block and finds no successor", f.where((bad or sorted(mv) or [None])[0]))


# ------------------------------------------------------------------------------------------------
# mpsc push: the packed tail word (block pointer | slot id, bit 63 = "tail transition in progress")

def _split_top(t):
    out = []; d = 0; cur = ""
    for ch in t:
        if ch in "<([": d += 1
        elif ch in ">)]": d -= 1
        if ch == "," and d == 0: out.append(cur.strip()); cur = ""
        else: cur += ch
    if cur.strip(): out.append(cur.strip())
    return out

def field_type(f, o):
    """static type of a field projection origin ('field', base, adt | '(tuple)', name | index)"""
    o = simplify(o)
    if o[0] != "field": return None
    if o[2] == "(tuple)":
        bt = type_of_origin(f, simplify(o[1]))
        if not bt or not bt.strip().startswith("("): return None
        parts = _split_top(bt.strip()[1:-1])
        try: return parts[int(o[3])]
        except (ValueError, IndexError): return None
    a = f.prog.adts.get(norm(o[2]))
    if not a: return None
    for v in a.get("variants", []):
        for fl in v.get("fields", []):
            if fl["n"] == str(o[3]): return fl["t"]
    return None

def _w_unpack_field(o, idx, suffix, f=None):
    """field `idx` of the result of BlockPtr::unpack: 0 = the block pointer, 1 = the slot id - as a tuple position, or (when the result
    is a struct) the field of pointer resp. usize type"""
    o = _sv(o)
    if not (o[0] == "field" and simplify(o[1])[0] == "call" and (simplify(o[1])[2] or "").endswith(suffix)): return False
    if o[2] == "(tuple)": return str(o[3]) == str(idx)
    if f is None: return False
    t = field_type(f, o) or ""
    return (t.strip() == "usize") if idx == 1 else t.strip().startswith("*")

def _w_lock_bit(o):
    o = _sv(o)
    if o[0] == "const" and o[2] is not None:
        try: return int(o[2]) == 1 << 63
        except (TypeError, ValueError): return False
    return o[0] == "bin" and o[1] == "Shl" and is_const(1)(simplify(o[2])) and is_const(63)(simplify(o[3]))

def _w_locks(o):
    o = _sv(o)
    return o[0] == "bin" and o[1] == "BitOr" and (_w_lock_bit(o[2]) or _w_lock_bit(o[3]))

def packed_word_sites(f, pack_suffix="BlockPtr::pack"):
    """[(point, pointer part, index part)]: every place in f where a packed word `block | index` is built - by BlockPtr::pack or written out"""
    out = []
    for pt in f.points():
        n = f.node(pt)
        if f.is_term(pt):
            if n["t"] == "call" and (callee_name(n) or "").endswith(pack_suffix) and len(n["args"]) >= 2:
                out.append((pt, simplify(trace_operand(f, n["args"][0])), simplify(trace_operand(f, n["args"][1]))))
        elif n.get("s") == "=" and n["rv"]["r"] == "bin" and n["rv"]["op"] == "BitOr":
            a, b = simplify(trace_operand(f, n["rv"]["a"])), simplify(trace_operand(f, n["rv"]["b"]))
            if _w_lock_bit(a) or _w_lock_bit(b): continue
            out.append((pt, a, b))
    return out

def is_packed_value(f, o, sites):
    """o (an origin in f) is the result of one of the packed-word sites"""
    o = _sv(o)
    if o[0] == "call": return any(f.is_term(pt) and pt.bb == o[1] for pt, _, _ in sites)
    if o[0] == "bin" and o[1] == "BitOr": return not (_w_lock_bit(o[2]) or _w_lock_bit(o[3]))
    return False

def mpsc_tail_protocol(ctx):
    MQ = "may_queue::mpsc"; fid = MQ + "::Queue::push"; TAIL = MQ + "::BlockPtr.0"
    cas = A("compare_exchange(_weak)?")
    f = ctx.fn("R-ENUM", fid, "mpsc/push/tail-protocol")
    if f is None: return
    an = ctx.an
    cs = sorted(an.sites(f, Call(cas, on=TAIL, transitive=False), "must"))
    stores = sorted(an.sites(f, Call(A("store"), on=TAIL, transitive=False), "must"))
    ok_edges = ctx.edges(f, variant_of_call(cas, "Ok"))
    if len(cs) != 1 or not stores or not ok_edges:
        ctx.missing("R-ENUM", fid, "mpsc/push/tail-protocol", "tail CAS sites=%d tail stores=%d CAS-Ok edges=%d" % (len(cs), len(stores), len(ok_edges))); return
    UNP = "mpsc::BlockPtr::unpack"
    is_id = lambda o: _w_unpack_field(o, 1, UNP, f)
    newv = simplify(trace_operand(f, f.node(cs[0])["args"][2]))
    alts = [simplify(a) for a in newv[2]] if newv[0] == "phi" else [newv]
    psites = packed_word_sites(f)
    shape = len(alts) == 2 and sum(1 for a in alts if _w_locks(a)) == 1 and sum(1 for a in alts if not _w_locks(a) and is_packed_value(f, a, psites)) == 1
    ctx.ob("R-ENUM", fid, "mpsc/push/new-tail-is-pack-or-lock", shape, "the value push CASes into tail is either pack(block, id + 1) or the old tail with the transition-lock bit" if shape else
           "mpsc push CASes %s into tail (expected: pack(..) inside the block, tail | 1<<63 at the last slot)" % fmt_origin(newv)[:200], f.where(cs[0]))
    if not shape: return
    pre = an.reach(f, [Point(0, 0)], blocked=set(cs))
    pk = [(p0, a0, a1) for (p0, a0, a1) in psites if p0 in pre]
    packs = [p0 for p0, _, _ in pk]
    okp = False
    for p0, a0, a1 in pk:
        for ptr, idx in ((a0, a1), (a1, a0)):
            b = _sv(idx)
            if b[0] == "bin" and b[1].startswith("Add") and is_id(b[2]) and is_const(1)(simplify(b[3])) and UNP in fmt_origin(ptr): okp = True
    ctx.ob("R-ENUM", fid, "mpsc/push/claim-advances-by-one", okp, "a producer's claim CASes tail to pack(block, id + 1): the next producer writes the next slot" if okp else
           "mpsc push does not CAS tail to pack(block, id + 1): two producers write the same slot (a message overwritten = lost) or a slot stays empty (the consumer waits on it forever)",
           f.where(packs[0]) if packs else f.where())
    inside = lambda a: a.kind == "cmp" and ((a.op in ("Lt", "Ne") and is_id(a.a) and _is_mask_const(a.b)) or (a.op == "Gt" and is_id(a.b) and _is_mask_const(a.a)))
    last = lambda a: a.kind == "cmp" and ((a.op in ("Ge", "Eq") and is_id(a.a) and _is_mask_const(a.b)) or (a.op in ("Le", "Eq") and is_id(a.b) and _is_mask_const(a.a)))
    if packs:
        ctx.guarded(fid, lambda g: packs, inside, "mpsc/push/pack-only-inside-block", "the plain pack(..) tail is used only when the claimed slot is not the last of its block", rule="R-ENUM",
                    pred_label="edge `id < BLOCK_MASK`")
    lock_defs = [pt for pt in f.points() if not f.is_term(pt) and f.node(pt).get("s") == "=" and pt in pre and _w_locks(trace_rvalue(f, f.node(pt)["rv"], 0, pt))]
    if not lock_defs:
        ctx.missing("R-ENUM", fid, "mpsc/push/lock-only-at-last-slot", "no `tail | (1 << 63)` assignment before the CAS")
    else:
        ctx.guarded(fid, lambda g: lock_defs, last, "mpsc/push/lock-only-at-last-slot", "the transition lock is requested only by the producer that claims the last slot of the block", rule="R-ENUM",
                    pred_label="edge `id < BLOCK_MASK` is false")
    post = [Point(tb, 0) for _, tb, _ in ok_edges]
    post_reach = an.reach(f, post)
    post_last = [(bi, tb, lab) for (bi, tb, lab) in ctx.edges(f, last) if Point(bi, 0) in post_reach]
    post_stores = set(x for x in stores if x in post_reach)
    if not post_last or not post_stores:
        ctx.missing("R-PAIR", fid, "mpsc/push/lock-released", "post-claim `id == BLOCK_MASK` edges=%d tail stores=%d" % (len(post_last), len(post_stores))); return
    starts = [Point(tb, 0) for _, tb, _ in post_last]
    r = an.reach(f, starts, blocked=post_stores)
    bad = [x for x in f.ret_points() if x in r]
    ctx.ob("R-PAIR", fid, "mpsc/push/lock-released", not bad, "the producer that took the transition lock always stores the next block into tail before it returns" if not bad else
           "mpsc push can return from the last-slot path without storing tail: the lock bit stays set and every later push spins forever on its CAS", f.where(sorted(post_stores)[0]))
    blk, good = ctx.edge_blocker(f, last)
    good_post = set(e for e in good if Point(e[0], 0) in post_reach)
    blk2 = lambda p, q, lab: f.is_term(p) and (p.bb, q.bb) in good_post
    bad2 = [x for x in post_stores if x in an.reach(f, post, blocked_edges=blk2)]
    ctx.ob("R-PAIR", fid, "mpsc/push/store-only-under-lock", not bad2, "tail is overwritten with a plain store only by the producer that holds the transition lock" if not bad2 else
           "mpsc push stores to tail on a path that did not take the transition lock: concurrent producers' claims are overwritten (messages lost / slots written twice)", f.where((bad2 or sorted(post_stores))[0]))
    # the block stored is the successor of the claimed block, and its own successor is installed first
    okn = all(is_call_result(re.escape(MQ) + r"::BlockNode::wait_next_block|" + A("load"))(_sv(trace_operand(f, f.node(x)["args"][1])) if _sv(trace_operand(f, f.node(x)["args"][1]))[0] == "call" else
              root_of(_sv(trace_operand(f, f.node(x)["args"][1])))) for x in post_stores)
    ctx.ob("R-ENUM", fid, "mpsc/push/tail-moves-to-next-block", okn, "the unlocked tail is the claimed block's successor (wait_next_block)" if okn else
           "mpsc push stores something else than the claimed block's successor into tail", f.where(sorted(post_stores)[0]))
    inst = an.sites(f, atomic("store", MQ + "::BlockNode.next", transitive=False), "must")
    r3 = an.reach(f, post, blocked=inst)
    bad3 = [x for x in post_stores if x in r3]
    ctx.ob("R-ORDER", fid, "mpsc/push/install-next-next-then-unlock", bool(inst) and not bad3, "the block after the next is installed before the tail is unlocked on the next block (its last-slot producer waits for that link)" if inst and not bad3 else
           "mpsc push unlocks the tail on the next block before installing that block's successor", f.where((bad3 or sorted(post_stores))[0]))


def mpsc_bulk_value_rules(ctx, rule="R-PAIR"):
    """mpsc fast_bulk_pop / bulk_pop: values taken out of slots are committed and handed to the caller"""
    MQ = "may_queue::mpsc"
    FB = MQ + "::Queue::fast_bulk_pop"; BP = MQ + "::Queue::bulk_pop"
    IDX = Call(A("store"), on=MQ + "::Position.index", transitive=False)
    EMPTY = r"smallvec::SmallVec::is_empty"
    f = ctx.prog.fn(FB)
    if f is not None and ctx.edges(f, call_false(EMPTY)):
        ctx.guarded(FB, IDX, call_false(EMPTY), "mpsc/fast-bulk/commit-only-if-values", "fast_bulk_pop moves head.index only when it took at least one value (an unchanged index that is block-aligned would retire a block that was not read)",
                    rule=rule, pred_label="edge `value.is_empty()` is false")
        ctx.must_follow(FB, None, IDX, "mpsc/fast-bulk/values-committed", "values taken by fast_bulk_pop are always committed to head.index before they are returned (otherwise the next pop reads the same slots again)",
                        rule=rule, edge=call_false(EMPTY), edge_label="edge `value.is_empty()` is false")
    elif f is not None:
        ctx.missing(rule, FB, "mpsc/fast-bulk/commit-only-if-values", "no `is_empty()` test in fast_bulk_pop")
    g = ctx.fn(rule, BP, "mpsc/bulk/fast-values-returned")
    if g is not None:
        drops = [pt for pt in g.points() if g.is_term(pt) and g.node(pt)["t"] == "drop" and "SmallVec<[T;" in g.node(pt)["ty"]]
        if not ctx.edges(g, any_of(call_true(EMPTY), call_false(EMPTY))):
            ctx.missing(rule, BP, "mpsc/bulk/fast-values-returned", "no `is_empty()` test on the fast path result in bulk_pop")
        elif drops:
            ctx.guarded(BP, lambda h: drops, call_true(EMPTY), "mpsc/bulk/fast-values-returned", "the batch returned by the fast path is dropped only when it is empty (a non-empty batch is handed to the caller)",
                        rule=rule, pred_label="edge `v.is_empty()` is true")
        else:
            ctx.ob(rule, BP, "mpsc/bulk/fast-values-returned", True, "bulk_pop never drops a batch on a normal path", g.where(), nontrivial=False)

def spsc_block_recycling_rules(ctx, rule="R-EXIT"):
    """spsc alloc_node (feature inner_cache): a block is recycled for the producer only while it lies strictly before the consumer's
    (cached) head block, and the recycle list moves on past a block that was handed out"""
    SQ = "may_queue::spsc"; AN = SQ + "::Queue::alloc_node"
    f = ctx.prog.fn(AN)
    if f is None: return           # feature off: nothing is recycled
    ctx.fns_touched.add(f.id)
    PEQ = r"(std|core)::ptr::(eq|const_ptr::eq|mut_ptr::eq)"
    ADV = Call(A("store"), on=SQ + "::Queue.first", transitive=False)
    if not ctx.an.sites(f, ADV, "must") or not ctx.edges(f, call_false(PEQ)):
        ctx.missing(rule, AN, "spsc/recycle-only-behind-head", "first.store sites=%d `ptr::eq(first, last_head)` false edges=%d" % (len(ctx.an.sites(f, ADV, "must")), len(ctx.edges(f, call_false(PEQ))))); return
    ctx.guarded(AN, ADV, call_false(PEQ), "spsc/recycle-only-behind-head", "a cached block is handed back to the producer only when it is not the block the consumer is (last known to be) reading",
                rule=rule, pred_label="edge `ptr::eq(first, last_head)` is false")
    # after the first, failed test the consumer's head is re-read before the second one
    NEW = Call(re.escape(SQ) + "::BlockNode::new", transitive=False)
    if ctx.an.sites(f, NEW, "must"):
        ctx.guarded(AN, NEW, call_true(PEQ), "spsc/fresh-block-only-if-cache-empty", "a fresh block is allocated only when the recycle list has nothing before the consumer's head", rule=rule,
                    pred_label="edge `ptr::eq(first, last_head)` is true")
    # every non-equal edge leads to a store of first (the handed-out block leaves the recycle list) before returning
    es = ctx.edges(f, call_false(PEQ))
    adv = ctx.an.sites(f, ADV, "must")
    r = ctx.an.reach(f, [Point(tb, 0) for _, tb, _ in es], blocked=adv | set(ctx.an.sites(f, Call(PEQ, transitive=False), "must")))
    bad = [x for x in f.ret_points() if x in r]
    ctx.ob("R-PAIR", AN, "spsc/recycled-block-leaves-cache", not bad, "a block that is handed out is taken off the recycle list (first = first.next)" if not bad else
           "alloc_node can hand out the cached block without advancing `first`: the same block is handed out again while it is linked in the live queue (the list becomes cyclic, unread values are overwritten)", f.where(sorted(adv)[0]))


# ------------------------------------------------------------------------------------------------
# whoever takes a waiter out of its slot wakes it (C01 C02 C06 C07 C08 C16): the slot is the only reference the waker side has

WAITER_TY = re.compile(r"^std::option::Option<(std::sync::Arc<)?(may::sync::blocking::Blocker|may::sync::spsc::Blocker|std::thread::Thread|may::sync::blocking::ThreadPark)>?>$")

def taken_waiter_is_woken(ctx, only=None, rule="R-PAIR"):
    """every function that takes a parked waiter (Arc<Blocker> / spsc::Blocker / Arc<Thread>) out of an AtomicOption slot and is not the
    waiter itself (it does not store into that slot) nor the owner's Drop unparks it on every path from the `Some` edge to its exit.
    only: optional regex on the slot ("Adt.field") to restrict the instances to the slots a property speaks about."""
    n = 0
    for k, g in sorted(ctx.prog.fns.items()):
        if not k.startswith(("may::", "<may::")): continue
        takes = []
        for pt in g.points():
            if not g.is_term(pt): continue
            t = g.node(pt)
            if t["t"] != "call" or not (callee_name(t) or "").endswith("sync::atomic_option::AtomicOption::take"): continue
            rty = (type_of_place(g, t["d"]) or "").replace("'_, ", "")
            if not WAITER_TY.match(rty): continue
            takes.append((pt, receiver_leaf(g, t)))
        for pt, slot in takes:
            if slot is None or (only and not re.search(only, slot)): continue
            owner = slot.rsplit(".", 1)[0]
            if ctx.an.sites(g, Call(AO + "store", on=slot, transitive=False), "must"): continue        # the waiter removing its own registration
            if k.startswith("<" + owner + " as std::ops::Drop>::drop"): continue                          # nobody can wait on a value that is being dropped
            n += 1
            inst = "taken-waiter-woken:" + slot.rsplit("::", 1)[-1]
            some = lambda a, pt=pt: a.kind == "variant" and a.name == "Some" and simplify(a.origin)[0] == "call" and simplify(a.origin)[1] == pt.bb
            es = ctx.edges(g, some)
            wake = ctx.an.sites(g, Call(r".*::unpark", transitive=False), "must")
            if not es:
                # `slot.take().map(|w| w.unpark())`: the taken Option goes straight into a combinator whose closure wakes
                okc = False
                for q in g.points():
                    if not g.is_term(q) or g.node(q)["t"] != "call": continue
                    t2 = g.node(q)
                    if not re.search(r"option::Option::(map|map_or|map_or_else|and_then|inspect|into_iter)$|Iterator::for_each$", callee_name(t2) or ""): continue
                    if not t2["args"]: continue
                    o0 = simplify(trace_operand(g, t2["args"][0]))
                    if not (o0[0] == "call" and o0[1] == pt.bb): continue
                    for cid in closure_args(g, t2):
                        c = ctx.prog.fn(norm(cid))
                        if c is not None and ctx.an.must(c, Call(r".*::unpark", transitive=False)): okc = True
                ctx.ob(rule, k, inst, okc, "the waiter taken out of %s is unparked by the closure it is mapped with" % slot if okc else
                       "%s takes the waiter out of %s but never looks whether there was one (the taken waiter is dropped un-woken)" % (k, slot), g.where(pt)); continue
            r = ctx.an.reach(g, [Point(tb, 0) for _, tb, _ in es], blocked=wake)
            bad = [x for x in g.ret_points() if x in r]
            ctx.ob(rule, k, inst, not bad, "the waiter taken out of %s is unparked on every path" % slot if not bad else
                   "%s takes the parked waiter out of %s and can return without unparking it: nobody else holds a reference to that waiter, it sleeps until its timeout or for ever" % (k, slot),
                   g.where(pt), detail=ctx.an.fmt_path(g, ctx.an.path(g, [Point(tb, 0) for _, tb, _ in es], bad, blocked=wake)) if bad else None)
    return n


# ------------------------------------------------------------------------------------------------
# timer list: an interval list is in the heap at most once, and whenever it has a head (C08, C19)

def interval_list_claim_rules(ctx, rule="R-PAIR"):
    """`in_use` is the claim on "this interval list has its entry in the binary heap": whoever moves it 0 -> 1 pushes the entry, the
    scheduler that pops the entry gives the claim back (store 0) BEFORE it consumes the list, and afterwards re-claims when entries
    are left. A push without the claim duplicates the entry (a timer fires twice / the heap grows), a claim without a push or a pop
    without the give-back strands the list: none of its timers ever fires again."""
    TL = "may::timeout_list"; TOL = TL + "::TimeOutList"
    INUSE = TL + "::TimeoutQueueWrapper.in_use"
    HPUSH = Call(r"(std|alloc)::collections::(binary_heap::)?BinaryHeap::push", transitive=False)
    HPOP = Call(r"(std|alloc)::collections::(binary_heap::)?BinaryHeap::pop", transitive=False)
    CLAIM = atomic("fetch_add", INUSE, transitive=False)
    claimed = lambda a: cmp_matches(a, "Eq", is_call_result(A("fetch_add")), is_const(0))
    n_push = 0
    for fid in (TOL + "::install_timer_bh", TOL + "::schedule_timer", TOL + "::add_timer"):
        f = ctx.prog.fn(fid)
        if f is None: continue
        pushes = ctx.an.sites(f, HPUSH, "must")
        if not pushes: continue
        n_push += len(pushes)
        short = fid.rsplit("::", 1)[-1]
        ctx.guarded(fid, HPUSH, claimed, "list/heap-push-only-with-claim:" + short, "%s pushes an interval entry into the heap only after moving the list's in_use from 0 to 1" % short,
                    rule=rule, pred_label="edge `in_use.fetch_add(1) == 0`")
        ctx.must_follow(fid, None, HPUSH, "list/claim-always-pushes:" + short, "a taken claim is always followed by the heap push (otherwise the list is marked installed but no heap entry exists)",
                        rule=rule, edge=claimed, edge_label="edge `in_use.fetch_add(1) == 0`")
        for pt in sorted(ctx.an.sites(f, CLAIM, "must")):
            ok = const_int(f, f.node(pt)["args"][1]) == 1
            ctx.ob("R-ENUM", fid, "list/claim-adds-one:" + short, ok, "the claim is fetch_add(1)" if ok else "the in_use claim does not add exactly 1", f.where(pt))
    if n_push < 3:
        ctx.missing(rule, TOL, "list/heap-push-sites", "expected >= 3 BinaryHeap::push sites in install_timer_bh / schedule_timer, found %d" % n_push)
    ST = TOL + "::schedule_timer"
    f = ctx.fn(rule, ST, "list/pop-gives-claim-back")
    if f is None: return
    an = ctx.an
    GIVE = Call(A("store"), on=INUSE, transitive=False)
    POPT = Call(re.escape(TL) + "::IntervalEntry::pop_timeout", transitive=False)
    pops = an.sites(f, HPOP, "must"); gives = an.sites(f, GIVE, "must"); popt = an.sites(f, POPT, "must")
    if not pops or not gives or not popt:
        ctx.missing(rule, ST, "list/pop-gives-claim-back", "heap pop=%d in_use.store=%d pop_timeout=%d" % (len(pops), len(gives), len(popt))); return
    r = an.reach(f, [q for s0 in pops for q in an.after(f, s0)], blocked=gives)
    bad = [x for x in popt if x in r]
    okv = all(const_int(f, f.node(g)["args"][1]) == 0 for g in gives)
    ctx.ob(rule, ST, "list/pop-gives-claim-back", not bad and okv, "the scheduler resets in_use to 0 after popping the heap entry and before it consumes the list (a timer pushed while it consumes re-installs the list)" if not bad and okv else
           "schedule_timer consumes a popped interval list without giving the in_use claim back first (or stores a non-zero value): no later push / re-install ever sees in_use == 0, the list is "
           "never put back into the heap and its timers never fire", f.where(sorted(gives)[0]))
    r2 = an.reach(f, [Point(0, 0)], blocked=pops)
    bad2 = [g for g in gives if g in r2]
    ctx.ob(rule, ST, "list/claim-reset-only-after-pop", not bad2, "in_use is reset only by the scheduler that has just popped the list's heap entry" if not bad2 else
           "schedule_timer resets in_use without having popped the heap entry: the list can be installed twice", f.where((bad2 or sorted(gives))[0]))
    # after consuming: entries left => re-claim is attempted; nothing left => only then the map entry may be removed
    some = variant_of_call(re.escape(TL) + "::IntervalEntry::pop_timeout", "Some")
    claims = an.sites(f, CLAIM, "must")
    es = ctx.edges(f, some)
    if not es or not claims:
        ctx.missing(rule, ST, "list/left-over-reclaims", "pop_timeout Some edges=%d claims=%d" % (len(es), len(claims)))
    else:
        stop = claims
        r3 = an.reach(f, [Point(tb, 0) for _, tb, _ in es], blocked=stop)
        bad3 = [x for x in list(popt) + f.ret_points() if x in r3]
        ctx.ob(rule, ST, "list/left-over-reclaims", not bad3, "when pop_timeout reports a next expiry the scheduler always tries to re-install the list" if not bad3 else
               "schedule_timer can go on after pop_timeout returned Some(next) without trying to re-claim the list: the remaining timers of that interval are never scheduled", f.where(sorted(claims)[0]))
    EMPTY = r"may_queue::mpsc_list_v1::Queue::is_empty"
    if ctx.edges(f, call_false(EMPTY)):
        ctx.must_follow(ST, None, CLAIM, "list/refilled-list-reclaims", "a list that was refilled while the scheduler held the map lock is re-claimed", rule=rule,
                        edge=call_false(EMPTY), edge_label="edge `list.is_empty()` is false", exits=lambda g: set(g.ret_points()) | set(popt))
        rm = Call(r"(std|hashbrown)::collections::(hash::map::|hash_map::)?HashMap::remove", transitive=False)
        if an.sites(f, rm, "must"):
            ctx.guarded(ST, rm, call_true(EMPTY), "list/map-remove-only-if-empty", "an interval list is removed from the map only when it is empty under the write lock (a removed non-empty list is unreachable for later "
                        "timers of that interval while its own entries still wait for a heap entry)", rule="R-EXIT", pred_label="edge `list.is_empty()` is true")
    else:
        ctx.missing(rule, ST, "list/refilled-list-reclaims", "no `is_empty()` re-check in schedule_timer")
    # pop_timeout: every popped entry is handed to the handler
    PT = TL + "::IntervalEntry::pop_timeout"
    g = ctx.prog.fn(PT)
    if g is not None:
        ctx.must_follow(PT, None, Call(r".*::ops::(Fn|FnMut|FnOnce)::call(_mut|_once)?", transitive=False), "list/popped-entry-handled", "every expired entry taken off the list is passed to the timeout handler",
                        rule=rule, edge=variant_of_call(r"may_queue::mpsc_list_v1::Queue::pop_if", "Some"), edge_label="edge `pop_if()` is Some",
                        exits=lambda h: set(h.ret_points()) | ctx.an.sites(h, Call(r"may_queue::mpsc_list_v1::Queue::pop_if", transitive=False), "must"))
    # add_timer reports "recalculate" for a list it created
    AT = TOL + "::add_timer"
    h = ctx.prog.fn(AT)
    if h is not None:
        bad = []; n = 0
        for pt in h.points():
            if h.is_term(pt): continue
            nd = h.node(pt)
            if nd.get("s") == "=" and nd["rv"]["r"] == "agg" and nd["rv"].get("ak") == "tuple" and len(nd["rv"]["ops"]) == 2 and (type_of_place(h, nd["lhs"]) if "lhs" in nd else "") is not None:
                o1 = simplify(trace_operand(h, nd["rv"]["ops"][1]))
                t1 = None
                if o1[0] == "const": 
                    n += 1
                    try: t1 = int(o1[2])
                    except (TypeError, ValueError): t1 = None
                    if t1 != 1: bad.append(pt)
        ctx.ob("R-ENUM", AT, "list/new-list-reports-head", n >= 1 and not bad, "add_timer reports `true` (recalculate the next expiry) for the first entry of a list it created" if n >= 1 and not bad else
               "add_timer reports a constant `false` for a list it created itself: the timer thread is not woken, the timer fires only when something else wakes it", h.where(bad[0]) if bad else h.where())


# ------------------------------------------------------------------------------------------------
# flag encodings: which constant a protocol flag starts with / is set to by a given function

def flag_values(ctx, items, rule="R-ENUM"):
    """items: (kind, fid, 'Adt.field', expected int, instance, why)  kind = 'init' (the field of the aggregate built in fid is
    Atomic*::new(const)) | 'store' (every direct store/swap to the field in fid writes that constant)"""
    for kind, fid, fld, exp, inst, why in items:
        f = ctx.fn(rule, fid, inst)
        if f is None: continue
        adt, name = fld.rsplit(".", 1)
        if kind == "init":
            vals = []
            for pt, o in agg_field_origins(ctx, f, adt, adt.rsplit("::", 1)[-1], name):
                o = simplify(o)
                if o[0] == "call" and re.search(r"atomic::Atomic\w*::new$|convert::Into::into$|convert::From::from$", o[2] or ""):
                    vals.append((pt, const_int(f, f.term(o[1])["args"][0])))
                elif o[0] == "const":
                    try: vals.append((pt, int(o[2])))
                    except (TypeError, ValueError): vals.append((pt, None))
                else:
                    vals.append((pt, None))
        else:
            vals = [(pt, const_int(f, f.node(pt)["args"][1])) for pt in sorted(ctx.an.sites(f, Call(A("(store|swap)"), on=fld, transitive=False), "must"))]
        if not vals:
            ctx.missing(rule, fid, inst, "no %s of %s found in %s" % ("initialisation" if kind == "init" else "store", fld, fid)); continue
        bad = [(pt, v) for pt, v in vals if v != exp]
        ctx.ob(rule, fid, inst, not bad, "%s: %s %s %s to %s" % (why, fid.rsplit("::", 1)[-1], "initialises" if kind == "init" else "sets", name, bool(exp) if exp in (0, 1) else exp) if not bad else
               "%s: %s %s %s to %s instead of %s" % (why, fid, "initialises" if kind == "init" else "sets", fld, [v for _, v in bad], exp), f.where((bad or vals)[0][0]))


# ------------------------------------------------------------------------------------------------
# CancelImpl.state encoding (C09, C14, C15): bit 0 = cancel requested, every disable adds 2

def cancel_state_encoding(ctx, rule="R-ENUM"):
    C = "may::cancel::CancelImpl"; ST = C + ".state"
    def rmw(fid, method, val, inst, why):
        f = ctx.fn(rule, fid, inst)
        if f is None: return
        sites = sorted(ctx.an.sites(f, Call(A(method), on=ST, transitive=False), "must"))
        ok = len(sites) == 1 and ctx.an.must(f, Call(A(method), on=ST, transitive=False))
        got = None
        if ok:
            v = simplify(trace_operand(f, f.node(sites[0])["args"][1]))
            got = const_int(f, f.node(sites[0])["args"][1])
            if got is None and v[0] == "un" and v[1] == "Not" and is_const(1)(simplify(v[2])): got = "!1"
            ok = got == val
        ctx.ob(rule, fid, inst, ok, "%s: %s(%s)" % (why, method, val) if ok else "%s: %s must be exactly one `state.%s(%s)` on every path (found %s, value %s)" % (why, fid, method, val, len(sites), got), f.where(sites[0]) if sites else f.where())
    rmw(C + "::disable_cancel", "fetch_add", 2, "cancel-state/disable-adds-2", "a disable is counted above the cancel bit")
    rmw(C + "::enable_cancel", "fetch_sub", 2, "cancel-state/enable-subs-2", "an enable takes back exactly one disable")
    rmw(C + "::cancel", "fetch_or", 1, "cancel-state/cancel-sets-bit0", "cancel() requests the cancel in bit 0")
    if ctx.prog.fn(C + "::clear_cancel_bit") is not None:
        f = ctx.prog.fn(C + "::clear_cancel_bit")
        sites = sorted(ctx.an.sites(f, Call(A("fetch_and"), on=ST, transitive=False), "must"))
        ok = False
        for pt in sites:
            v = simplify(trace_operand(f, f.node(pt)["args"][1]))
            ci = const_int(f, f.node(pt)["args"][1])
            ok = (v[0] == "un" and v[1] == "Not" and is_const(1)(simplify(v[2]))) or (ci is not None and (ci & 1) == 0 and (ci | 1) in (2**64 - 1, 2**32 - 1, -1))
        ok = ok and ctx.an.must(f, Call(A("fetch_and"), on=ST, transitive=False))
        ctx.ob(rule, C + "::clear_cancel_bit", "cancel-state/clear-clears-only-bit0", ok, "clear_cancel_bit clears exactly bit 0 (the disable count is kept)" if ok else
               "clear_cancel_bit does not perform `state.fetch_and(!1)`", f.where(sites[0]) if sites else f.where())
    # readers
    def reader(fid, pred, inst, good, badmsg):
        f = ctx.fn(rule, fid, inst)
        if f is None: return
        rv = simplify(trace_local(f, 0))
        ok = pred(f, rv)
        ctx.ob(rule, fid, inst, ok, good if ok else badmsg + " (found %s)" % fmt_origin(rv)[:120], f.where())
    def cmp_load(op, c):
        def p(f, o):
            if o[0] != "bin": return False
            a, b = simplify(o[2]), simplify(o[3])
            isld = lambda x: x[0] == "call" and re.fullmatch(A("load"), x[2] or "") and receiver_leaf(f, f.term(x[1])) == ST
            if o[1] == op and isld(a) and is_const(c)(b): return True
            if CMP_SWAP.get(o[1]) == op and isld(b) and is_const(c)(a): return True
            # x >= 2  ==  x > 1
            if op == "Ge" and o[1] == "Gt" and isld(a) and is_const(c - 1)(b): return True
            if op == "Ge" and o[1] == "Lt" and isld(b) and is_const(c - 1)(a): return True
            return False
        return p
    reader(C + "::is_canceled", cmp_load("Eq", 1), "cancel-state/is-canceled-means-exactly-1", "is_canceled() is `state == 1`: requested and not disabled",
           "is_canceled() is not `state.load() == 1`: a disabled cancel is reported (the blocking calls of a region that must not be cancelled return at once / panic) or a request is missed")
    reader(C + "::is_disabled", cmp_load("Ge", 2), "cancel-state/is-disabled-means-ge-2", "is_disabled() is `state >= 2`",
           "is_disabled() is not `state.load() >= 2`: Mutex::lock's cancel arm takes a disabled cancel for an enabled one (or the reverse) and gives up / keeps a lock hand-off wrongly")
    ctx.must_call(C + "::set_co", Call(AO + "store", on=C + ".co", transitive=False), "cancel-state/set-co-registers", "set_co always publishes the slot to the canceller", rule="R-PAIR")
    ctx.must_call(C + "::clear", Call(r"may::cancel::CancelIo::clear|<.* as may::cancel::CancelIo>::clear", transitive=False), "cancel-state/clear-clears-io", "clear() always unregisters the io data (a later cancel must not fire into a finished io)", rule="R-PAIR")


# ------------------------------------------------------------------------------------------------
# R-FWD: thin API functions reach the mechanism they stand for on every (coroutine-context) path

def forwarding_rules(ctx, items, rule="R-FWD"):
    """items: (fid, callee regex, instance, why[, edge predicate, edge label]). Without an edge: every normal path of fid calls the
    callee (directly or through a helper). With an edge: every path from that edge to the exit does."""
    for it in items:
        fid, rx, inst, why = it[:4]
        if ctx.prog.fn(fid) is None:
            # a private helper that was merged into its callers (they perform the primitive themselves now, where the other rules see it):
            # it existed in the reference tree, and every function that called it there is still present
            rc = (getattr(ctx.prog, "ref_callers", None) or {}).get(fid)
            if rc and all(c.split("::{closure")[0] in ctx.prog.fns for c in rc):
                ctx.ob(rule, fid, inst, True, "%s no longer exists: merged into its callers %s" % (fid, sorted(rc)), None, nontrivial=False)
                continue
        B = Call(rx)
        if len(it) > 4:
            ctx.must_follow(fid, None, B, inst, why, rule=rule, edge=it[4], edge_label=it[5])
        else:
            ctx.must_call(fid, B, inst, why, rule=rule)

IN_CO = call_true(r"may::coroutine_impl::is_coroutine")

def park_api_forwarding(ctx):
    CI = "may::coroutine_impl"
    forwarding_rules(ctx, [
        (CI + "::Coroutine::unpark", r"may::park::Park::unpark(_impl)?", "fwd/coroutine-unpark", "Coroutine::unpark always sets the target's park token"),
        (CI + "::park", re.escape(CI) + "::park_timeout_impl|may::park::Park::park_timeout", "fwd/park", "coroutine::park parks on the coroutine's own Park"),
        (CI + "::park_timeout", re.escape(CI) + "::park_timeout_impl|may::park::Park::park_timeout", "fwd/park-timeout", "coroutine::park_timeout parks on the coroutine's own Park"),
        (CI + "::park_timeout_impl", r"may::park::Park::park_timeout", "fwd/park-impl-in-coroutine", "in coroutine context park_timeout_impl blocks on Park::park_timeout", IN_CO, "edge `is_coroutine()` is true"),
        ("may::yield_now::set_co_para", r"generator::.*::set_para", "fwd/set-co-para", "set_co_para stores the result into the suspended coroutine"),
    ])

def cancel_api_forwarding(ctx):
    forwarding_rules(ctx, [
        ("may::coroutine_impl::Coroutine::cancel", r"may::cancel::CancelImpl::cancel", "fwd/coroutine-cancel", "Coroutine::cancel always reaches CancelImpl::cancel"),
    ])

def timer_api_forwarding(ctx):
    forwarding_rules(ctx, [
        ("may::scheduler::Scheduler::del_timer", r"may::timeout_list::TimerThread::del_timer", "fwd/scheduler-del-timer", "Scheduler::del_timer hands the handle to the timer thread"),
        ("may::scheduler::Scheduler::add_timer", r"may::timeout_list::TimerThread::add_timer", "fwd/scheduler-add-timer", "Scheduler::add_timer arms the timer in the timer thread's list"),
        ("may::sleep::sleep", r"may::yield_now::yield_with", "fwd/sleep-blocks", "in coroutine context sleep suspends the coroutine on its Sleep source", IN_CO, "edge `is_coroutine()` is true"),
        ("may::sleep::sleep", r"std::thread::sleep", "fwd/sleep-thread", "in thread context sleep is thread::sleep", call_false(r"may::coroutine_impl::is_coroutine"), "edge `is_coroutine()` is false"),
    ])

def yield_api_forwarding(ctx):
    forwarding_rules(ctx, [
        ("may::yield_now::yield_now", r"may::yield_now::yield_with", "fwd/yield-now", "in coroutine context yield_now goes through the scheduler", IN_CO, "edge `is_coroutine()` is true"),
    ])


# ------------------------------------------------------------------------------------------------
# scheduler: a worker goes idle only with its queues drained; the timer thread delivers Timeout before it resumes (C01, C08)

def scheduler_drain_rules(ctx, rule="R-EXIT"):
    worker_polls_global_rules(ctx)
    event_loop_never_returns(ctx)
    S = "may::scheduler::Scheduler"
    RQ = S + "::run_queued_tasks"; CG = S + "::collect_global"
    f = ctx.fn(rule, RQ, "worker/idle-only-when-drained")
    if f is not None:
        HT = r"may_queue::spmc::Local::has_tasks|may::crossbeam_queue_shim::Local::has_tasks"
        # (F32) the other way out is the run budget: the worker leaves with work queued, but only after posting its own wakeup event, so it
        # does not go idle - the next select returns at once and runs the queue again
        WAKE = ctx.an.sites(f, Call(r"may::io::sys::\w+::Selector::wakeup"), "may")
        def only_through(pred, blocked_sites, inst, why, bad_why):
            blk, good = ctx.edge_blocker(f, pred) if pred is not None else (None, set())
            r = ctx.an.reach(f, [Point(0, 0)], blocked=set(blocked_sites) | WAKE, blocked_edges=blk)
            bad = [x for x in f.ret_points() if x in r]
            if pred is not None and not good:
                ctx.missing(rule, RQ, inst, "no guard edge found for `%s`" % why); return
            ctx.ob(rule, RQ, inst, not bad, why if not bad else bad_why, f.where(bad[0]) if bad else f.where(),
                   detail=ctx.an.fmt_path(f, ctx.an.path(f, [Point(0, 0)], bad, blocked=set(blocked_sites) | WAKE, blocked_edges=blk)) if bad else None)
        if ctx.an.sites(f, Call(HT, transitive=False), "must"):
            only_through(call_false(HT), (), "worker/idle-only-when-drained", "a worker leaves run_queued_tasks only after it saw its local queue empty behind a drain of its global queue (or on its run budget, after posting its wakeup event)",
                         "run_queued_tasks can return while the local queue was not seen empty and without posting the worker's wakeup event: the worker sleeps in its selector on queued coroutines")
            only_through(None, ctx.an.sites(f, Call(re.escape(CG), transitive=False), "must"), "worker/global-drained-before-idle", "the worker's global queue is drained (collect_global) before the worker goes idle",
                         "run_queued_tasks can return to the selector (go idle) without having drained the worker's global queue")
        else:
            only_through(variant_of_call(r".*::pop", "None"), (), "worker/idle-only-when-drained", "a worker leaves run_queued_tasks only when its queue is empty (or on its run budget, after posting its wakeup event)",
                         "run_queued_tasks can return while its queue is not empty and without posting the worker's wakeup event")
    g = ctx.fn(rule, CG, "worker/collect-until-empty")
    if g is not None:
        ctx.guarded(CG, Ev("ret"), call_true(r"smallvec::SmallVec::is_empty"), "worker/collect-until-empty", "collect_global returns only after bulk_pop returned an empty batch (a non-empty batch dropped at the return would destroy its coroutines)",
                    rule=rule, pred_label="edge `v.is_empty()` is true")
        ctx.must_follow(CG, None, Call(r".*::Local::push_back|may_queue::mpsc::Queue::push|.*::push", transitive=False), "worker/collected-task-moved", "every task of a collected batch is moved into the local queue",
                        rule="R-PAIR", edge=variant_of_call(r".*::next", "Some"), edge_label="edge `iter.next()` is Some",
                        exits=lambda h: set(h.ret_points()) | ctx.an.sites(h, Call(r".*::next", transitive=False), "may"))

def timer_handler_rules(ctx, rule="R-ORDER"):
    IS = "may::scheduler::init_scheduler"
    f = ctx.fn(rule, IS, "timer-handler/injects-before-resume")
    if f is None: return
    stack = [f]; cls = []; seen = set()
    while stack:
        g = stack.pop()
        for c in ctx.prog.closures_of(g):
            if c.id not in seen: seen.add(c.id); cls.append(c); stack.append(c)
    SET = Call(r"may::yield_now::set_co_para", transitive=False)
    RES = Call(r"may::coroutine_impl::run_coroutine|may::scheduler::Scheduler::schedule(_global)?", transitive=False)
    hs = [c for c in cls if ctx.an.sites(c, Call(AO + "take", transitive=False), "must") and ctx.an.sites(c, RES, "must")]
    if len(hs) != 1:
        ctx.missing(rule, IS, "timer-handler/injects-before-resume", "expected exactly one timer handler closure (takes the coroutine and resumes it), found %d" % len(hs)); return
    h = hs[0]
    if not ctx.an.sites(h, SET, "must"):
        ctx.ob(rule, IS, "timer-handler/injects-before-resume", False, "the timer handler resumes the timed-out coroutine without injecting a result: park_timeout / the timed waits report Ok (woken) instead of Timeout", h.where()); return
    ctx.order(h.id, SET, RES, "timer-handler/injects-before-resume", "the timer handler stores the TimedOut result before the coroutine can run", rule=rule)
    ctx.must_follow(h.id, None, RES, "timer-handler/taken-coroutine-resumed", "a coroutine taken by the timer handler is always resumed", rule="R-PAIR",
                    edge=variant_of_call(re.escape(AO) + "take", "Some"), edge_label="edge `c.take()` is Some")
    # the timer thread runs the timer loop
    ts = [c for c in cls if ctx.an.may(c, Call(r"may::timeout_list::TimerThread::run", transitive=False))]
    ok = len(ts) == 1 and ctx.an.must(ts[0], Call(r"may::timeout_list::TimerThread::run", transitive=False))
    ctx.ob("R-PAIR", IS, "timer-thread/runs-timer-loop", ok, "the timer thread spawned by init_scheduler always enters TimerThread::run" if ok else "no spawned closure of init_scheduler (always) runs TimerThread::run: no timer ever fires", f.where())


def origin_reaches_call(f, o, rx, depth=0, seen=None):
    """does the value described by origin o (in f) come - through phis, aggregates, projections, casts, `?`, or the closure of an
    Option/Result combinator - from a call whose name matches rx?"""
    if depth > 10: return False
    seen = seen if seen is not None else set()
    o = simplify(o)
    key = (f.id, o)
    if key in seen: return False
    seen.add(key)
    k = o[0]
    if k == "call":
        if re.fullmatch(rx, o[2] or ""): return True
        t = f.term(o[1])
        if re.search(r"option::Option::(map|and_then|or_else|map_or|map_or_else|or|xor|take|replace)$|result::Result::(map|and_then|ok)$|convert::(Into::into|From::from)$|ops::Try::branch$|clone::Clone::clone$", o[2] or ""):
            for cid in closure_args(f, t):
                c = f.prog.fn(norm(cid))
                if c is not None and origin_reaches_call(c, trace_local(c, 0), rx, depth + 1, seen): return True
            return any(origin_reaches_call(f, trace_operand(f, a), rx, depth + 1, seen) for a in t["args"][:1])
        return False
    if k == "phi": return any(origin_reaches_call(f, a, rx, depth + 1, seen) for a in o[2])
    if k == "agg": return any(origin_reaches_call(f, a, rx, depth + 1, seen) for a in (o[3] or ()))
    if k in ("field", "cast", "ref", "deref", "downcast", "discr"): return origin_reaches_call(f, o[1], rx, depth + 1, seen)
    if k == "un": return origin_reaches_call(f, o[2], rx, depth + 1, seen)
    return False


def mutex_cancel_arm_rules(ctx, rule="R-EXIT"):
    """Mutex::lock is called with the cancel disabled by Condvar::wait's re-lock (and under CancelDisableGuard): there a Cancel panic
    must not be raised - the waiter retries with a fresh blocker; with the cancel enabled it must be raised (the coroutine stops)."""
    ML = "may::sync::mutex::Mutex::lock"
    f = ctx.fn(rule, ML, "mutex/cancel-panic-only-if-enabled")
    if f is None: return
    DIS = r"may::cancel::CancelImpl::is_disabled"
    NOCO = call_false(r"may::coroutine_impl::is_coroutine")
    enabled = lambda a: (a.kind == "truth" and a.truth is False and origin_reaches_call(f, a.origin, DIS)) or \
                        variant_implied_by(ctx, f, a, any_of(call_false(DIS), NOCO))
    disabled = lambda a: (a.kind == "truth" and a.truth is True and origin_reaches_call(f, a.origin, DIS)) or \
                         variant_implied_by(ctx, f, a, call_true(DIS))
    TRG = Call(r"may::cancel::trigger_cancel_panic", transitive=False)
    if not ctx.edges(f, enabled) or not ctx.an.sites(f, TRG, "must"):
        ctx.missing(rule, ML, "mutex/cancel-panic-only-if-enabled", "`is_disabled()` false edges=%d trigger_cancel_panic sites=%d" % (len(ctx.edges(f, enabled)), len(ctx.an.sites(f, TRG, "must")))); return
    ctx.guarded(ML, TRG, enabled, "mutex/cancel-panic-only-if-enabled", "Mutex::lock raises the Cancel panic only when the cancel is not disabled (Condvar::wait re-locks with it disabled and must get the mutex back)",
                rule=rule, pred_label="edge `cancel.is_disabled()` is false")
    # a hand-off that was received (park returned Ok) is accepted: the waiter does not queue again, it builds the guard
    okp = variant_of_call(r"may::sync::blocking::SyncBlocker::park", "Ok")
    requeue = ctx.an.sites(f, Call(MQ_MPSC + "push", on="may::sync::mutex::Mutex.to_wake", transitive=False), "must") | ctx.an.sites(f, Call(r"may::sync::blocking::SyncBlocker::park", transitive=False), "must")
    eo = ctx.edges(f, okp)
    if eo and requeue:
        r0 = ctx.an.reach(f, [Point(tb, 0) for _, tb, _ in eo], blocked=ctx.an.sites(f, Call(r"may::sync::mutex::MutexGuard::new", transitive=False), "must"))
        bad0 = sorted(x for x in requeue if x in r0)
        ctx.ob(rule, ML, "mutex/handoff-accepted", not bad0, "after park() returned Ok (the unlocker handed the lock over) lock() goes straight to MutexGuard::new" if not bad0 else
               "Mutex::lock can queue / park again after park() returned Ok: it already owns the lock (cnt counts it), so it waits for itself for ever", f.where(bad0[0]) if bad0 else f.where())
    else:
        ctx.missing(rule, ML, "mutex/handoff-accepted", "park-Ok edges=%d push/park sites=%d" % (len(eo), len(requeue)))
    forwarding_rules(ctx, [("may::sync::mutex::unlock_mutex", r"may::sync::mutex::Mutex::unlock", "fwd/unlock-mutex", "unlock_mutex (used by Condvar::wait to release the caller's mutex) always unlocks")])
    # on the cancel arm with the cancel enabled the function does not go back to waiting: it panics
    err = variant_of_call(r"may::sync::blocking::SyncBlocker::park", "Err")
    es = [e for e in ctx.edges(f, enabled)]
    parks = ctx.an.sites(f, Call(r"may::sync::blocking::SyncBlocker::park", transitive=False), "must")
    trg = ctx.an.sites(f, TRG, "must")
    # last `enabled` edge on the arm: from it, a park must not be reachable without passing the trigger
    arm = ctx.an.reach(f, [Point(tb, 0) for _, tb, _ in ctx.edges(f, err)], blocked=parks)
    last = [(bi, tb, lab) for (bi, tb, lab) in es if Point(bi, 0) in arm]
    bad = []
    for bi, tb, lab in last:
        r = ctx.an.reach(f, [Point(tb, 0)], blocked=trg | set(x for x in f.points() if f.is_term(x) and f.node(x)["t"] == "sw" and x.bb != bi and
                         any(enabled(a) or disabled(a) for t2, l2 in f.term_succs(x.bb) for a in edge_atoms(ctx.prog, f, x.bb, l2))))
        if any(p0 in r for p0 in parks) or any(x in r for x in f.ret_points()): bad.append(bi)
    # only the LAST decision of the arm is binding (the earlier ones choose between break / unlock)
    okl = bool(last) and len(bad) < len(last)
    ctx.ob(rule, ML, "mutex/enabled-cancel-stops-waiter", okl, "with the cancel enabled the cancel arm of Mutex::lock ends in the Cancel panic (the cancelled coroutine does not queue again)" if okl else
           "Mutex::lock's cancel arm can go back to waiting / return although the cancel is enabled: a cancelled coroutine is not stopped at this lock()", f.where(sorted(trg)[0]))


# ------------------------------------------------------------------------------------------------
# blocking.rs: the thread parker's token and the Blocker/SyncBlocker wiring (C02 and every primitive built on it)

def thread_park_token_rules(ctx, rule="R-EXIT"):
    TP = "may::sync::blocking::ThreadPark"
    PT = TP + "::park_timeout"; UP = TP + "::unpark"
    def tok(o):
        o = simplify(o)
        while o[0] in ("deref", "ref"): o = simplify(o[1])
        return o[0] == "call" and (o[2] or "").endswith("Mutex::lock")
    no_token = lambda a: cmp_matches(a, "Eq", tok, is_const(0))
    has_token = lambda a: cmp_matches(a, "Ne", tok, is_const(0))
    WAIT = Call(r"parking_lot::(condvar::)?Condvar::wait(_for|_until)?", on=TP + ".cvar", transitive=False)
    f = ctx.fn(rule, PT, "thread-park/wait-only-without-token")
    if f is not None:
        ctx.guarded(PT, WAIT, no_token, "thread-park/wait-only-without-token", "a thread parks on the condvar only while the token is 0 (an unpark that came first is not slept through)", rule=rule,
                    invalidate=WAIT, pred_label="edge `*guard == 0`")
        # Ok is returned only behind a token observation; the only other exit of the loop carries Err(Timeout)
        timed = call_true(r"parking_lot::(condvar::)?WaitTimeoutResult::timed_out")
        notok = call_false(r"(std|core)::result::Result::is_ok")
        ctx.guarded(PT, Ev("ret"), any_of(has_token, notok), "thread-park/return-only-with-token-or-timeout", "ThreadPark::park_timeout leaves its loop only with the token set or with the timeout result", rule=rule,
                    pred_label="edge `*guard != 0` / `result.is_ok()` is false")
    g = ctx.fn(rule, UP, "thread-park/notify-when-token-set")
    if g is not None:
        NT = Call(r"parking_lot::(condvar::)?Condvar::notify_(one|all)", on=TP + ".cvar", transitive=False)
        ctx.must_follow(UP, None, NT, "thread-park/first-unpark-notifies", "the unpark that sets the token (it was 0) always notifies the condvar", rule="R-PAIR", edge=no_token, edge_label="edge `*guard == 0`")
    flag_init = agg_field_origins(ctx, ctx.prog.fn(TP + "::new"), TP, "ThreadPark", "lock") if ctx.prog.fn(TP + "::new") is not None else []
    if flag_init:
        h = ctx.prog.fn(TP + "::new"); o = simplify(flag_init[0][1])
        ok = o[0] == "call" and const_int(h, h.term(o[1])["args"][0]) == 0
        ctx.ob("R-ENUM", TP + "::new", "thread-park/starts-without-token", ok, "a fresh ThreadPark has no token" if ok else "ThreadPark::new does not start with token 0", h.where())

def blocker_wiring_rules(ctx, rule="R-ENUM"):
    B = "may::sync::blocking"; SB = B + "::SyncBlocker"
    flag_values(ctx, [("init", SB + "::current", SB + ".unparked", 0, "sync-blocker/starts-not-unparked", "a fresh SyncBlocker was not unparked"),
                      ("init", SB + "::current", SB + ".release", 0, "sync-blocker/starts-without-release", "a fresh SyncBlocker carries no release request"),
                      ("store", SB + "::set_release", SB + ".release", 1, "sync-blocker/set-release-sets", "set_release registers the request"),
                      ("store", SB + "::unpark", SB + ".unparked", 1, "sync-blocker/unpark-marks", "unpark marks the blocker as served")], rule=rule)
    forwarding_rules(ctx, [(SB + "::unpark", re.escape(B) + r"::Blocker::unpark", "sync-blocker/unpark-wakes", "SyncBlocker::unpark always wakes the underlying blocker"),
                           (SB + "::park", re.escape(B) + r"::Blocker::park", "sync-blocker/park-blocks", "SyncBlocker::park blocks on the underlying blocker"),
                           (B + "::Blocker::unpark", r"may::park::Park::unpark|" + re.escape(B) + r"::ThreadPark::unpark", "blocker/unpark-dispatches", "Blocker::unpark reaches its parker"),
                           (B + "::Blocker::park", r"may::park::Park::park_timeout|" + re.escape(B) + r"::ThreadPark::park_timeout", "blocker/park-dispatches", "Blocker::park blocks on its parker"),
                           (B + "::FastBlocker::unpark", r"may::park::Park::unpark_impl", "fast-blocker/unpark", "FastBlocker::unpark resumes its coroutine"),
                           (B + "::FastBlocker::park", r"may::park::Park::park_timeout", "fast-blocker/park", "FastBlocker::park blocks on its Park")])
    # which kind of cancellation point each blocker is: SyncBlocker handles the cancel itself (ignore = true), a plain Blocker is one (false)
    def const_arg(fid, callee_rx, argi, exp, inst, why):
        f = ctx.fn(rule, fid, inst)
        if f is None: return
        sites = sorted(ctx.an.sites(f, Call(callee_rx, transitive=False), "must"))
        if not sites:
            ctx.missing(rule, fid, inst, "no call of %s in %s" % (callee_rx, fid)); return
        vals = [const_int(f, f.node(pt)["args"][argi]) for pt in sites]
        ok = all(v == exp for v in vals)
        ctx.ob(rule, fid, inst, ok, "%s (%s)" % (why, bool(exp)) if ok else "%s: %s passes %s, expected %s" % (why, fid, vals, bool(exp)), f.where(sites[0]))
    const_arg(SB + "::current", re.escape(B) + r"::Blocker::new", 0, 1, "sync-blocker/ignores-cancel", "a SyncBlocker's park is not a cancellation point itself: the primitive's cancel arm forwards the hand-off first")
    const_arg(B + "::Blocker::current", re.escape(B) + r"::Blocker::new", 0, 0, "blocker/is-cancellation-point", "a plain Blocker (join, channel receive, cqueue poll) is a cancellation point")
    const_arg(B + "::FastBlocker::unpark", r"may::park::Park::unpark_impl", 1, 1, "fast-blocker/runs-synchronously", "FastBlocker resumes its coroutine in place")
    f = ctx.fn(rule, B + "::Blocker::new", "blocker/passes-ignore-cancel")
    if f is not None:
        IC = Call(r"may::park::Park::ignore_cancel", transitive=False)
        sites = sorted(ctx.an.sites(f, IC, "must"))
        ok = bool(sites) and all(simplify(trace_operand(f, f.node(pt)["args"][1]))[0] == "arg" for pt in sites)
        ctx.ob(rule, B + "::Blocker::new", "blocker/passes-ignore-cancel", ok, "Blocker::new configures the coroutine Park with the caller's ignore_cancel" if ok else
               "Blocker::new does not pass its ignore_cancel argument to Park::ignore_cancel", f.where(sites[0]) if sites else f.where())
        ctx.must_follow(B + "::Blocker::new", None, IC, "blocker/coroutine-park-configured", "in coroutine context the new Park is always configured", rule="R-PAIR",
                        edge=call_true(r"may::coroutine_impl::is_coroutine"), edge_label="edge `is_coroutine()` is true")


# ------------------------------------------------------------------------------------------------
# channel bookkeeping: endpoint counts and the port-dropped flag (C06, C07)

def rmw_const(ctx, fid, fld, method, val, inst, why, rule="R-ENUM"):
    """fid performs exactly one `field.method(val)` and does so on every path"""
    f = ctx.fn(rule, fid, inst)
    if f is None: return
    ev = Call(A(method), on=fld, transitive=False)
    sites = sorted(ctx.an.sites(f, ev, "must"))
    got = [const_int(f, f.node(pt)["args"][1]) for pt in sites]
    ok = len(sites) == 1 and ctx.an.must(f, ev) and got[0] == val
    ctx.ob(rule, fid, inst, ok, "%s: %s.%s(%s)" % (why, fld.rsplit(".", 1)[-1], method, val) if ok else
           "%s: %s must perform exactly one `%s.%s(%s)` on every path (found %d site(s), value(s) %s)" % (why, fid, fld.rsplit(".", 1)[-1], method, val, len(sites), got), f.where(sites[0]) if sites else f.where())

def channel_bookkeeping_rules(ctx):
    S = "may::sync"
    for m, cnt in (("mpsc", "channels"), ("spsc", "channels")):
        IQ = "%s::%s::InnerQueue" % (S, m)
        flag_values(ctx, [("init", IQ + "::new", IQ + "." + cnt, 1, "%s/starts-with-one-sender" % m, "a new channel has one sender"),
                          ("init", IQ + "::new", IQ + ".port_dropped", 0, "%s/starts-with-receiver" % m, "a new channel has its receiver"),
                          ("store", IQ + "::drop_port", IQ + ".port_dropped", 1, "%s/drop-port-marks" % m, "dropping the receiver is published to the senders")])
        ctx.guarded(IQ + "::send", Agg(r"(std|core)::result::Result", "Err", transitive=False), call_true(A("load"), IQ + ".port_dropped"), "%s/send-fails-only-if-port-dropped" % m,
                    "send fails only when the receiver is gone", rule="R-EXIT", pred_label="edge `port_dropped.load()` is true")
        ctx.must_follow(IQ + "::send", None, Call(r"may_queue::(mpsc|spsc)::Queue::push", transitive=False), "%s/send-queues-if-port-alive" % m, "with the receiver alive every send queues its message", rule="R-PAIR",
                        edge=call_false(A("load"), IQ + ".port_dropped"), edge_label="edge `port_dropped.load()` is false")
    rmw_const(ctx, S + "::mpsc::InnerQueue::clone_chan", S + "::mpsc::InnerQueue.channels", "fetch_add", 1, "mpsc/clone-counts-sender", "every Sender clone is counted (the last drop, and only the last, disconnects)")
    rmw_const(ctx, S + "::mpsc::InnerQueue::drop_chan", S + "::mpsc::InnerQueue.channels", "fetch_sub", 1, "mpsc/drop-uncounts-sender", "every Sender drop takes its count back")
    flag_values(ctx, [("store", S + "::spsc::InnerQueue::drop_chan", S + "::spsc::InnerQueue.channels", 0, "spsc/drop-chan-clears-count", "dropping the only sender publishes `no sender`")])
    MP = S + "::mpmc::InnerQueue"
    flag_values(ctx, [("init", MP + "::new", MP + ".tx_ports", 1, "mpmc/starts-with-one-tx", "a new channel has one sender"),
                      ("init", MP + "::new", MP + ".rx_ports", 1, "mpmc/starts-with-one-rx", "a new channel has one receiver")])
    rmw_const(ctx, MP + "::clone_tx", MP + ".tx_ports", "fetch_add", 1, "mpmc/clone-tx-counts", "every Sender clone is counted")
    rmw_const(ctx, MP + "::clone_rx", MP + ".rx_ports", "fetch_add", 1, "mpmc/clone-rx-counts", "every Receiver clone is counted")
    rmw_const(ctx, MP + "::drop_tx", MP + ".tx_ports", "fetch_sub", 1, "mpmc/drop-tx-uncounts", "every Sender drop takes its count back")
    rmw_const(ctx, MP + "::drop_rx", MP + ".rx_ports", "fetch_sub", 1, "mpmc/drop-rx-uncounts", "every Receiver drop takes its count back")
    last = lambda a: a.kind == "val" and a.eq and a.vals == (1,) and is_call_result(A("fetch_sub"))(a.origin)
    ctx.must_follow(MP + "::drop_tx", None, Call(r"may::sync::semphore::Semphore::post", transitive=False), "mpmc/last-tx-posts-disconnect", "the last sender always posts the disconnect permit", rule="R-PAIR",
                    edge=last, edge_label="edge `tx_ports.fetch_sub(1) == 1`")
    ctx.guarded(MP + "::drop_tx", Call(r"may::sync::semphore::Semphore::post", transitive=False), last, "mpmc/only-last-tx-posts-disconnect", "only the last sender posts the disconnect permit (an extra permit makes a receiver see Disconnected with senders alive)",
                rule="R-EXIT", pred_label="edge `tx_ports.fetch_sub(1) == 1`")
    ctx.guarded(MP + "::send", Agg(r"(std|core)::result::Result", "Err", transitive=False), lambda a: cmp_matches(a, "Eq", is_call_result(A("load")), is_const(0)), "mpmc/send-fails-only-without-rx",
                "send fails only when no receiver is left", rule="R-EXIT", pred_label="edge `rx_ports.load() == 0`")
    # every queued message is matched by one permit
    ctx.must_follow(MP + "::send", Call(r"(crossbeam::)?crossbeam_queue::(seg_queue::)?SegQueue::push", transitive=False), Call(r"may::sync::semphore::Semphore::post", transitive=False),
                    "mpmc/send-posts-permit", "every message pushed by send is followed by one permit", rule="R-PAIR")
    # endpoints wire clone/drop to the counters
    for m, pairs in (("mpsc", (("<may::sync::mpsc::Sender as std::clone::Clone>::clone", "clone_chan"), ("<may::sync::mpsc::Sender as std::ops::Drop>::drop", "drop_chan"), ("<may::sync::mpsc::Receiver as std::ops::Drop>::drop", "drop_port"))),
                     ("spsc", (("<may::sync::spsc::Sender as std::ops::Drop>::drop", "drop_chan"), ("<may::sync::spsc::Receiver as std::ops::Drop>::drop", "drop_port"))),
                     ("mpmc", (("<may::sync::mpmc::Sender as std::clone::Clone>::clone", "clone_tx"), ("<may::sync::mpmc::Sender as std::ops::Drop>::drop", "drop_tx"),
                               ("<may::sync::mpmc::Receiver as std::clone::Clone>::clone", "clone_rx"), ("<may::sync::mpmc::Receiver as std::ops::Drop>::drop", "drop_rx")))):
        forwarding_rules(ctx, [(fid, r"may::sync::%s::InnerQueue::%s" % (m, meth), "%s/endpoint-%s" % (m, meth.replace("_", "-")), "the endpoint's clone/drop is accounted in the shared queue") for fid, meth in pairs])


def spsc_blocker_tag_rules(ctx, rule="R-ENUM"):
    """spsc::Blocker is a tagged word: bit 0 clear = a raw coroutine, bit 0 set = a boxed Thread. Constructor, consumers and Drop agree."""
    B = "may::sync::spsc::Blocker"
    def tag_is(v):
        def p(a):
            if a.kind != "cmp" or a.op not in ("Eq", "Ne"): return False
            x = simplify(a.a)
            if not (x[0] == "bin" and x[1] == "BitAnd" and (is_const(1)(simplify(x[2])) or is_const(1)(simplify(x[3])))): return False
            if is_const(0)(a.b): return (a.op == "Eq") == (v == 0)
            if is_const(1)(a.b): return (a.op == "Eq") == (v == 1)
            return False
        return p
    IC = Call(re.escape(B) + "::into_coroutine|generator::.*::from_raw", transitive=False)
    IT = Call(re.escape(B) + "::into_thread|(std|alloc)::boxed::Box::from_raw", transitive=False)
    for fid, short in ((B + "::unpark", "unpark"),):
        f = ctx.fn(rule, fid, "spsc-blocker/%s-coroutine-only-if-untagged" % short)
        if f is None: continue
        ctx.guarded(fid, IC, tag_is(0), "spsc-blocker/%s-coroutine-only-if-untagged" % short, "the handle is turned back into a coroutine only when bit 0 is clear", rule=rule, pred_label="edge `(handle & 1) == 0`")
        ctx.guarded(fid, IT, tag_is(1), "spsc-blocker/%s-thread-only-if-tagged" % short, "the handle is turned back into a Thread only when bit 0 is set", rule=rule, pred_label="edge `(handle & 1) != 0`")
        ctx.must_follow(fid, None, Call(r"may::scheduler::Scheduler::schedule|may::coroutine_impl::run_coroutine", transitive=False), "spsc-blocker/coroutine-waiter-scheduled", "a coroutine waiter is always scheduled", rule="R-PAIR",
                        edge=tag_is(0), edge_label="edge `(handle & 1) == 0`")
        ctx.must_follow(fid, None, Call(r"std::thread::Thread::unpark", transitive=False), "spsc-blocker/thread-waiter-unparked", "a thread waiter is always unparked", rule="R-PAIR",
                        edge=tag_is(1), edge_label="edge `(handle & 1) != 0`")
    D = "<may::sync::spsc::Blocker as std::ops::Drop>::drop"
    if ctx.prog.fn(D) is not None:
        ctx.guarded(D, Call(r"(std|alloc)::boxed::Box::from_raw", transitive=False), tag_is(1), "spsc-blocker/drop-frees-thread-only-if-tagged", "Drop frees the boxed Thread only for a tagged handle (an untagged one is a coroutine)", rule=rule,
                    pred_label="edge `(handle & 1) != 0`")
    # constructors: the thread handle is tagged, the coroutine handle is not
    f = ctx.fn(rule, B + "::new_thread", "spsc-blocker/thread-handle-tagged")
    if f is not None:
        ok = any((callee_name(f.node(pt)) or "").endswith("BitOrAssign>::bitor_assign") or (callee_name(f.node(pt)) or "").endswith("BitOr>::bitor") for pt in f.points() if f.is_term(pt) and f.node(pt)["t"] == "call") or \
             any(not f.is_term(pt) and f.node(pt).get("s") == "=" and f.node(pt)["rv"]["r"] == "bin" and f.node(pt)["rv"]["op"] == "BitOr" for pt in f.points())
        ctx.ob(rule, B + "::new_thread", "spsc-blocker/thread-handle-tagged", ok, "new_thread sets bit 0 of the handle" if ok else "new_thread no longer tags the handle: unpark treats the boxed Thread as a raw coroutine", f.where())
    g = ctx.fn(rule, B + "::new_coroutine", "spsc-blocker/coroutine-handle-untagged")
    if g is not None:
        bad = any((callee_name(g.node(pt)) or "").endswith(("bitor_assign", "BitOr>::bitor")) for pt in g.points() if g.is_term(pt) and g.node(pt)["t"] == "call")
        ctx.ob(rule, B + "::new_coroutine", "spsc-blocker/coroutine-handle-untagged", not bad, "new_coroutine leaves bit 0 clear" if not bad else "new_coroutine tags the handle", g.where())
    forwarding_rules(ctx, [(B + "::into_coroutine", r"(std|core)::mem::forget", "spsc-blocker/into-coroutine-forgets-self", "the consumed Blocker is forgotten (its Drop must not run on a handle that was turned back into its owner)"),
                           (B + "::into_thread", r"(std|core)::mem::forget", "spsc-blocker/into-thread-forgets-self", "the consumed Blocker is forgotten (no double free of the boxed Thread)")])
    # the receiver's Park: kernel-side marker
    SP = "may::sync::spsc::Park"
    flag_values(ctx, [("store", SP + "::delay_drop", SP + ".wait_kernel", 1, "spsc-park/delay-drop-sets", "subscribe marks the Park as in use"),
                      ("store", "<may::sync::spsc::DropGuard as std::ops::Drop>::drop", SP + ".wait_kernel", 0, "spsc-park/guard-drop-clears", "leaving subscribe releases the Park")])
    PD = "<may::sync::spsc::Park as std::ops::Drop>::drop"
    ctx.guarded(PD, Ev("ret"), call_false(A("load"), SP + ".wait_kernel"), "spsc-park/drop-waits-for-kernel", "the receiver's Park is freed only after subscribe has left it", rule="R-EXIT", pred_label="edge `wait_kernel.load()` is false")


def condvar_frontend_rules(ctx, rule="R-EXIT"):
    CV = "may::sync::condvar::Condvar"
    TRG = Call(r"may::cancel::trigger_cancel_panic", transitive=False)
    for fn in ("wait", "wait_timeout"):
        fid = CV + "::" + fn
        f = ctx.fn(rule, fid, "condvar/%s/cancel-panic-only-if-canceled" % fn)
        if f is None: continue
        def canceled(a, f=f):
            # `matches!(ret, Err(ParkError::Canceled))` / `if let Err(ParkError::Canceled) = ret`: a discriminant test on the wait's result
            if a.kind == "variant" and a.name == "Canceled" and root_of(simplify(a.origin))[0] == "call" and (root_of(simplify(a.origin))[2] or "").endswith("Condvar::wait_impl"): return True
            if not (a.kind == "call" and a.truth is True and re.search(r"PartialEq>::eq$", a.name or "")): return False
            t = f.term(a.site)
            def names_canceled(o, d=0):
                o = simplify(o)
                if o[0] == "const": return any("ParkError::Canceled" in str(x) for x in (o[3] or ())) or "Canceled" in (o[1] or "")
                if o[0] == "agg": return "Canceled" in str(o[2]) or any(names_canceled(x, d + 1) for x in (o[3] or ()))
                if o[0] in ("ref", "deref", "cast", "field") and d < 6: return names_canceled(o[1], d + 1)
                return False
            return any(names_canceled(trace_operand(f, x)) for x in t["args"][:2])
        if not ctx.edges(f, canceled) or not ctx.an.sites(f, TRG, "must"):
            ctx.missing(rule, fid, "condvar/%s/cancel-panic-only-if-canceled" % fn, "`ret == Err(Canceled)` edges=%d trigger sites=%d" % (len(ctx.edges(f, canceled)), len(ctx.an.sites(f, TRG, "must")))); continue
        ctx.guarded(fid, TRG, canceled, "condvar/%s/cancel-panic-only-if-canceled" % fn, "Condvar::%s raises the Cancel panic only when the wait reported Canceled" % fn, rule=rule, pred_label="edge `ret == Err(Canceled)`")
        ctx.must_follow(fid, None, TRG, "condvar/%s/canceled-wait-panics" % fn, "a cancelled wait always ends in the Cancel panic", rule="R-PAIR", edge=canceled, edge_label="edge `ret == Err(Canceled)`")
        ctx.must_follow(fid, None, Call(r"may::sync::mutex::unlock_mutex|may::sync::mutex::Mutex::unlock", transitive=False), "condvar/%s/canceled-wait-releases-mutex" % fn,
                        "before the Cancel panic the re-acquired mutex is released (the guard is forgotten, so nobody else would)", rule="R-PAIR", edge=canceled, edge_label="edge `ret == Err(Canceled)`",
                        exits=lambda g: set(g.ret_points()) | ctx.an.sites(g, TRG, "must"))
        ctx.must_call(fid, Call(re.escape(CV) + "::wait_impl", transitive=False), "condvar/%s/waits" % fn, "Condvar::%s always goes through wait_impl" % fn, rule="R-PAIR")
    # wait_while: waits while the condition holds and returns the guard only when it does not
    WW = CV + "::wait_while"
    f = ctx.prog.fn(WW)
    if f is not None:
        COND = r"(std|core)::ops::(FnMut|Fn|FnOnce)::call(_mut|_once)?"
        ctx.guarded(WW, Call(re.escape(CV) + "::wait", transitive=False), call_true(COND), "condvar/wait-while/waits-only-while-condition", "wait_while blocks only while the condition holds", rule=rule,
                    invalidate=Call(re.escape(CV) + "::wait", transitive=False), pred_label="edge `condition(guard)` is true")
        ctx.guarded(WW, Agg(r"(std|core)::result::Result", "Ok", transitive=False), call_false(COND), "condvar/wait-while/returns-only-when-condition-false", "wait_while returns Ok(guard) only after the condition was seen false", rule=rule,
                    pred_label="edge `condition(guard)` is false")


# ------------------------------------------------------------------------------------------------
# io timeouts: read and write directions agree between setter, getter, and the io source that arms the timer (C18)

def io_timeout_direction_rules(ctx, rule="R-SIB"):
    AD = r"may::sync::atomic_dur::AtomicDuration::"
    def fld_dir(g, t):
        leaf = receiver_leaf(g, t) or ""
        m = re.search(r"\.(read|write)_timeout$", leaf)
        return m.group(1) if m else None
    def touches(kind, d):
        return Call(AD + kind, where=lambda g, pt, t, d=d: fld_dir(g, t) == d, label="AtomicDuration::%s on a %s_timeout field" % (kind, d))
    n = 0
    for k, f in sorted(ctx.prog.fns.items()):
        if not k.startswith("may::") or "::windows::" in k or "{closure" in k: continue
        last = k.rsplit("::", 1)[-1]
        m = re.fullmatch(r"(set_)?(read|write)_timeout", last)
        if not m: continue
        setter, d = bool(m.group(1)), m.group(2)
        other = "write" if d == "read" else "read"
        kind = "store" if setter else "get"
        n += 1
        ctx.fns_touched.add(k)
        if setter:
            # on every path that does not leave through a `?` / Err edge
            st = ctx.an.sites(f, touches(kind, d), "must")
            errb, _ = ctx.edge_blocker(f, lambda a: a.kind == "variant" and a.name in ("Break", "Err"))
            r = ctx.an.reach(f, [Point(0, 0)], blocked=st, blocked_edges=errb)
            ok1 = bool(st) and not any(x in r for x in f.ret_points())
        else:
            ok1 = bool(ctx.an.may(f, touches(kind, d)))
        bad2 = ctx.an.may(f, touches("store", other)) or (not setter and ctx.an.may(f, touches("get", other)))
        ctx.ob(rule, k, "io-timeout/%s-own-direction" % ("setter" if setter else "getter"), ok1 and not bad2,
               "%s %s the %s timeout (and not the %s one)" % (last, "stores" if setter else "reads", d, other) if ok1 and not bad2 else
               "%s %s: a %s timeout configured by the user is %s" % (k, ("does not store into a %s_timeout field on every successful path" % d) if not ok1 else ("touches the %s_timeout field" % other), d,
                                                                       "lost or applied to the other direction - the next blocking %s waits for the wrong time" % d), f.where())
        if setter:
            # the stored value is the caller's argument
            sites = sorted(ctx.an.sites(f, Call(AD + "store", transitive=False, where=lambda g, pt, t, d=d: fld_dir(g, t) == d), "must"))
            for pt in sites:
                o = simplify(trace_operand(f, f.node(pt)["args"][1]))
                oka = o[0] == "arg"
                ctx.ob(rule, k, "io-timeout/setter-stores-argument", oka, "%s stores exactly the duration it was given" % last if oka else "%s stores %s instead of its argument" % (k, fmt_origin(o)[:80]), f.where(pt))
    if n < 8 and ctx.cfg != "bare":
        ctx.missing(rule, "io timeout accessors", "io-timeout/accessors", "expected >= 8 set_/get read/write timeout accessors, found %d" % n)
    # try_clone of the sockets that keep their timeouts in user space hands both timeouts on, each to its own direction
    for k in ("may::net::tcp::TcpStream::try_clone", "may::net::udp::UdpSocket::try_clone"):
        f = ctx.prog.fn(k)
        if f is None or ctx.cfg == "bare": continue
        ctx.fns_touched.add(k)
        for d in ("read", "write"):
            other = "write" if d == "read" else "read"
            sites = sorted(ctx.an.sites(f, Call(r".*::set_%s_timeout" % d, transitive=False), "must"))
            okv = bool(sites)
            for pt in sites:
                o = simplify(trace_operand(f, f.node(pt)["args"][1]))
                okv &= o[0] == "call" and re.fullmatch(AD + "get", o[2] or "") is not None and fld_dir(f, f.term(o[1])) == d
            errb, _ = ctx.edge_blocker(f, lambda a: a.kind == "variant" and a.name in ("Break", "Err"))
            r = ctx.an.reach(f, [Point(0, 0)], blocked=set(sites), blocked_edges=errb)
            okm = bool(sites) and not any(x in r for x in f.ret_points())
            ctx.ob(rule, k, "io-timeout/clone-inherits-%s-timeout" % d, okv and okm, "the clone gets the original's %s timeout" % d if okv and okm else
                   "%s does not (always) pass its own %s timeout to the clone's set_%s_timeout: blocking %ss on the clone use %s" % (k, d, d, d, "no / the %s timeout" % other), f.where(sites[0]) if sites else f.where())
    # io sources: the timeout handed to (or fetched by) a source constructor has the source's direction
    def src_dir(name):
        if re.search(r"Read|Recv|Peek|Accept", name): return "read"
        if re.search(r"Write|Send|Connect", name): return "write"
        return None
    wrong_rx = lambda d: r".*::%s_timeout" % ("write" if d == "read" else "read")
    ns = 0
    for im in ctx.prog.impls_of("may::coroutine_impl::EventSource"):
        adt = norm(im.get("self_adt") or im["self_ty"])
        if "::io::sys::" not in adt: continue
        d = src_dir(adt.rsplit("::", 1)[-1])
        if d is None: continue
        other = "write" if d == "read" else "read"
        newf = ctx.prog.fn(adt + "::new")
        if newf is None: continue
        bad = None
        # inside the constructor
        if ctx.an.sites(newf, Call(wrong_rx(d), transitive=False), "may") or ctx.an.sites(newf, touches("get", other), "may"):
            bad = (newf, None, "%s::new fetches the %s timeout" % (adt.rsplit("::", 1)[-1], other))
        # at every construction site: no argument comes from the other direction's timeout
        for gid, lst in ctx.callers_of(re.escape(adt) + "::new").items():
            for (g, pt, cid) in lst:
                ns += 1
                for a in g.node(pt)["args"]:
                    o = trace_operand(g, a)
                    if origin_reaches_call(g, o, wrong_rx(d)):
                        bad = (g, pt, "%s builds a %s with the %s timeout" % (gid, adt.rsplit("::", 1)[-1], other))
                    else:
                        # AtomicDuration::get on the other direction's field
                        oo = simplify(o)
                        if oo[0] == "call" and re.fullmatch(AD + "get", oo[2] or "") and fld_dir(g, g.term(oo[1])) == other:
                            bad = (g, pt, "%s builds a %s with the %s timeout" % (gid, adt.rsplit("::", 1)[-1], other))
        ctx.ob(rule, adt, "io-timeout/source-gets-own-direction", bad is None, "%s is armed with the %s timeout at every construction site" % (adt.rsplit("::", 1)[-1], d) if bad is None else
               "%s: a blocking %s is bounded by the %s timeout" % (bad[2], d, other), (bad[0].where(bad[1]) if bad and bad[1] else (bad[0].where() if bad else newf.where())))
    if ns < 10 and ctx.cfg != "bare":
        ctx.missing(rule, "io sources", "io-timeout/construction-sites", "expected >= 10 construction sites of io sources, found %d" % ns)


def sync_wrapper_forwarding(ctx):
    S = "may::sync"
    forwarding_rules(ctx, [
        (S + "::semphore::Semphore::wait", re.escape(S) + r"::semphore::Semphore::wait_timeout_impl", "fwd/semphore-wait", "Semphore::wait blocks through wait_timeout_impl"),
        (S + "::semphore::Semphore::wait_timeout", re.escape(S) + r"::semphore::Semphore::wait_timeout_impl", "fwd/semphore-wait-timeout", "Semphore::wait_timeout blocks through wait_timeout_impl"),
        (S + "::sync_flag::SyncFlag::wait", re.escape(S) + r"::sync_flag::SyncFlag::wait_timeout_impl", "fwd/syncflag-wait", "SyncFlag::wait blocks through wait_timeout_impl"),
        (S + "::sync_flag::SyncFlag::wait_timeout", re.escape(S) + r"::sync_flag::SyncFlag::wait_timeout_impl", "fwd/syncflag-wait-timeout", "SyncFlag::wait_timeout blocks through wait_timeout_impl"),
    ])

def atomic_option_rules(ctx, rule="R-ENUM"):
    AOP = "may::sync::atomic_option::AtomicOption"
    f = ctx.fn(rule, AOP + "::store", "atomic-option/store-stores-some")
    if f is not None:
        sites = sorted(ctx.an.sites(f, Call(r"crossbeam(_utils)?::.*AtomicCell::(store|swap)", transitive=False), "must"))
        ok = False
        for pt in sites:
            o = simplify(trace_operand(f, f.node(pt)["args"][1]))
            ok = o[0] == "agg" and o[2] == "Some" and simplify(o[3][0])[0] == "arg"
        ok = ok and ctx.an.must(f, Call(r"crossbeam(_utils)?::.*AtomicCell::(store|swap)", transitive=False))
        ctx.ob(rule, AOP + "::store", "atomic-option/store-stores-some", ok, "AtomicOption::store always stores Some(its argument)" if ok else
               "AtomicOption::store does not store Some(t): a published coroutine / waiter / result is dropped instead of handed over", f.where(sites[0]) if sites else f.where())
    g = ctx.fn(rule, AOP + "::take", "atomic-option/take-takes")
    if g is not None:
        ok = ctx.an.must(g, Call(r"crossbeam(_utils)?::.*AtomicCell::(take|swap)", transitive=False))
        ctx.ob(rule, AOP + "::take", "atomic-option/take-takes", ok, "AtomicOption::take moves the value out of the cell (a second take finds None)" if ok else
               "AtomicOption::take no longer empties the cell: two takers obtain the same coroutine", g.where())


def io_helper_forwarding(ctx):
    IO = "may::io::sys"
    SEL = IO + "::select::Selector"
    items = [
        (IO + "::add_socket", re.escape(SEL) + "::add_fd", "fwd/add-socket", "add_socket registers the fd with the selector"),
        (IO + "::mod_socket", re.escape(SEL) + "::mod_fd", "fwd/mod-socket", "mod_socket re-registers the fd for its direction"),
        (IO + "::del_socket", re.escape(SEL) + "::del_fd", "fwd/del-socket", "del_socket hands the io data to the selector for deregistration"),
    ]
    # (without the io_cancel feature - config `bare` - the io cancel data does not exist)
    if ctx.prog.fn("<may::io::sys::cancel::CancelIoImpl as may::cancel::CancelIo>::set") is not None:
        items += [("<may::io::sys::cancel::CancelIoImpl as may::cancel::CancelIo>::set", AO + "store", "fwd/cancel-io-set", "set() publishes the io data to the canceller"),
                  ("<may::io::sys::cancel::CancelIoImpl as may::cancel::CancelIo>::clear", AO + "take", "fwd/cancel-io-clear", "clear() withdraws the io data (a later cancel must not fire into a finished io)")]
    elif ctx.cfg != "bare":
        ctx.missing("R-FWD", "may::io::sys::cancel::CancelIoImpl", "fwd/cancel-io-set", "CancelIoImpl::set not found")
    if ctx.prog.fn(IO + "::remove_timer") is not None:
        items.append((IO + "::remove_timer", r"may_queue::mpsc_list_v1::Entry::remove", "fwd/remove-timer", "remove_timer unlinks the timer entry"))
    if ctx.prog.fn(SEL + "::del_io_timer") is not None:
        items.append((SEL + "::del_io_timer", re.escape(SEL) + "::wakeup", "fwd/del-io-timer-wakes-owner", "handing a timer to its owning selector wakes that selector (it schedules the coroutine after removing the timer)"))
        items.append((SEL + "::del_io_timer", MQ_MPSC + "push", "fwd/del-io-timer-queues", "the (timer, coroutine) pair is queued for the owning selector"))
    forwarding_rules(ctx, items)
    if ctx.prog.fn(SEL + "::del_io_timer") is not None:
        ctx.order(SEL + "::del_io_timer", Call(MQ_MPSC + "push", transitive=False), Call(re.escape(SEL) + "::wakeup", transitive=False), "del-io-timer/queue-then-wake",
                  "the pair is queued before the owner is woken (the woken selector must find it)")
    # co_io_result: in coroutine context the passed-in result is the coroutine's, in thread context the thread's associated slot
    f = ctx.prog.fn(IO + "::co_io_result")
    if f is not None:
        ctx.guarded(IO + "::co_io_result", Call(r"may::yield_now::get_co_para", transitive=False), lambda a: a.kind == "truth" and a.truth is True and simplify(a.origin)[0] in ("arg", "call"),
                    "co-io-result/co-para-only-in-coroutine", "the coroutine's result slot is consumed only in coroutine context", rule="R-EXIT", pred_label="edge `is_coroutine` is true")


def true_result_sites(f):
    """points that assign the constant `true` to the return place"""
    return [pt for pt in f.points() if not f.is_term(pt) and f.node(pt).get("s") == "=" and not f.node(pt)["l"]["p"] and f.node(pt)["l"]["l"] == 0 and
            f.node(pt)["rv"]["r"] == "use" and const_int(f, f.node(pt)["rv"]["o"]) == 1]

def wait_success_evidence(ctx, fid, fast_rx, inst, what, rule="R-EXIT"):
    """a timed wait reports success (`true`) only behind evidence: its fast-path test came out true, or park returned Ok"""
    f = ctx.fn(rule, fid, inst)
    if f is None: return
    ts = true_result_sites(f)
    if not ts:
        ctx.missing(rule, fid, inst, "no `true` result in %s" % fid); return
    ctx.guarded(fid, lambda g: ts, any_of(call_true(fast_rx), variant_of_call(r"may::sync::blocking::SyncBlocker::park", "Ok")), inst,
                "%s reports success only when %s or when park() returned Ok (it was woken by the other side)" % (fid.rsplit("::", 2)[-2] + "::" + fid.rsplit("::", 1)[-1], what), rule=rule,
                pred_label="edge fast-path test is true / `park()` is Ok")

def wait_group_rules(ctx, rule="R-ORDER"):
    WG = "may::sync::wait_group::WaitGroup"
    f = ctx.fn(rule, WG + "::wait", "wait-group/leaves-before-waiting")
    if f is None: return
    drops = set(pt for pt in f.points() if f.is_term(pt) and ((f.node(pt)["t"] == "drop" and f.node(pt)["ty"] == WG) or
                (f.node(pt)["t"] == "call" and (callee_name(f.node(pt)) or "").endswith("mem::drop") and f.node(pt)["args"] and
                 (type_of_place(f, f.node(pt)["args"][0].get("m") or f.node(pt)["args"][0].get("c") or {"l": 0, "p": []}) or "") == WG)))
    waits = ctx.an.sites(f, Call(r"(may::sync::condvar|std::sync(::poison::condvar)?)::Condvar::wait(_while|_timeout)?", transitive=False), "must")
    if not drops or not waits:
        ctx.missing(rule, WG + "::wait", "wait-group/leaves-before-waiting", "drops of self=%d condvar waits=%d" % (len(drops), len(waits))); return
    r = ctx.an.reach(f, [Point(0, 0)], blocked=drops)
    bad = [w for w in waits if w in r]
    ctx.ob(rule, WG + "::wait", "wait-group/leaves-before-waiting", not bad, "WaitGroup::wait gives up its own reference (count - 1) before it waits for the count to reach 0" if not bad else
           "WaitGroup::wait waits for the count to reach 0 while it still holds its own reference: it waits for itself", f.where(bad[0]) if bad else f.where())


# ------------------------------------------------------------------------------------------------
# linear normal form of an integer expression (an Origin): {atom: coefficient} with "" the constant; atoms are the maximal
# non-linear subterms. Used for dataflow equalities such as "the number of slots copied is end - start".

def linear_form(o, depth=0):
    o = _sv(o)
    if depth > 12: return {repr(o): 1}
    if o[0] == "const" and o[2] is not None:
        try: return {"": int(o[2])}
        except (TypeError, ValueError): return {repr(o): 1}
    if o[0] == "bin" and o[1] in ("Add", "Sub"):
        a, b = linear_form(o[2], depth + 1), linear_form(o[3], depth + 1)
        out = dict(a)
        for k, v in b.items(): out[k] = out.get(k, 0) + (v if o[1] == "Add" else -v)
        return {k: v for k, v in out.items() if v != 0}
    if o[0] == "bin" and o[1] in ("Mul", "Shl"):
        a, b = linear_form(o[2], depth + 1), linear_form(o[3], depth + 1)
        ca = a.get("") if set(a) <= {""} else None
        cb = b.get("") if set(b) <= {""} else None
        if o[1] == "Shl" and cb is not None: return {k: v * (1 << cb) for k, v in a.items()}
        if o[1] == "Mul" and cb is not None: return {k: v * cb for k, v in a.items() if v * cb != 0}
        if o[1] == "Mul" and ca is not None: return {k: v * ca for k, v in b.items() if v * ca != 0}
        return {repr(o): 1}
    if o[0] == "call" and re.search(r"::(wrapping|saturating|unchecked)_(add|sub)$", o[2] or ""):
        return {repr(o): 1}     # needs the function body to see the operands; treated as an atom
    return {repr(o): 1}

def lin_sub(a, b):
    out = dict(a)
    for k, v in b.items(): out[k] = out.get(k, 0) - v
    return {k: v for k, v in out.items() if v != 0}

def copy_to_bulk_rules(ctx, rule="R-ENUM"):
    """every block queue has the same helper `BlockNode::copy_to_bulk(start, end)`; its callers commit `end` and account `end - start`
    slots, so the helper copies exactly the `end - start` slots beginning at slot `start & BLOCK_MASK` (seed C03-7: masking `end` as
    well makes the range empty when it ends at the block boundary - the committed values are never handed out)"""
    n = 0
    for q in ("mpsc", "spsc", "spmc"):
        fid = "may_queue::%s::BlockNode::copy_to_bulk" % q
        f = ctx.prog.fn(fid)
        if f is None: continue
        n += 1
        ctx.fns_touched.add(fid)
        rngs = []
        for g in [f] + ctx.prog.closures_of(f):
            for pt in g.points():
                if g.is_term(pt): continue
                nd = g.node(pt)
                if nd.get("s") == "=" and nd["rv"]["r"] == "agg" and nd["rv"].get("ak") == "adt" and norm(nd["rv"]["adt"]).endswith("ops::Range") and g is f:
                    names = nd["rv"]["fields"]
                    rngs.append((pt, simplify(trace_operand(f, nd["rv"]["ops"][names.index("start")])), simplify(trace_operand(f, nd["rv"]["ops"][names.index("end")]))))
        if len(rngs) != 1:
            ctx.missing(rule, fid, q + "/copy/length-is-end-minus-start", "expected one Range construction in copy_to_bulk, found %d" % len(rngs)); continue
        pt, rs, re_ = rngs[0]
        want = lin_sub(linear_form(O("arg", 3)), linear_form(O("arg", 2)))
        got = lin_sub(linear_form(re_), linear_form(rs))
        ok = got == want
        ctx.ob(rule, fid, q + "/copy/length-is-end-minus-start", ok, "%s copy_to_bulk walks exactly `end - start` slots" % q if ok else
               "%s copy_to_bulk walks a range whose length is not `end - start` (range %s .. %s): its callers commit `end` and account `end - start` slots - values between are lost or read twice" %
               (q, fmt_origin(rs)[:60], fmt_origin(re_)[:90]), f.where(pt))
        # first slot: start & MASK (as the range start, or added to the range variable inside the closure - only the former is recognised;
        # a range starting at 0 is accepted when the closure adds something)
        s0 = _sv(rs)
        oks = (s0[0] == "bin" and s0[1] == "BitAnd" and (_sv(s0[2]) == O("arg", 2) or _sv(s0[3]) == O("arg", 2)) and (_is_mask_const(s0[2]) or _is_mask_const(s0[3]))) or is_const(0)(s0)
        ctx.ob(rule, fid, q + "/copy/first-slot-is-start-masked", oks, "%s copy_to_bulk starts at slot `start & BLOCK_MASK`" % q if oks else
               "%s copy_to_bulk's range does not start at `start & BLOCK_MASK` (%s)" % (q, fmt_origin(rs)[:80]), f.where(pt))
    if n < 3:
        ctx.missing(rule, "may_queue::*::BlockNode::copy_to_bulk", "copy/siblings", "expected the three copy_to_bulk siblings, found %d" % n)


# ------------------------------------------------------------------------------------------------
# F20: a worker that keeps finding coroutines in its local queue still polls its global queue (C01)

def worker_polls_global_rules(ctx, rule="R-EXIT"):
    """every cycle of run_queued_tasks that runs a coroutine passes a point that polls the worker's global queue: collect_global itself, or a
    periodic decision `counter % K == 0` (counter advanced by a non-zero constant on that cycle) whose true edge leads to collect_global.
    Without it a coroutine that keeps yielding keeps the local queue non-empty for ever and what schedule_global sent to this worker -
    every freshly spawned coroutine - never runs (finding F20)."""
    S = "may::scheduler::Scheduler"; RQ = S + "::run_queued_tasks"
    f = ctx.fn(rule, RQ, "worker/every-run-cycle-polls-global")
    if f is None: return
    an = ctx.an
    RUN = an.sites(f, Call(r"may::coroutine_impl::run_coroutine", transitive=False), "must")
    CG = an.sites(f, Call(re.escape(S) + "::collect_global", transitive=False), "must")
    if not RUN:
        ctx.missing(rule, RQ, "worker/every-run-cycle-polls-global", "no run_coroutine in run_queued_tasks"); return
    def periodic(a):
        if not (a.kind == "cmp" and a.op == "Eq" and is_const(0)(a.b)): return False
        x = _sv(a.a)
        if not (x[0] == "bin" and x[1] == "Rem"): return False
        k = _sv(x[3])
        if not (k[0] == "const" and k[2] is not None and int(k[2]) >= 1): return False
        c = _sv(x[2])
        # the counter is advanced by a non-zero constant (x + c / wrapping_add(x, c)) of a value that goes round the loop
        if c[0] == "call" and (c[2] or "").endswith("wrapping_add"):
            st = simplify(trace_operand(f, f.term(c[1])["args"][1])); return st[0] == "const" and st[2] not in (None, 0, "0")
        if c[0] == "bin" and c[1] == "Add": return _sv(c[3])[0] == "const" and _sv(c[3])[2] not in (None, 0, "0")
        if c[0] == "phi": return any((y[0] == "call" and (y[2] or "").endswith("wrapping_add")) or (y[0] == "bin" and y[1] == "Add") for y in (_sv(z) for z in c[2]))
        return False
    polls = set(CG)
    decisions = []
    for (bi, tb, lab) in ctx.edges(f, periodic):
        # the true edge must lead to collect_global before the next run / return
        r = an.reach(f, [Point(tb, 0)], blocked=CG)
        if not any(x in r for x in list(RUN) + f.ret_points()):
            decisions.append(bi); polls.add(Point(bi, len(f.blocks[bi]["st"])))
    bad = []
    for rpt in sorted(RUN):
        r = an.reach(f, an.after(f, rpt), blocked=polls)
        if rpt in r: bad.append(rpt)           # a cycle through this run site that passes no polling point
    ctx.ob(rule, RQ, "worker/every-run-cycle-polls-global", not bad,
           "every cycle of run_queued_tasks that runs a coroutine passes collect_global or a periodic `counter %% K == 0` decision that leads to it (%d periodic decision(s), %d collect_global site(s))" % (len(decisions), len(CG)) if not bad else
           "run_queued_tasks can run coroutine after coroutine from the local queue without ever looking at the worker's global queue: a coroutine that keeps yielding keeps the local queue "
           "non-empty, so the coroutines that schedule_global sent to this worker (every fresh spawn) are never run", f.where(bad[0]) if bad else f.where(sorted(RUN)[0]))

def selector_serves_timeout_wakeups(ctx, rule="R-PAIR"):
    """F21: the io timeout handler resumes coroutines in place at the end of Selector::select; what they make ready lands in the worker's local
    queue and nobody wakes the worker for it - select runs the local queue after the timer list before it returns to epoll_wait"""
    SEL = "may::io::sys::select::Selector::select"
    f = ctx.prog.fn(SEL)
    if f is None: return
    ST = Call(r"may::timeout_list::TimeOutList::schedule_timer", transitive=False)
    if not ctx.an.sites(f, ST, "must"):
        return          # no io timers in this configuration
    ctx.must_follow(SEL, ST, Call(r"may::scheduler::Scheduler::run_queued_tasks", transitive=False), "select/local-queue-served-after-timers",
                    "after the io timer list was processed (its handler runs coroutines in place) the worker's local queue is run before select returns to sleep", rule=rule)


def mpsc_block_start_chain(ctx, rule="R-ENUM"):
    """(seed C05-7) every mpsc block knows the queue index of its first slot (`start`); push_index() = tail_block.start + id is what pop()
    compares with to tell `empty` from `a producer is mid-push`. The chain is start(first) = 0, start(second) = BLOCK_SIZE, and the
    producer of a block's last slot installs the block after the next one: start = claimed.start + 2 * BLOCK_SIZE."""
    MQ = "may_queue::mpsc"
    NB = Call(re.escape(MQ) + "::BlockNode::new_box", transitive=False)
    bs = None
    f = ctx.fn(rule, MQ + "::Queue::new", "mpsc/block-start/initial-chain")
    if f is not None:
        vals = []
        for pt in sorted(ctx.an.sites(f, NB, "must")):
            lf = linear_form(trace_operand(f, f.node(pt)["args"][0]))
            vals.append(lf.get("", 0) if set(lf) <= {""} else None)
        ok = len(vals) == 2 and vals[0] == 0 and vals[1] not in (None, 0)
        bs = vals[1] if ok else None
        ctx.ob(rule, MQ + "::Queue::new", "mpsc/block-start/initial-chain", ok, "Queue::new creates the first two blocks with start 0 and BLOCK_SIZE (%s)" % bs if ok else
               "Queue::new does not create its first two blocks with start 0 and BLOCK_SIZE (found %s)" % vals, f.where())
    g = ctx.fn(rule, MQ + "::Queue::push", "mpsc/block-start/next-next-is-plus-two-blocks")
    if g is not None and bs:
        sites = sorted(ctx.an.sites(g, NB, "must"))
        ok = bool(sites)
        got = None
        for pt in sites:
            lf = linear_form(trace_operand(g, g.node(pt)["args"][0]))
            atoms = {k: v for k, v in lf.items() if k != ""}
            got = lf
            ok &= lf.get("", 0) == 2 * bs and len(atoms) == 1 and list(atoms.values()) == [1] and ".start" in fmt_origin(_sv(trace_operand(g, g.node(pt)["args"][0])))
        ctx.ob(rule, MQ + "::Queue::push", "mpsc/block-start/next-next-is-plus-two-blocks", ok, "the block installed by the producer of a block's last slot starts at claimed.start + 2 * BLOCK_SIZE" if ok else
               "mpsc push creates the block after the next one with a start that is not `block.start + 2 * BLOCK_SIZE`: from then on push_index() mis-reports the number of claimed slots and pop() "
               "answers `empty` while a producer is between its claim and its write (Mutex::unlock then finds no waiter although cnt counted one)", g.where(sites[0]) if sites else g.where())

def event_loop_never_returns(ctx, rule="R-EXIT"):
    """(seed C01-8) a worker thread is EventLoop::run; it never returns, whatever select reports (EINTR is an ordinary result of epoll_wait):
    a worker that has left owns queues, an epoll instance and io timers that nobody serves any more"""
    EL = "may::io::event_loop::EventLoop::run"
    f = ctx.fn(rule, EL, "worker/event-loop-never-returns")
    if f is None: return
    r = ctx.an.reach(f, [Point(0, 0)])
    rets = [x for x in f.ret_points() if x in r]
    ctx.ob(rule, EL, "worker/event-loop-never-returns", not rets, "EventLoop::run has no reachable return: a worker serves its queues and its selector for ever" if not rets else
           "EventLoop::run can return: the worker thread ends and everything routed to it (its global queue, its epoll instance, its io timers) is never served again", f.where(rets[0]) if rets else f.where(),
           detail=ctx.an.fmt_path(f, ctx.an.path(f, [Point(0, 0)], rets)) if rets else None)
    ctx.must_call(EL, Call(r"may::io::sys::select::Selector::select", transitive=False), "worker/event-loop-selects", "the worker loop polls its selector") if False else None


def registered_sockets_are_nonblocking(ctx, rule="R-SIB"):
    """(seed C17-8) every fd that is registered with a selector is in non-blocking mode: a blocking syscall on it would sit in the kernel on the
    worker thread, which is also the selector of every fd with fd % workers == id - their coroutines stay suspended with data in the kernel.
    Sibling rule over all callers of add_socket: the registration is preceded by set_nonblocking(true) in the same function."""
    n = 0
    for gid, lst in sorted(ctx.callers_of(r"may::io::sys::add_socket").items()):
        g = lst[0][0]
        n += 1
        ctx.fns_touched.add(g.id)
        adds = set(pt for (_, pt, _) in lst)
        nbs = [pt for pt in g.points() if g.is_term(pt) and g.node(pt)["t"] == "call" and re.search(r"set_nonblocking$", callee_name(g.node(pt)) or "")]
        good = set(pt for pt in nbs if const_int(g, g.node(pt)["args"][-1]) == 1)
        r = ctx.an.reach(g, [Point(0, 0)], blocked=good)
        # set_nonblocking(true) before the registration, or after it on every path on which the function still returns
        def after_success(a):
            # where the function continues when this registration succeeded: the Ok edge(s) of its result if it is tested here
            es = ctx.edges(g, lambda at: at.kind == "variant" and at.name in ("Ok", "Continue") and root_of(simplify(at.origin))[0] == "call" and root_of(simplify(at.origin))[1] == a.bb)
            return [Point(tb, 0) for _, tb, _ in es] if es else ctx.an.after(g, a)
        bad = sorted(a for a in adds if a in r and any(x in ctx.an.reach(g, after_success(a), blocked=good) for x in g.ret_points()))
        ctx.ob(rule, gid, "registered-socket-is-nonblocking", not bad, "%s puts the socket into non-blocking mode on every path on which it registers it with the selector" % gid if not bad else
               "%s registers a socket with the selector without set_nonblocking(true) on the way: a later read/write on it blocks the worker thread in the kernel (and with it the selector that "
               "serves every fd of that worker)" % gid, g.where(bad[0]) if bad else g.where(sorted(adds)[0]))
    if n < 6:
        ctx.missing(rule, "may::io::sys::add_socket", "registered-socket-is-nonblocking", "expected >= 6 callers of add_socket, found %d" % n)


# ------------------------------------------------------------------------------------------------
# F23: a destructor of the library is not a cancellation point (C09, C12, C14)

def drops_do_not_block_unmasked(ctx, rule="R-EXIT"):
    """every `Drop::drop` of may that can reach a park (Blocker / SyncBlocker / FastBlocker park, Park::park_timeout) reaches it only behind
    CancelDisableGuard::new: a Cancel panic out of a destructor skips the rest of the release (RwLockReadGuard::drop left the lock read
    locked for ever - finding F23; the scoped join and the cqueue drain are masked for the same reason - F6)."""
    PARK = Call(r"may::sync::blocking::(SyncBlocker|Blocker|FastBlocker)::park|may::park::Park::park_timeout|may::yield_now::yield_now")
    def _guard_site(f, pt, t):
        nm = callee_name(t) or ""
        if nm == "may::cancel::CancelDisableGuard::new": return True
        # `(!thread::panicking()).then(CancelDisableGuard::new)`: masked whenever a Cancel panic could be raised at all (check_cancel never
        # panics while the thread is unwinding)
        if nm.endswith("bool::then") and len(t["args"]) == 2:
            c = simplify(trace_operand(f, t["args"][0])); g = simplify(trace_operand(f, t["args"][1]))
            return (g[0] == "fnitem" and g[1] == "may::cancel::CancelDisableGuard::new" and c[0] == "un" and c[1] == "Not"
                    and is_call_result(r"std::thread::panicking")(simplify(c[2])))
        return False
    GUARD = Call(r"may::cancel::CancelDisableGuard::new|core::bool::then|(std|core)::bool::.*then", transitive=False, where=_guard_site)
    an = ctx.an
    memo = {}
    # exception table (one field, one reason): a lock that cannot be contended where a destructor takes it, so its lock() never parks there
    #   Cqueue.selectors - locked only by the owner-side functions add_impl / check_panic / Drop::drop (checked below); the select coroutines
    #   never touch it, and in Drop the owner has `&mut self`
    uncontended = set()
    SEL = "may::cqueue::Cqueue.selectors"
    lockers = set(g.id.split("::{closure")[0] for g in ctx.prog.fns.values() for pt in g.points()
                  if g.is_term(pt) and g.node(pt)["t"] == "call" and (callee_name(g.node(pt)) or "").endswith("sync::mutex::Mutex::lock") and receiver_leaf(g, g.node(pt)) == SEL)
    if lockers and lockers <= {"may::cqueue::Cqueue::add_impl", "may::cqueue::Cqueue::check_panic", "<may::cqueue::Cqueue as std::ops::Drop>::drop"}:
        uncontended.add(SEL)
    def unmasked(g, depth=0):
        """a site in g (or below) that may park without a CancelDisableGuard in force -> (fn, point) or None"""
        if g.id in memo: return memo[g.id]
        memo[g.id] = None
        if depth > 6: return None
        guards = an.sites(g, GUARD, "must")
        # points not dominated by a guard creation - except through `thread::panicking()` is true: check_cancel never raises the Cancel panic
        # while the thread is unwinding, so `if panicking() { None } else { Some(guard) }` masks whenever there is something to mask
        blk_p, _ = ctx.edge_blocker(g, call_true(r"std::thread::panicking")) if guards else (None, None)
        pre = an.reach(g, [Point(0, 0)], blocked=guards, blocked_edges=blk_p)
        for pt in sorted(an.sites(g, PARK, "may")):
            if pt not in pre: continue
            t = g.node(pt)
            if t["t"] == "call" and (callee_name(t) or "").endswith("sync::mutex::Mutex::lock") and receiver_leaf(g, t) in uncontended:
                continue
            if direct_match(g, pt, Call(PARK.fn.pattern, transitive=False)):
                memo[g.id] = (g, pt); return memo[g.id]
            for h, cert in an.local_targets(g, pt):
                if an.may(h, PARK):
                    u = unmasked(h, depth + 1)
                    if u: memo[g.id] = u; return u
        return None
    n = 0
    for k, f in sorted(ctx.prog.fns.items()):
        if not (k.startswith("<may::") and k.endswith(" as std::ops::Drop>::drop")): continue
        if not an.may(f, PARK): continue
        n += 1
        ctx.fns_touched.add(k)
        u = unmasked(f)
        ctx.ob(rule, k, "drop-not-a-cancellation-point", u is None, "%s can block, but only with the cancel disabled" % k if u is None else
               "%s can park in %s without a CancelDisableGuard: for a coroutine with a pending cancel the park raises the Cancel panic out of the destructor and the rest of the release is skipped" %
               (k, u[0].id), u[0].where(u[1]) if u else f.where())
    if n < 3:
        ctx.missing(rule, "Drop impls of may", "drop-not-a-cancellation-point", "expected >= 3 Drop impls that can block (RwLockReadGuard, Scope, Cqueue), found %d" % n)


def variant_implied_by(ctx, f, a, pos_pred):
    """a: a variant atom on a local whose alternatives are field-less enum values (`let mode = if c { Mode::A } else { Mode::B }; ... match mode`).
    True when every assignment of that variant to the local lies behind an edge satisfying pos_pred, i.e. taking the variant's arm implies that such
    an edge was passed (the representation of a decision as a small enum instead of a bool)."""
    if a.kind != "variant": return False
    o = simplify(a.origin)
    if o[0] not in ("phi", "local"): return False
    l = o[1]
    defs = []
    for pt in f.points():
        if f.is_term(pt): continue
        n = f.node(pt)
        if n.get("s") == "=" and not n["l"]["p"] and n["l"]["l"] == l:
            rv = n["rv"]
            if rv["r"] == "agg" and rv.get("ak") == "adt" and not rv["ops"]:
                if rv.get("var") == a.name: defs.append(pt)
            elif rv["r"] == "use":
                src = simplify(trace_operand(f, rv["o"]))
                if src[0] == "agg" and src[2] == a.name and not (src[3] or ()): defs.append(pt)
                elif src[0] in ("phi", "local"):
                    return False          # copies of other locals: not handled, fail closed
    if not defs: return False
    blk, good = ctx.edge_blocker(f, pos_pred)
    if not good: return False
    r = ctx.an.reach(f, [Point(0, 0)], blocked_edges=blk)
    return not any(d in r for d in defs)


# ------------------------------------------------------------------------------------------------
# "the recorded deadline has passed" as an edge predicate, whichever way it is written

def deadline_passed_pred(ctx, f):
    """edge predicate: `now() >= d` / `d <= now()` directly, or the true edge of `opt.is_some_and(|d| now() >= d)` (also
    `map_or(false, ..)` / `is_some_and` with a named fn): the closure's result is that comparison."""
    NOW = r"may::timeout_list::now"
    def is_ge(o):
        o = simplify(o)
        return o[0] == "bin" and ((o[1] == "Ge" and is_call_result(NOW)(o[2])) or (o[1] == "Le" and is_call_result(NOW)(o[3])))
    good_sites = set()
    for pt in f.points():
        if not f.is_term(pt): continue
        t = f.node(pt)
        if t["t"] != "call" or not re.search(r"option::Option::(is_some_and|map_or|is_none_or)$", callee_name(t) or ""): continue
        if (callee_name(t) or "").endswith("is_none_or"): continue
        for cid in closure_args(f, t):
            c = ctx.prog.fn(norm(cid))
            if c is not None and is_ge(trace_local(c, 0)): good_sites.add(pt.bb)
    def pred(a):
        if a.kind == "cmp":
            return (a.op == "Ge" and is_call_result(NOW)(a.a)) or (a.op == "Le" and is_call_result(NOW)(a.b))
        if a.kind in ("truth", "call") and getattr(a, "truth", None) is True:
            o = simplify(a.origin)
            return o[0] == "call" and o[1] in good_sites
        return False
    return pred


# ------------------------------------------------------------------------------------------------
# F28: passing a permit / notification / lock on from an abandoned waiter must not recurse

def handoff_not_recursive(ctx, module, rule="R-NEVER"):
    """no function of `module` (a may::sync primitive) can reach itself through direct calls and the closures it hands to combinators.
    The release operations (post, notify_one, fire, unlock) skip a waiter that gave up (timeout / cancel) by redoing the operation; done by
    calling themselves, the depth of ONE release is the number of abandoned blockers at the head of the queue - every wait_timeout that
    expires leaves one, so it is unbounded, and a coroutine stack (32 KiB by default) overflows after a few hundred (finding F28)."""
    an = ctx.an
    fns = {k: g for k, g in ctx.prog.fns.items() if k.startswith(module + "::") or k.startswith("<" + module + "::")}
    succ = {}
    for k, g in fns.items():
        out = set()
        for pt in g.points():
            if not g.is_term(pt) or g.node(pt)["t"] not in ("call", "tailcall") or g.is_cleanup(pt.bb): continue
            for h, cert in an.local_targets(g, pt):
                if cert == "maybe" and "{closure" not in h.id: continue      # unresolved trait dispatch (Default::default, fmt): not a call of this module
                if h.id in fns: out.add(h.id)
        succ[k] = out
    def reaches_self(k):
        seen = set(); st = list(succ[k])
        while st:
            x = st.pop()
            if x == k: return True
            if x in seen: continue
            seen.add(x); st += list(succ.get(x, ()))
        return False
    n = 0
    for k in sorted(fns):
        if "{closure" in k: continue
        n += 1
        rec = reaches_self(k)
        if not rec and not any(w in k.rsplit("::", 1)[-1] for w in ("post", "notify", "fire", "unlock", "wake", "unpark", "release", "drop")):
            continue            # only the release side is reported one by one (the rest is covered by the count below)
        ctx.fns_touched.add(k)
        ctx.ob(rule, k, "handoff-not-recursive", not rec, "%s cannot reach itself: the work of one release is bounded by a loop, not by the stack" % k if not rec else
               "%s reaches itself (it skips a waiter that gave up by calling itself again): one release recurses once per abandoned blocker at the head of the queue; "
               "a few hundred timed out waits overflow the coroutine stack in the middle of the release" % k, fns[k].where())
    if n < 3:
        ctx.missing(rule, module, "handoff-not-recursive", "expected the functions of %s, found %d" % (module, n))


# ------------------------------------------------------------------------------------------------
# F29: the time slept until the next timer is relative to a clock sample taken after the expired timers' handlers ran

def _time_samples(f, o, out, depth=0, seen=None):
    """points of f at which the value o (in f) samples the clock: `now()` calls in its dataflow (through every call's arguments), and
    combinator calls whose closure calls now()"""
    if depth > 12: return
    seen = seen if seen is not None else set()
    o = simplify(o)
    if o in seen: return
    seen.add(o)
    k = o[0]
    if k == "call":
        t = f.term(o[1])
        if re.fullmatch(r"may::timeout_list::now|std::time::Instant::(now|elapsed)", o[2] or ""): out.add(Point(o[1], len(f.blocks[o[1]]["st"])))
        for cid in closure_args(f, t):
            c = f.prog.fn(norm(cid))
            if c is not None and any(c.is_term(q) and c.node(q)["t"] == "call" and re.fullmatch(r"may::timeout_list::now|std::time::Instant::(now|elapsed)", callee_name(c.node(q)) or "") for q in c.points()):
                out.add(Point(o[1], len(f.blocks[o[1]]["st"])))
        for a in t.get("args", ()): _time_samples(f, trace_operand(f, a), out, depth + 1, seen)
    elif k == "phi":
        for a in o[2]: _time_samples(f, a, out, depth + 1, seen)
    elif k == "agg":
        for a in (o[3] or ()): _time_samples(f, a, out, depth + 1, seen)
    elif k in ("field", "cast", "ref", "deref", "downcast", "discr", "clone"): _time_samples(f, o[1], out, depth + 1, seen)
    elif k == "un": _time_samples(f, o[2], out, depth + 1, seen)
    elif k == "bin":
        _time_samples(f, o[2], out, depth + 1, seen); _time_samples(f, o[3], out, depth + 1, seen)

def sleep_relative_to_fresh_clock(ctx, rule="R-ORDER"):
    """schedule_timer(now, handler) returns the time to the next timer relative to the `now` it was given - but it runs the handlers of the
    expired timers, which resume coroutines in place and can take arbitrarily long. Whoever sleeps on that value (the timer thread's
    park_timeout, the selector's wait through the value select() returns) must correct it by a clock sample taken AFTER everything
    that runs coroutines; otherwise a timer that came due meanwhile fires late by that run time."""
    an = ctx.an
    TL = "may::timeout_list"
    SCH = Call(re.escape(TL) + r"::TimeOutList::schedule_timer", transitive=False)
    RUN = Call(r"may::scheduler::Scheduler::run_queued_tasks", transitive=False)
    n = 0
    # the timer thread
    fid = TL + "::TimerThread::run"
    f = ctx.fn(rule, fid, "sleep/relative-to-fresh-clock")
    if f is not None:
        parks = an.sites(f, Call(r"std::thread::park_timeout", transitive=False), "must")
        if not parks: ctx.missing(rule, fid, "sleep/relative-to-fresh-clock", "no thread::park_timeout in TimerThread::run")
        sch = an.sites(f, SCH, "must")
        for pt in sorted(parks):
            n += 1
            smp = set(); _time_samples(f, trace_operand(f, f.node(pt)["args"][0]), smp)
            # fresh: the park is reached from the sample without running the handlers (schedule_timer) in between
            ok = any(pt in an.reach(f, an.after(f, q), blocked=sch) for q in smp)
            ctx.ob(rule, fid, "sleep/relative-to-fresh-clock", ok, "the timer thread parks for the time to the next timer minus what elapsed while the handlers ran" if ok else
                   "the timer thread parks for a time that is relative to the clock sample taken BEFORE the expired timers' handlers ran (they resume coroutines in place): "
                   "a timer that came due while they ran waits that whole stale time again", f.where(pt))
    # the selectors (io timers)
    for k, g in sorted(ctx.prog.fns.items()):
        if not re.fullmatch(r"may::io::sys::\w+::Selector::select", k): continue
        sch = an.sites(g, SCH, "must")
        if not sch: continue
        n += 1
        ctx.fns_touched.add(k)
        runs = set(x for x in an.sites(g, RUN, "must"))
        late_runs = set(r0 for r0 in runs if r0 in an.reach(g, [q for s0 in sch for q in an.after(g, s0)]))
        smp = set(); _time_samples(g, trace_local(g, 0), smp)
        rets = set(g.ret_points())
        ok = any(rets & an.reach(g, an.after(g, q), blocked=sch | runs) for q in smp)
        ctx.ob(rule, k, "sleep/relative-to-fresh-clock", ok, "select() returns the time to the next io timer corrected by a clock sample taken after the timeout handler (and the local queue) ran" if ok else
               "select() returns the time to the next io timer relative to the clock sample taken BEFORE the timeout handler%s ran: the event loop then sleeps that stale time, "
               "an io timeout that came due meanwhile fires late by the run time" % (" and the local queue" if late_runs else ""), g.where(sorted(sch)[0]))
    io_to = ctx.prog.fn("may::io::sys::timeout_handler") is not None       # without the io_timeout feature the selectors have no timer list
    if n < (2 if io_to else 1):
        ctx.missing(rule, TL, "sleep/relative-to-fresh-clock", "expected the timer thread%s, found %d instance(s)" % (" and a selector" if io_to else "", n))


# ------------------------------------------------------------------------------------------------
# F31: user code (a coroutine_local initialiser) never runs while the map of all keys is mutably borrowed

def local_init_runs_unborrowed(ctx, rule="R-ORDER"):
    LK = "may::local::LocalKey"
    an = ctx.an
    fns = {k: g for k, g in ctx.prog.fns.items() if k.startswith(LK + "::")}
    BM = Call(r"(std|core)::cell::RefCell::(borrow_mut|try_borrow_mut)", transitive=False)
    def live_mut_borrow(g, site):
        """is `site` inside the live range of a RefMut created in g?"""
        for b in an.sites(g, BM, "must"):
            drops = set(pt for pt in g.points() if g.is_term(pt) and g.node(pt)["t"] == "drop" and "RefMut" in (g.node(pt).get("ty") or ""))
            if site in an.reach(g, an.after(g, b), blocked=drops): return b
        return None
    def parents(cid):
        out = []
        for k, g in fns.items():
            for pt in g.points():
                if g.is_term(pt) and g.node(pt)["t"] == "call" and any(norm(c) == cid for c in closure_args(g, g.node(pt))): out.append((g, pt))
        return out
    inits = []
    for k, g in sorted(fns.items()):
        for pt in g.points():
            if not g.is_term(pt): continue
            t = g.node(pt)
            if t["t"] == "call" and callee_name(t) is None and "f" in t and leaf_field(simplify(trace_operand(g, t["f"]))) == LK + ".__init":
                inits.append((g, pt))
    if not inits:
        ctx.missing(rule, LK + "::with", "local/init-runs-unborrowed", "the call of LocalKey.__init was not found"); return
    for g, pt in inits:
        bad = None; cur = [(g, pt)]; depth = 0
        while cur and bad is None and depth < 4:
            nxt = []
            for h, q in cur:
                b = live_mut_borrow(h, q)
                if b is not None: bad = (h, b); break
                if "{closure" in h.id: nxt += parents(h.id)
            cur = nxt; depth += 1
        ctx.fns_touched.add(g.id)
        ctx.ob(rule, LK + "::with", "local/init-runs-unborrowed", bad is None, "the initialiser of a coroutine local runs while the map of the keys is not borrowed" if bad is None else
               "the initialiser of a coroutine local runs while the map that holds every key is mutably borrowed (%s): an initialiser that reads another coroutine local panics with "
               "`RefCell already borrowed` - the coroutine dies on first use of the key" % bad[0].where(bad[1]), g.where(pt))


# ------------------------------------------------------------------------------------------------
# F32: a worker goes back to its selector after a bounded number of coroutine runs

def worker_run_budget_rules(ctx, rule="R-EXIT"):
    """every cycle of run_queued_tasks that runs a coroutine passes a budget decision `counter >= K` (counter advanced by a non-zero constant on
    the cycle) whose true edge leaves the function without running anything else, after posting the worker's own wakeup event (otherwise the
    selector would sleep on a non-empty local queue). Without it a coroutine that keeps yielding keeps the local queue non-empty for ever, select()
    is never called again on that worker and the coroutines blocked in io there are never resumed although their data arrived (finding F32)."""
    S = "may::scheduler::Scheduler"; RQ = S + "::run_queued_tasks"
    f = ctx.fn(rule, RQ, "worker/run-budget")
    if f is None: return
    an = ctx.an
    RUN = an.sites(f, Call(r"may::coroutine_impl::run_coroutine", transitive=False), "must")
    WK = an.sites(f, Call(r"may::io::sys::\w+::Selector::wakeup"), "may")
    if not RUN:
        ctx.missing(rule, RQ, "worker/run-budget", "no run_coroutine in run_queued_tasks"); return
    def advancing(c):
        c = _sv(c)
        if c[0] == "call" and (c[2] or "").endswith("wrapping_add"):
            st = simplify(trace_operand(f, f.term(c[1])["args"][1])); return st[0] == "const" and st[2] not in (None, 0, "0")
        if c[0] == "bin" and c[1] == "Add": return _sv(c[3])[0] == "const" and _sv(c[3])[2] not in (None, 0, "0")
        if c[0] == "field" and c[2] == "(tuple)": return advancing(c[1])
        if c[0] == "bin" and c[1] == "AddWithOverflow": return _sv(c[3])[0] == "const" and _sv(c[3])[2] not in (None, 0, "0")
        if c[0] == "phi":
            # one constant alternative is the initialisation; a second one is a reset inside the loop (seed C01-10: the counter shared with the
            # periodic global poll is set back to 0 there and never reaches the budget)
            if sum(1 for z in c[2] if _sv(z)[0] == "const") > 1: return False
            return any(advancing(z) for z in c[2] if _sv(z)[0] != "const")
        return False
    def const_expr(o, d=0):
        o = _sv(o)
        if d > 6: return False
        if o[0] == "const": return True
        if o[0] == "bin": return const_expr(o[2], d + 1) and const_expr(o[3], d + 1)       # `K - 1`, `A * 8`
        if o[0] == "field" and o[2] == "(tuple)": return const_expr(o[1], d + 1)            # checked arithmetic
        if o[0] == "cast": return const_expr(o[1], d + 1)
        return False
    def budget(a):
        if a.kind != "cmp": return False
        if a.op in ("Ge", "Gt", "Eq") and const_expr(a.b) and advancing(a.a): return True
        if a.op in ("Le", "Lt", "Eq") and const_expr(a.a) and advancing(a.b): return True
        return False
    exits = set(); nowake = []
    for (bi, tb, lab) in ctx.edges(f, budget):
        r = an.reach(f, [Point(tb, 0)], blocked=RUN)
        if not any(x in r for x in RUN) and any(x in r for x in f.ret_points()) and not any(x in an.reach(f, [Point(tb, 0)]) for x in RUN):
            exits.add(Point(bi, len(f.blocks[bi]["st"])))
            r2 = an.reach(f, [Point(tb, 0)], blocked=WK)
            if any(x in r2 for x in f.ret_points()): nowake.append(bi)
    bad = [rpt for rpt in sorted(RUN) if rpt in an.reach(f, an.after(f, rpt), blocked=exits)]
    ctx.ob(rule, RQ, "worker/run-budget", not bad,
           "every cycle of run_queued_tasks that runs a coroutine passes a `counter >= K` decision that leaves the function (%d decision(s))" % len(exits) if not bad else
           "run_queued_tasks can run coroutine after coroutine without ever returning to the selector: a coroutine that keeps yielding keeps the local queue non-empty, "
           "select() is never called again on this worker and coroutines blocked in io there are never resumed", f.where(bad[0]) if bad else f.where(sorted(RUN)[0]))
    ctx.ob(rule, RQ, "worker/run-budget-exit-posts-wakeup", bool(exits) and not nowake,
           "leaving with work still queued posts the worker's own wakeup event, so the next select returns at once" if exits and not nowake else
           "run_queued_tasks can leave on its budget without posting the worker's wakeup event: the selector then sleeps although the local queue is not empty", f.where())


# ------------------------------------------------------------------------------------------------
# F34: the wait is registered in the coroutine's cancel data BEFORE the coroutine is published

def cancel_registered_before_publish(ctx, only=None, rule="R-ORDER"):
    """every subscriber that registers its wait with the coroutine's Cancel (set_co / set_io) does so while it still owns the coroutine, i.e.
    before the call that publishes it (wait_co.store(co) / EventData::store_co(co) / the add_timer that hands it to the timer thread). Once
    published the coroutine can be resumed elsewhere, finish (the Cancel lives in its handle: use after free) or block on something else and
    register there - the late registration then overwrites the newer one with a stale slot and a later cancel() wakes nobody (finding F34)."""
    an = ctx.an
    REG = Call(r"may::cancel::CancelImpl::(set_co|set_io)", transitive=False)
    n = 0
    for k, g in sorted(ctx.prog.fns.items()):
        if not k.startswith(("may::", "<may::")) or "{closure" in k: continue
        if only and not re.search(only, k): continue
        regs = an.sites(g, REG, "must")
        if not regs: continue
        pubs = an.sites(g, Call(r"may::sync::atomic_option::AtomicOption::store|may::io::sys::EventData::store_co", transitive=False), "must")
        if not pubs: pubs = an.sites(g, Call(r"may::scheduler::Scheduler::add_timer", transitive=False), "must")
        if not pubs: continue
        n += 1
        ctx.fns_touched.add(k)
        after = an.reach(g, [q for p0 in pubs for q in an.after(g, p0)])
        late = sorted(r0 for r0 in regs if r0 in after)
        ctx.ob(rule, k, "cancel/registered-before-publish", not late, "%s registers the wait with the coroutine's Cancel before it publishes the coroutine" % k if not late else
               "%s publishes the coroutine first and registers it with the coroutine's Cancel afterwards: a subscriber stalled in between touches the Cancel of a coroutine that already runs "
               "elsewhere (freed with its handle if it finished; overwriting its newer registration if it blocked again, so that cancel() wakes nobody)" % k, g.where(late[0]) if late else g.where(sorted(regs)[0]))
    return n


def recheck_takes_own_slot(ctx, f):
    """the subscriber's cancel re-check delivers the cancel itself: behind `is_canceled()` it takes the coroutine out of the slot it published
    (instead of going through cancel.cancel(), which needs the registration to be in place). With that form the registration may - and
    per finding F34 should - precede the publication."""
    C = "may::cancel::CancelImpl"
    blk_true = ctx.edges(f, call_true(re.escape(C) + "::is_canceled"))
    takes = ctx.an.sites(f, Call(AO + "take", transitive=False), "must")
    if not blk_true or not takes: return False
    r = ctx.an.reach(f, [Point(tb, 0) for _, tb, _ in blk_true])
    return any(t in r for t in takes) and not ctx.an.sites(f, Call(re.escape(C) + "::cancel", transitive=False), "must")


# ------------------------------------------------------------------------------------------------
# F35: a plain `thread::park()` is only ever a hint - it is always re-armed by a loop on a condition

def thread_park_in_loop(ctx, rule="R-EXIT"):
    """std::thread::park() returns at once when an unpark token is left over from anybody (may's own primitives leave them) and may wake
    spuriously; every un-timed thread::park() of may therefore sits on a cycle of its function - a loop that re-reads what it waits for.
    A single park followed by `the event has happened` runs ahead of the event (finding F35: socket io from a plain thread)."""
    an = ctx.an
    n = 0
    for k, g in sorted(ctx.prog.fns.items()):
        if not k.startswith(("may::", "<may::")): continue
        for pt in sorted(an.sites(g, Call(r"std::thread::park", transitive=False), "must")):
            n += 1
            ctx.fns_touched.add(k)
            in_loop = pt in an.reach(g, an.after(g, pt))
            # the cycle must contain a decision that reads shared state (an atomic access / a queue pop / a take): not `loop { park() }`
            cond = False
            if in_loop:
                cyc = [q for q in an.reach(g, an.after(g, pt), blocked={pt}) if pt in an.reach(g, [q])]
                for q in cyc:
                    if g.is_term(q) and g.node(q)["t"] == "call" and re.search(r"atomic::Atomic\w*::(load|swap|compare_exchange\w*|fetch_\w+)|::pop$|::take$|::try_recv$|::schedule_timer$|::is_empty$", callee_name(g.node(q)) or ""):
                        cond = True; break
            if not in_loop and "{closure" not in k:
                # the loop may be one level up: every caller calls this function on a cycle of its own and the function itself re-reads the
                # condition after the park (spsc: InnerQueue::recv parks once and tries again, Receiver::recv loops while it reports Empty)
                cs = [(h, q) for h, q in ctx.prog.callers().get(k, ()) if not h.is_cleanup(q.bb)]
                reread = any(g.is_term(q) and g.node(q)["t"] == "call" and re.search(r"::try_recv$|::pop$|atomic::Atomic\\w*::(load|swap)", callee_name(g.node(q)) or "") for q in an.reach(g, an.after(g, pt)))
                if cs and reread and all(q in an.reach(h, an.after(h, q)) for h, q in cs):
                    in_loop = cond = True
            ctx.ob(rule, k.split("::{closure")[0], "thread-park/in-a-loop-on-a-condition", in_loop and cond,
                   "thread::park() in %s is re-armed by a loop that re-reads what it waits for" % k if in_loop and cond else
                   "%s parks the thread once and then goes on as if the awaited event had happened: a left-over unpark token (may's own spsc / ThreadPark leave them) or a spurious "
                   "wake-up makes it run ahead of the event" % k, g.where(pt))
    if n < 3:
        ctx.missing(rule, "may", "thread-park/in-a-loop-on-a-condition", "expected >= 3 thread::park() sites (timer thread, spsc thread receiver, thread io), found %d" % n)


# ------------------------------------------------------------------------------------------------
# F36/F37: a destructor that blocks is never the landing pad of user code

def no_blocking_landing_pad(ctx, only=None, rule="R-EXIT"):
    """In may's own functions, a call of a user-supplied closure (an unresolved Fn*/FnOnce call on a type parameter) must not have, on its
    unwind path, the drop of a value whose Drop can park (Scope, Cqueue): the owner would block in the middle of its own unwinding. std's
    panic count is thread local - while the coroutine is parked there the worker thread's count stays raised, `thread::panicking()` is true for
    every other coroutine that worker runs (check_cancel then swallows their Cancel panic: the cancelled select arms spin for ever, F36) and,
    resumed on another thread, the owner sees `panicking() == false` and re-throws a child's panic inside the destructor (abort, F37).
    The repaired shape runs the closure under catch_unwind, runs the blocking destructor in normal context and then resumes the unwinding."""
    an = ctx.an
    PARK = Call(r"may::sync::blocking::(SyncBlocker|Blocker|FastBlocker)::park|may::park::Park::park_timeout|may::yield_now::yield_now")
    blocking_drop = {}
    for k, g in ctx.prog.fns.items():
        m = re.fullmatch(r"<(may::[\w:]+) as std::ops::Drop>::drop", k)
        if m and an.may(g, PARK): blocking_drop[m.group(1)] = g
    n = 0; seen_types = set()
    for k, g in sorted(ctx.prog.fns.items()):
        if not k.startswith(("may::", "<may::")): continue
        if only and not re.search(only, k): continue
        for pt in g.points():
            if not g.is_term(pt) or g.is_cleanup(pt.bb): continue
            t = g.node(pt)
            if t["t"] != "call" or not isinstance(t.get("uw"), int): continue
            p_, r_ = callee(t)
            if r_ is not None or not p_ or not re.fullmatch(r"std::ops::(FnOnce::call_once|FnMut::call_mut|Fn::call)", p_): continue
            # cleanup blocks reachable from the unwind target
            stack = [t["uw"]]; vis = set(); drops = []
            while stack:
                b = stack.pop()
                if b in vis: continue
                vis.add(b)
                tm = g.term(b)
                if tm["t"] == "drop":
                    a = adt_of_type(tm.get("ty") or "")
                    if a in blocking_drop: drops.append((b, a))
                for x in (tm.get("ok"), tm.get("uw")):
                    if isinstance(x, int): stack.append(x)
                if tm["t"] == "sw": stack += [b2 for _, b2 in tm["tg"]] + ([tm["else"]] if isinstance(tm.get("else"), int) else [])
            n += 1
            if not drops: continue
            for b, a in drops[:1]:
                seen_types.add(a)
                ctx.fns_touched.add(k)
                ctx.ob(rule, k, "no-blocking-landing-pad:" + a.rsplit("::", 1)[-1], False,
                       "%s calls the user's closure with a `%s` alive whose destructor blocks (it waits for the scope's coroutines): when the closure unwinds (a panic, or the Cancel of the owner) "
                       "the owner parks in the middle of its own unwinding, the worker thread's panic count stays raised: cancelled select arms never see their Cancel panic (hang), a "
                       "migrated owner re-throws a child's panic inside the destructor (abort)" % (k, a), g.where(pt))
    # positive instances: the scope functions themselves
    for fid, a in (("may::scoped::scope", "may::scoped::Scope"), ("may::cqueue::scope", "may::cqueue::Cqueue")):
        if only and not re.search(only, fid): continue
        g = ctx.fn(rule, fid, "no-blocking-landing-pad:" + a.rsplit("::", 1)[-1])
        if g is None: continue
        inst = "no-blocking-landing-pad:" + a.rsplit("::", 1)[-1]
        if a not in blocking_drop:
            # the destructor runs boxed closures the analysis cannot resolve (Scope's deferred joins): decide on the shape of the scope function itself
            bodies = user_body_sites(ctx, g)
            ok = bool(bodies) and all(c for _, c in bodies)
            ctx.ob(rule, fid, inst, ok, "%s runs the user's closure under catch_unwind: its unwinding never reaches the destructor of %s" % (fid, a) if ok else
                   "%s runs the user's closure outside catch_unwind with a `%s` alive: when the closure unwinds, the joins of the scope run as a landing pad and the owner blocks in the "
                   "middle of its own unwinding (thread-local panic count raised on the worker; a migrated owner re-throws a child's panic inside the destructor)" % (fid, a), g.where())
            continue
        if not any(o.item == fid and o.inst == inst and o.status != "discharged" for o in ctx.obs):
            ctx.ob(rule, fid, inst, True, "%s runs the user's closure where its unwinding cannot reach the blocking destructor of %s" % (fid, a), g.where())
    return n


def user_body_sites(ctx, f):
    """where scope-like function f runs the user's closure: [(point in f, under_catch_unwind)] - the unresolved FnOnce call itself, or the
    std::panic::catch_unwind call whose closure performs it"""
    out = []
    for pt in f.points():
        if not f.is_term(pt) or f.is_cleanup(pt.bb): continue
        t = f.node(pt)
        if t["t"] != "call": continue
        p_, r_ = callee(t)
        if r_ is None and p_ and re.fullmatch(r"std::ops::(FnOnce::call_once|FnMut::call_mut|Fn::call)", p_):
            out.append((pt, False))
        elif (callee_name(t) or "") == "std::panic::catch_unwind":
            for cid in closure_args(f, t):
                c = ctx.prog.fn(norm(cid))
                if c is not None and any(c.is_term(q) and c.node(q)["t"] == "call" and callee(c.node(q))[1] is None and re.fullmatch(r"std::ops::(FnOnce::call_once|FnMut::call_mut|Fn::call)", callee(c.node(q))[0] or "") for q in c.points()):
                    out.append((pt, True))
    return out


# ------------------------------------------------------------------------------------------------
# thread-context io: request, then wait for the proxy's done flag (F35; mutation sweep 5)

def thread_io_rules(ctx, rule="R-EXIT"):
    YW = "may::yield_now::yield_with_io"
    f = ctx.fn(rule, YW, "thread-io/request-then-wait")
    if f is None: return
    an = ctx.an
    is_co = lambda a: a.kind == "truth" and a.truth is True and root_of(simplify(a.origin))[0] == "arg"
    not_co = lambda a: a.kind == "truth" and a.truth is False and root_of(simplify(a.origin))[0] == "arg"
    # `likely(is_coroutine)`: the test is on the result of the hint call
    is_co2 = lambda a: is_co(a) or (a.kind == "call" and a.truth is True and (a.name or "").endswith("likely"))
    not_co2 = lambda a: not_co(a) or (a.kind == "call" and a.truth is False and (a.name or "").endswith("likely"))
    ctx.must_follow(YW, None, Call(r"may::yield_now::yield_with|generator::(\w+::)*co_yield_with"), "thread-io/coroutine-suspends", "in coroutine context yield_with_io suspends the coroutine on the io source",
                    rule="R-FWD", edge=is_co2, edge_label="edge `is_coroutine` is true")
    SEND = Call(r"std::sync::mpsc::Sender::send|may::sync::mpsc::Sender::send")
    WAIT = Call(r"may::io::thread::wait_proxy_co|std::thread::park")
    ctx.must_follow(YW, None, SEND, "thread-io/request-sent", "in thread context the request goes to the thread's proxy coroutine", rule="R-FWD", edge=not_co2, edge_label="edge `is_coroutine` is false")
    ctx.must_follow(YW, None, WAIT, "thread-io/waits-for-proxy", "... and the thread waits until the proxy is done with it (the EventSource lives on this frame)", rule="R-FWD", edge=not_co2, edge_label="edge `is_coroutine` is false")
    ctx.order(YW, SEND, WAIT, "thread-io/request-then-wait", "the request is sent before the thread waits", rule="R-ORDER")
    # the wait loop: leaves only on `done.swap(false) == true`
    for k, g in sorted(ctx.prog.fns.items()):
        if not k.startswith("may::io::thread::wait_proxy_co"): continue
        parks = an.sites(g, Call(r"std::thread::park", transitive=False), "must")
        if not parks: continue
        SW = Call(r"std::sync::atomic::Atomic\w*::(swap|load|compare_exchange)", transitive=False)
        sws = an.sites(g, SW, "must")
        ctx.fns_touched.add(k)
        ctx.guarded(k, Ev("ret"), call_true(r"std::sync::atomic::Atomic\w*::(swap|load)"), "thread-io/leaves-only-when-done", "the thread leaves the wait only after it saw the proxy's done flag set",
                    rule=rule, pred_label="edge `done.swap(false)` is true")
        okc = any(callee_name(g.node(q)).endswith("swap") and const_int(g, g.node(q)["args"][1]) == 0 for q in sws) if sws else False
        ctx.ob(rule, k, "thread-io/done-flag-consumed", okc, "the done flag is consumed (swap(false)) for the next request" if okc else
               "the wait does not reset the done flag with swap(false): the next request returns at once, before the proxy served it", g.where(sorted(sws)[0]) if sws else g.where())
    # the proxy: flag before unpark
    done_store = None
    for k, g in sorted(ctx.prog.fns.items()):
        if not k.startswith("may::io::thread::") or "{closure" not in k: continue
        ups = an.sites(g, Call(r"std::thread::Thread::unpark", transitive=False), "must")
        if not ups: continue
        done_store = k
        ctx.fns_touched.add(k)
        ST = Call(r"std::sync::atomic::Atomic\w*::store", transitive=False)
        ctx.order(k, ST, Call(r"std::thread::Thread::unpark", transitive=False), "thread-io/proxy-sets-done-then-unparks", "the proxy sets the done flag before it unparks the thread", rule="R-ORDER")
        okv = any(const_int(g, g.node(q)["args"][1]) == 1 for q in an.sites(g, ST, "must"))
        ctx.ob("R-ORDER", k, "thread-io/proxy-stores-true", okv, "the proxy stores `true`" if okv else "the proxy does not store `true` into the done flag: the thread never leaves its wait", g.where())
    if done_store is None:
        ctx.missing("R-ORDER", "may::io::thread", "thread-io/proxy-sets-done-then-unparks", "the proxy coroutine's unpark of the master thread was not found")


# ------------------------------------------------------------------------------------------------
# F38: the timeout of a blocked io operation runs from the first time it blocked

def io_timer_runs_from_first_block(ctx, rule="R-NUM"):
    """An io operation blocks again after every event that does not complete it (fds are registered for read AND write events: a reader is woken
    by write-space edges raised by a writer on a clone of the socket); each time its subscriber arms the io timer again. The interval armed must
    be what is LEFT of the operation's timeout - derived from a deadline fixed when the operation first blocked (a clock sample in its dataflow) -
    not the full configured timeout, or the timeout never fires as long as such events keep coming (finding F38)."""
    an = ctx.an
    for k, g in sorted(ctx.prog.fns.items()):
        if not re.fullmatch(r"may::io::sys::\w+::Selector::add_io_timer", k): continue
        ctx.fns_touched.add(k)
        arms = an.sites(g, Call(r"may::timeout_list::TimeOutList::add_timer", transitive=False), "must")
        if not arms:
            ctx.missing(rule, k, "io-timer/runs-from-first-block", "no TimeOutList::add_timer call in %s" % k); continue
        bad = []
        for pt in sorted(arms):
            o = simplify(trace_operand(g, g.node(pt)["args"][1]))
            smp = set(); _time_samples(g, o, smp)
            plain_param = root_of(o)[0] == "arg" and not smp
            if not plain_param: continue
            # the interval is the caller's value unchanged: do the callers pass what is left, or their configured timeout?
            full = []
            for h, q in sorted(ctx.prog.callers().get(k, ()), key=lambda x: (x[0].id, x[1])):
                a = simplify(trace_operand(h, h.node(q)["args"][2])) if len(h.node(q)["args"]) > 2 else None
                if a is None: continue
                s2 = set(); _time_samples(h, a, s2)
                if not s2: full.append(h.id)
            if full: bad.append((pt, full))
        ctx.ob(rule, k, "io-timer/runs-from-first-block", not bad,
               "the io timer is armed with what is left of the operation's timeout" if not bad else
               "%s arms the io timer with the caller's value unchanged and %d subscribers pass their full configured timeout each time they block (e.g. %s): an operation that is woken by "
               "events which do not complete it (write-space edges for a reader) re-arms the full timeout on every wake-up and never times out while they keep coming" %
               (k, len(bad[0][1]), bad[0][1][0].split(" as ")[0].lstrip("<").rsplit("::", 1)[-1]), g.where(bad[0][0]) if bad else g.where(sorted(arms)[0]))
