"""C15 — coroutine-local storage is private; a fresh coroutine starts clean (structural clauses)."""
from lib import *
from props import shared
from props.shared import *

EXPLANATION = ("R-PAIR every spawn attaches a fresh CoroutineLocal, Cancel and Park (nothing pooled), local::with uses the coroutine's "
               "map iff in coroutine context; R-PAIR the passed-in result (which generator::init_code does not reset, so it survives "
               "pool reuse) is consumed after every suspension point: for every caller of yield_with/yield_with_io/co_yield_with "
               "either the function consumes it on every path to its return, or the event source's yield_back consumes it, or the "
               "source is in the never-injected table; check_cancel consumes whenever the cancel bit is set")
EXPLANATION_2 = ('stack-reuse rules imported from C13 (fresh CoroutineLocal per spawn, freed at destruction); a coroutine_local initialiser runs while the key map is not borrowed (F31)')
NOT_DECIDED = "values observed across migration (runtime); exactly-once drop of local values"
CONFIGS_QUICK = ["default"]
CONFIGS_THOROUGH = ["default", "nosteal", "bare"]

NEVER_INJECTED = {
    "may::yield_now::Yield": "re-queued by subscribe itself; no resumer injects a result",
    "may::sync::spsc::Park": "woken only by send/drop_chan through unpark, which inject nothing; not registered with timer or cancel",
}
CONSUMERS = Call(r"may::yield_now::get_co_para|may::io::sys::co_io_result|generator::(\w+::)*co_get_yield", transitive=True)
ES = "may::coroutine_impl::EventSource"

def check(ctx):
    SI = "may::coroutine_impl::Builder::spawn_impl"
    ctx.must_call(SI, Call(r"may::local::CoroutineLocal::new", transitive=False), "fresh-local", "every spawn creates a fresh CoroutineLocal (pool and non-pool path)")
    ctx.must_call(SI, Call(r"generator::gen_impl::Generator(Obj|Impl)::set_local_data", transitive=False), "fresh-local-attached", "and attaches it to the stack")
    ctx.order(SI, Call(r"may::coroutine_impl::Coroutine::new", transitive=False), Call(r"may::local::CoroutineLocal::new", transitive=False), "fresh-handle",
              "the local storage is built around a freshly created Coroutine handle")
    CN = "may::coroutine_impl::Coroutine::new"
    ctx.must_call(CN, Call(r"may::cancel::CancelImpl::new"), "fresh-cancel", "every coroutine gets a fresh Cancel (no pending cancel is inherited)")
    ctx.must_call(CN, Call(r"may::park::Park::new"), "fresh-park", "every coroutine gets a fresh Park (no stale token / timeout)")
    f = ctx.fn("R-PAIR", "may::cancel::CancelImpl::new", "cancel-starts-clear")
    if f is not None:
        ok = False
        for pt in f.points():
            if f.is_term(pt) and f.node(pt)["t"] == "call" and (callee_name(f.node(pt)) or "").endswith("Atomic::new"):
                ok = const_int(f, f.node(pt)["args"][0]) == 0
        ctx.ob("R-PAIR", "may::cancel::CancelImpl::new", "cancel-starts-clear", ok, "a fresh Cancel starts with state 0" if ok else "CancelImpl::new no longer initialises state to 0", f.where())
    # local::with
    W = "may::local::with"
    ctx.guarded(W, Call(r"std::thread::LocalKey::with", transitive=False), variant_of_call(r"may::local::get_co_local_data", "None"), "thread-map-only-in-thread",
                "the per-thread map is used only outside coroutines", pred_label="edge `get_co_local_data()` is None")
    ctx.guarded(W, Call(r"std::ops::FnOnce::call_once", transitive=False), variant_of_call(r"may::local::get_co_local_data", "Some"), "co-map-in-coroutine",
                "inside a coroutine the coroutine's own map is used", pred_label="edge `get_co_local_data()` is Some")
    f = ctx.fn("R-PAIR", W, "co-map-is-own-local-data")
    if f is not None:
        ok = False
        for pt in ctx.an.sites(f, Call(r"std::ops::FnOnce::call_once", transitive=False), "must"):
            t = f.node(pt)
            for a in t["args"]:
                if "may::local::CoroutineLocal.local_data" in all_fields(simplify(trace_operand(f, a))): ok = True
                o = simplify(trace_operand(f, a))
                if o[0] == "agg":
                    for x in o[3]:
                        if "may::local::CoroutineLocal.local_data" in all_fields(simplify(x)): ok = True
        ctx.ob("R-PAIR", W, "co-map-is-own-local-data", ok, "the map handed to the closure is the current coroutine's CoroutineLocal.local_data" if ok else
               "local::with no longer passes the current coroutine's local_data map", f.where())
    # ---- passed-in result consumption
    ysites = []
    YW = re.compile(r"may::yield_now::yield_with(_io)?|generator::(\w+::)*co_yield_with")
    for f in ctx.prog.fns.values():
        if f.id in ("may::yield_now::yield_with", "may::yield_now::yield_with_io"): continue
        for pt in f.points():
            if not f.is_term(pt): continue
            t = f.node(pt)
            if t["t"] != "call": continue
            nm = callee_name(t) or ""
            if YW.fullmatch(nm):
                ga = callee_generic_args(t)
                ysites.append((f, pt, nm, norm(ga[0]) if ga else None))
    n_checked = 0
    for f, pt, nm, ty in sorted(ysites, key=lambda x: (x[0].id, x[1])):
        ctx.fns_touched.add(f.id)
        tyn = adt_of_type(ty) if ty else None
        inst = "consume-after:%s" % (tyn or nm).rsplit("::", 1)[-1]
        n_checked += 1
        if tyn in NEVER_INJECTED:
            ctx.ob("R-PAIR", f.id, inst, True, "resumers of %s never inject a result: %s" % (tyn, NEVER_INJECTED[tyn]), f.where(pt), nontrivial=False); continue
        # does the source's own yield_back consume unconditionally?
        yb = None
        for im in ctx.prog.impls_of(ES):
            if norm(im.get("self_adt") or "") == tyn:
                for m in im["methods"]:
                    if m["n"] == "yield_back": yb = ctx.prog.fn(norm(m["id"]))
        if yb is not None and ctx.an.must(yb, Call(r"may::yield_now::get_co_para", transitive=False)):
            ctx.ob("R-PAIR", f.id, inst, True, "%s::yield_back consumes the passed-in result unconditionally" % tyn, f.where(pt)); continue
        cons = ctx.an.sites(f, CONSUMERS, "must")
        # idiom: the front-end delegates to `<source>::done()`, whose every path consumes except the
        # already-connected early return (taken only when nothing was yielded): accept such a done() call
        for q in f.points():
            if f.is_term(q) and f.node(q)["t"] == "call":
                dn = callee_name(f.node(q)) or ""
                g = ctx.prog.fns.get(dn)
                if g is not None and dn.endswith("::done") and tyn and dn.startswith(tyn + "::"):
                    gc = ctx.an.sites(g, CONSUMERS, "must")
                    # the early return is decided by a test of one of the source's own plain fields that done() never writes (its value
                    # predates the suspension: `is_connected`, set by the first connect attempt). One side of that test may skip the
                    # consumption, the other side must consume on every path.
                    written = set()
                    for wq in g.points():
                        if not g.is_term(wq) and g.node(wq).get("s") == "=":
                            pj = g.node(wq)["l"]["p"]
                            if pj and isinstance(pj[-1], dict) and "f" in pj[-1]: written.add(leaf_field(simplify(trace_place(g, g.node(wq)["l"]))))
                    def own_field(a):
                        for o in (getattr(a, "origin", None), getattr(a, "a", None), getattr(a, "b", None)):
                            if not isinstance(o, tuple): continue
                            lf = leaf_field(simplify(o))
                            if lf and lf.startswith(tyn + ".") and lf not in written and root_of(simplify(o))[0] == "arg": return True
                        return False
                    skip = set(); consuming = 0
                    for sb, tb, lab in ctx.edges(g, own_field):
                        if any(x in ctx.an.reach(g, [Point(tb, 0)], blocked=gc) for x in g.ret_points()): skip.add((sb, tb))
                        else: consuming += 1
                    blk = (lambda p, q2, lab, skip=skip, g=g: g.is_term(p) and (p.bb, q2.bb) in skip) if consuming else None
                    rr = ctx.an.reach(g, [Point(0, 0)], blocked=gc, blocked_edges=blk)
                    if gc and not any(x in rr for x in g.ret_points()):
                        cons = cons | {q}
        r = ctx.an.reach(f, ctx.an.after(f, pt), blocked=cons)
        bad = [x for x in f.ret_points() if x in r]
        ctx.ob("R-PAIR", f.id, inst, not bad,
               "after the suspension point every path to the return of %s consumes the passed-in result" % f.id if not bad else
               "%s can return after a suspension without consuming the passed-in result (TimedOut/Canceled injected by a resumer or by yield_with's cancelled "
               "short-circuit): it survives stack reuse and is seen by the next coroutine's first park/io" % f.id, f.where(pt),
               detail=ctx.an.fmt_path(f, ctx.an.path(f, ctx.an.after(f, pt), bad, blocked=cons)) if bad else None)
    if n_checked < 15:
        ctx.missing("R-PAIR", "suspension points", "consume-after", "expected ≥15 suspension call sites, found %d" % n_checked)
    # check_cancel consumes whenever the bit is set (also while already unwinding)
    CK = "may::cancel::CancelImpl::check_cancel"
    ctx.must_follow(CK, None, Call(r"may::yield_now::get_co_para", transitive=False), "check-cancel-always-consumes",
                    "check_cancel consumes the injected Canceled result whenever the cancel bit is set, also when it must not panic (already unwinding)",
                    edge=lambda a: a.kind == "cmp" and a.op == "Eq" and is_call_result(A("load"))(a.a) and is_const(1)(a.b), edge_label="edge `state.load() == 1`")
    # the default yield_back goes through check_cancel
    ctx.must_call(ES + "::yield_back", Call(re.escape("may::cancel::CancelImpl::check_cancel")), "default-yield-back-consumes", "the default yield_back consumes through check_cancel")
    # park's yield_back: both settings lead to consumption in park_timeout (checked above); Park::yield_back calls check_cancel only when check_cancel flag is set
    # pool: put/get do not touch the stack's contents; init_code is the only re-initialisation
    ctx.must_follow(SI, Call(r"may::pool::CoroutinePool::get", transitive=False), Call(r"generator::gen_impl::Generator(Obj|Impl)::init_code", transitive=False),
                    "pooled-stack-reinitialised", "a pooled stack is re-initialised with the new closure")
    # dependency: the CoroutineLocal is created fresh by every spawn and freed when the coroutine is destroyed (rules owned by C13's stack-reuse clause)
    ctx.import_rules("C13", r"^(local-freed|fresh-local|fresh-local-attached|pooled-stack-reinitialised|recycle-only-default-size|pooled-stack-only-for-default-size|own-stack-for-other-sizes)$")
    ctx.import_rules("C01", r"^recycle-only-when-finished$|^trigger-before-recycle$|^no-silent-drop:GeneratorObj$")
    shared.local_init_runs_unborrowed(ctx)
