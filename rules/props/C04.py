"""C04 — the work-stealing run queue hands every task to exactly one taker (structural clauses)."""
from lib import *
from props import shared
from props.shared import *

EXPLANATION = ("R-ORDER write-before-publish in spmc push; R-EXIT a taker reads a slot only behind its successful head CAS and behind "
               "an observation that the slot is published; R-PAIR every successful claim ends in exactly one mark_slots_read (or the "
               "restore-head path) and a block is freed only by the taker that read its last slot; no task is dropped on a normal "
               "path of push/pop/steal_into; R-MO floors; R-WHO owner confinement of the Local side (shared with C01)")
EXPLANATION_2 = ('spmc packed head word (new head is pack(block,id+1) or head|lock exactly at the block end; lock released on every path; plain store only under the lock; advance to block.next only behind pop_index < push_index; bulk_pop: next iff the copied range ends the block); strict publication (`<` for a slot, `<=` only for an exclusive range end); local_pop gives up an unpublished claim by tail.index+1; push links a new block iff the next index is aligned')
NOT_DECIDED = "exactly-once under concurrent stealers; the over-claim/restore protocol; ABA after a block is freed and re-allocated; `used` accounting values"
CONFIGS_QUICK = ["default"]
CONFIGS_THOROUGH = ["default", "rand"]

Q = "may_queue::spmc"
PTRW = r"(std|core)::ptr::(mut_ptr::)?write"

def is_push_index(o, depth=0):
    if depth > 4: return False
    while o[0] == "cast": o = o[1]
    if o[0] == "call":
        return bool(re.fullmatch(A("load") + r"|may_queue::atomic::AtomicUsize::unsync_load", o[2] or ""))
    if o[0] == "phi":
        return any(is_push_index(simplify(a), depth + 1) for a in o[2])
    return False

def published(a):
    """edge establishing pop_index < push_index (or end <= tail.index)"""
    if a.kind != "cmp": return False
    if a.op in ("Lt", "Le") and is_push_index(a.b): return True
    if a.op in ("Gt", "Ge") and is_push_index(a.a): return True
    return False

def published_strict(range_ends=()):
    """a slot index i is published iff i < push_index (strict); the exclusive END of a range iff end <= push_index.
    range_ends: origins that are range ends (bulk_pop's copy_to_bulk end argument and its phi alternatives)"""
    def p(a):
        if a.kind != "cmp": return False
        if a.op == "Lt" and is_push_index(a.b): return True
        if a.op == "Gt" and is_push_index(a.a): return True
        if a.op == "Le" and is_push_index(a.b) and simplify(a.a) in range_ends: return True
        if a.op == "Ge" and is_push_index(a.a) and simplify(a.b) in range_ends: return True
        return False
    return p

# "account n slots as read": the helper BlockNode::mark_slots_read, or its one primitive performed directly (`used.fetch_sub(n) == n`)
MARK_PRIM = Call(A("fetch_sub"), on=Q + "::BlockNode.used", transitive=False)
MARK = AnyEv(Call(re.escape(Q) + "::BlockNode::mark_slots_read", transitive=False), MARK_PRIM, transitive=False)

def is_const_any(o):
    while o[0] == "cast": o = o[1]
    return o[0] == "const" and o[2] is not None
def const_val(o):
    while o[0] == "cast": o = o[1]
    return int(o[2])

def last_reader_edge(a):
    """edge on which the taker learned that it read the last used slot of the block"""
    if call_true(re.escape(Q) + "::BlockNode::mark_slots_read")(a): return True
    if a.kind == "cmp" and a.op == "Eq":
        return any(is_call_result(A("fetch_sub"))(x) for x in (a.a, a.b))
    return False

# ------------------------------------------------------------------------------------------------
# the head word of the spmc queue: (block pointer | slot id), bit 63 = "head transition in progress" lock

def _strip(o):
    o = simplify(o)
    while o[0] == "cast" or (o[0] == "field" and o[2] == "(tuple)" and simplify(o[1])[0] == "bin" and "WithOverflow" in simplify(o[1])[1]):
        o = simplify(o[1])
    return o

_CUR_F = [None]
def _unpack_field(o, idx):
    return shared._w_unpack_field(o, idx, "spmc::BlockPtr::unpack", _CUR_F[0])

def _is_lock_bit(o):
    o = _strip(o)
    if o[0] == "const" and o[2] is not None:
        try: return int(o[2]) == 1 << 63
        except (TypeError, ValueError): return False
    return o[0] == "bin" and o[1] == "Shl" and is_const(1)(simplify(o[2])) and is_const(63)(simplify(o[3]))

def _locks(o):
    """value is `x | (1 << 63)`"""
    o = _strip(o)
    return o[0] == "bin" and o[1] == "BitOr" and (_is_lock_bit(o[2]) or _is_lock_bit(o[3]))

def spmc_head_protocol(ctx):
    cas = A("compare_exchange(_weak)?")
    HEAD = Q + "::BlockPtr.0"
    PACK = Call(re.escape(Q) + "::BlockPtr::pack", transitive=False)
    for fn in ("pop", "local_pop", "bulk_pop"):
        fid = Q + "::Queue::" + fn
        f = ctx.fn("R-ENUM", fid, fn + "/head-protocol")
        if f is None: continue
        _CUR_F[0] = f
        an = ctx.an
        cs = sorted(an.sites(f, Call(cas, on=HEAD, transitive=False), "must"))
        stores = sorted(an.sites(f, Call(A("store"), on=HEAD, transitive=False), "must"))
        ok_edges = ctx.edges(f, variant_of_call(cas, "Ok"))
        if len(cs) != 1 or not stores or not ok_edges:
            ctx.missing("R-ENUM", fid, fn + "/head-protocol", "head CAS sites=%d head stores=%d CAS-Ok edges=%d" % (len(cs), len(stores), len(ok_edges))); continue
        newv = simplify(trace_operand(f, f.node(cs[0])["args"][2]))
        alts = [simplify(a) for a in newv[2]] if newv[0] == "phi" else [newv]
        lock_alts = [a for a in alts if _locks(a)]
        psites = shared.packed_word_sites(f)
        pack_alts = [a for a in alts if not _locks(a) and shared.is_packed_value(f, a, psites)]
        shape = len(alts) == 2 and len(lock_alts) == 1 and len(pack_alts) == 1
        ctx.ob("R-ENUM", fid, fn + "/new-head-is-pack-or-lock", shape, "the value %s CASes into head is either pack(block, next id) or the old head with the transition-lock bit" % fn if shape else
               "%s CASes %s into head (expected: pack(..) on the in-block path, head | 1<<63 on the block-end path)" % (fn, fmt_origin(newv)[:200]), f.where(cs[0]))
        if not shape: continue
        # which edge decides lock vs pack: the definition points of the two alternatives
        pre = an.reach(f, [Point(0, 0)], blocked=set(cs))
        pre_pk = [(p0, a0, a1) for (p0, a0, a1) in psites if p0 in pre]
        pre_packs = [p0 for p0, _, _ in pre_pk]
        if fn in ("pop", "local_pop"):
            last = lambda a: cmp_matches(a, "Eq", lambda o: _unpack_field(o, 1), lambda o: _strip(o)[0] == "const" and "BLOCK_MASK" in (_strip(o)[1] or "") or is_const(31)(o))
            notlast = lambda a: cmp_matches(a, "Ne", lambda o: _unpack_field(o, 1), lambda o: _strip(o)[0] == "const")
            why_lock = "id == BLOCK_MASK"
        else:
            # bulk_pop: new_id == 0  (new_id = 0 when the block is not the tail block, else push_id)
            last = lambda a: a.kind == "cmp" and a.op == "Eq" and is_const(0)(a.b) and not _unpack_field(a.a, 1)
            notlast = lambda a: a.kind == "cmp" and a.op == "Ne" and is_const(0)(a.b) and not _unpack_field(a.a, 1)
            why_lock = "new_id == 0"
        # (1) commit arithmetic of the in-block path
        if fn in ("pop", "local_pop"):
            okp = False
            for p0, x0, x1 in pre_pk:
                for a0, a1 in ((x0, x1), (x1, x0)):
                    b = _strip(a1)
                    if (_unpack_field(a0, 0) or "BlockPtr::unpack" in fmt_origin(a0)) and b[0] == "bin" and b[1].startswith("Add") and _unpack_field(b[2], 1) and is_const(1)(simplify(b[3])): okp = True
            ctx.ob("R-ENUM", fid, fn + "/claim-advances-by-one", okp, "the in-block claim CASes head to pack(block, id + 1) of the (block, id) it unpacked: the next taker starts at the next slot" if okp else
                   "%s does not CAS head to pack(block, id + 1): the slot it reads is claimed again by the next taker (a task handed out twice) or a slot is skipped (a task never handed out)" % fn,
                   f.where(pre_packs[0]) if pre_packs else f.where())
        # (2) the lock bit is taken exactly on the block-end path
        if pre_packs:
            ctx.guarded(fid, lambda g: pre_packs, notlast, fn + "/pack-only-inside-block", "the plain pack(..) head is used only when the claim stays inside the block (%s is false)" % why_lock,
                        rule="R-ENUM", pred_label="edge `%s` is false" % why_lock)
        lock_defs = [pt for pt in f.points() if not f.is_term(pt) and f.node(pt).get("s") == "=" and pt in pre and _locks(trace_rvalue(f, f.node(pt)["rv"], 0, pt))]
        if not lock_defs:
            ctx.missing("R-ENUM", fid, fn + "/lock-only-at-block-end", "no `head | (1 << 63)` assignment before the CAS")
        else:
            ctx.guarded(fid, lambda g: lock_defs, last, fn + "/lock-only-at-block-end", "the transition lock is requested only on the block-end path (%s)" % why_lock,
                        rule="R-ENUM", pred_label="edge `%s` is true" % why_lock)
        # (3) lock / unlock pairing after a successful claim
        post = [Point(tb, 0) for _, tb, _ in ok_edges]
        post_reach = an.reach(f, post)
        post_last = [(bi, tb, lab) for (bi, tb, lab) in ctx.edges(f, last) if Point(bi, 0) in post_reach]
        post_stores = [x for x in stores if x in post_reach]
        if not post_last or not post_stores:
            ctx.missing("R-PAIR", fid, fn + "/lock-released", "post-claim `%s` edges=%d head stores=%d" % (why_lock, len(post_last), len(post_stores)))
        else:
            starts = [Point(tb, 0) for _, tb, _ in post_last]
            r = an.reach(f, starts, blocked=set(post_stores))
            bad = [x for x in f.ret_points() if x in r]
            ctx.ob("R-PAIR", fid, fn + "/lock-released", not bad, "a claim that took the transition lock always stores a new (unlocked) head before it returns" if not bad else
                   "%s can return from the block-end path without storing head: the lock bit stays set, every later CAS (which expects an unlocked head) fails - the queue never hands out a task again" % fn,
                   f.where(post_stores[0]), detail=an.fmt_path(f, an.path(f, starts, bad, blocked=set(post_stores))) if bad else None)
            blk, good = ctx.edge_blocker(f, last)
            good_post = set(e for e in good if Point(e[0], 0) in post_reach)
            blk2 = lambda p, q, lab: f.is_term(p) and (p.bb, q.bb) in good_post
            r2 = an.reach(f, post, blocked_edges=blk2)
            bad2 = [x for x in post_stores if x in r2]
            ctx.ob("R-PAIR", fid, fn + "/store-only-under-lock", not bad2, "head is overwritten with a plain store only by the taker that holds the transition lock" if not bad2 else
                   "%s stores to head on a path that did not take the transition lock (%s false): concurrent takers' claims are overwritten - tasks handed out twice or lost" % (fn, why_lock),
                   f.where(bad2[0]) if bad2 else f.where(post_stores[0]))
        # (0) a claim is attempted only when the head slot looks published: another block than the tail block, or id < push id
        PEQ = r"(std|core)::ptr::(eq|const_ptr::eq|mut_ptr::eq)"
        def looks_published(a):
            if call_false(PEQ)(a): return True
            return a.kind == "cmp" and ((a.op == "Lt" and _unpack_field(a.a, 1)) or (a.op == "Gt" and _unpack_field(a.b, 1)))
        ctx.guarded(fid, lambda g: cs, looks_published, fn + "/claim-only-if-head-slot-published",
                    "%s attempts its head CAS only when the head is in another block than the tail block or its slot id is below the published push id (a claim beyond the tail "
                    "is what only a stale stealer produces; the owner's skip path asserts it)" % fn, rule="R-EXIT", invalidate=Call(cas, on=HEAD, transitive=False),
                    pred_label="edge `block != tail_block` / `id < push_id`")
        # (4) what is stored: the old head only when nothing was there (restore), `next` only when the block is used up
        nxt = [x for x in post_stores if is_call_result(A("load"), Q + "::BlockNode.next", f)(simplify(trace_operand(f, f.node(x)["args"][1])))]
        if not nxt:
            ctx.missing("R-EXIT", fid, fn + "/advance-to-next-only-if-published", "no `head.store(block.next.load())`")
        else:
            strict = lambda a: (a.kind == "cmp" and ((a.op == "Lt" and is_push_index(a.b)) or (a.op == "Gt" and is_push_index(a.a))))
            ctx.guarded(fid, lambda g: nxt, strict, fn + "/advance-to-next-only-if-published",
                        "head moves on to block.next only after the last slot of the block was seen published (pop_index < push_index): before that `next` may still be null", rule="R-EXIT",
                        pred_label="edge `pop_index < push_index`")
    # local_pop: a claimed slot that turns out to be unpublished (a stealer's stale claim was honoured first) is given up by moving
    # the producer's own tail.index past it - otherwise the next push writes a task into a slot that head has already passed
    fid = Q + "::Queue::local_pop"
    f = ctx.prog.fn(fid)
    if f is not None:
        an = ctx.an
        ok_edges = ctx.edges(f, variant_of_call(cas, "Ok"))
        post_reach = an.reach(f, [Point(tb, 0) for _, tb, _ in ok_edges])
        unpub = lambda a: a.kind == "cmp" and ((a.op == "Ge" and is_push_index(a.b)) or (a.op == "Le" and is_push_index(a.a)))
        es = [(bi, tb, lab) for (bi, tb, lab) in ctx.edges(f, unpub) if Point(bi, 0) in post_reach]
        TS = Call(A("store"), on=Q + "::Position.index", on_any=Q + "::Queue.tail", transitive=False)
        give_up = an.sites(f, TS, "must") | an.sites(f, Call(A("store"), on=HEAD, transitive=False), "must")
        if not es or not an.sites(f, TS, "must"):
            ctx.missing("R-PAIR", fid, "local_pop/unpublished-claim-given-up", "post-claim `pop_index >= push_index` edges=%d tail.index stores=%d" % (len(es), len(an.sites(f, TS, "must"))))
        else:
            starts = [Point(tb, 0) for _, tb, _ in es]
            r = an.reach(f, starts, blocked=give_up)
            bad = [x for x in f.ret_points() if x in r]
            ctx.ob("R-PAIR", fid, "local_pop/unpublished-claim-given-up", not bad, "a claim of an unpublished slot is always given up: head restored (block-end path) or tail.index moved past the slot" if not bad else
                   "local_pop can return after claiming an unpublished slot without restoring head or advancing tail.index: the next push stores a task in a slot that head already passed - it is never handed out",
                   f.where(sorted(an.sites(f, TS, "must"))[0]))
            okv = True
            for pt in sorted(an.sites(f, TS, "must")):
                v = _strip(trace_operand(f, f.node(pt)["args"][1]))
                okv &= v[0] == "bin" and v[1].startswith("Add") and is_push_index(simplify(v[2])) and is_const(1)(simplify(v[3]))
            ctx.ob("R-ENUM", fid, "local_pop/skip-moves-tail-by-one", okv, "the given-up slot is skipped by exactly one: tail.index = push_index + 1" if okv else
                   "local_pop does not store push_index + 1 into tail.index when it gives up a claimed slot", f.where(sorted(an.sites(f, TS, "must"))[0]))
    # bulk_pop: after the locked claim the head is advanced to `next` iff the copied range ends at the block end
    fid = Q + "::Queue::bulk_pop"
    f = ctx.prog.fn(fid)
    if f is not None:
        an = ctx.an
        cs = an.sites(f, Call(cas, on=HEAD, transitive=False), "must")
        post = an.reach(f, [q for c in cs for q in an.after(f, c)])
        stores = [x for x in sorted(an.sites(f, Call(A("store"), on=HEAD, transitive=False), "must")) if x in post]
        nxt = [x for x in stores if is_call_result(A("load"), Q + "::BlockNode.next", f)(simplify(trace_operand(f, f.node(x)["args"][1])))]
        psites = shared.packed_word_sites(f)
        pk = [x for x in stores if shared.is_packed_value(f, trace_operand(f, f.node(x)["args"][1]), psites)]
        ends = [simplify(trace_operand(f, f.node(pt)["args"][2])) for pt in sorted(an.sites(f, Call(re.escape(Q) + "::BlockNode::copy_to_bulk", transitive=False), "must"))]
        end_alts = set()
        for e in ends:
            end_alts |= set(simplify(a) for a in e[2]) if e[0] == "phi" else {e}
            end_alts.add(e)
        def masked_end(o):
            o = _strip(o)
            return o[0] == "bin" and o[1] == "BitAnd" and any(_strip(x) in end_alts or simplify(x) in end_alts for x in (o[2], o[3]))
        aligned = lambda a: cmp_matches(a, "Eq", masked_end, is_const(0))
        unaligned = lambda a: cmp_matches(a, "Ne", masked_end, is_const(0))
        if not nxt or not pk or not ctx.edges(f, aligned):
            ctx.missing("R-ENUM", fid, "bulk_pop/next-iff-range-ends-block", "head.store(next)=%d head.store(pack)=%d `(end & BLOCK_MASK) == 0` edges=%d" % (len(nxt), len(pk), len(ctx.edges(f, aligned))))
        else:
            ctx.guarded(fid, lambda g: nxt, aligned, "bulk_pop/next-iff-range-ends-block", "after a locked claim head moves to the next block only when the copied range ends at the block end",
                        rule="R-ENUM", pred_label="edge `(end & BLOCK_MASK) == 0`")
            ctx.guarded(fid, lambda g: pk, unaligned, "bulk_pop/same-block-iff-range-ends-inside", "after a locked claim head stays in the block (pack(block, end id)) only when the range ends inside it",
                        rule="R-ENUM", pred_label="edge `(end & BLOCK_MASK) != 0`")
            def idx_part(x):
                v = shared._sv(trace_operand(f, f.node(x)["args"][1]))
                if v[0] == "call": return [simplify(trace_operand(f, a)) for a in f.term(v[1])["args"][:2]]
                return [simplify(v[2]), simplify(v[3])]
            okp = all(any(masked_end(y) for y in idx_part(x)) for x in pk)
            ctx.ob("R-ENUM", fid, "bulk_pop/same-block-head-is-range-end", okp, "the in-block head stored after a locked claim is pack(block, end & BLOCK_MASK): the next taker starts where the copied range ended" if okp else
                   "bulk_pop stores a head that is not the end of the range it copied", f.where(pk[0]))
    # push: a new block is linked exactly when the next index is block-aligned, and then both links are written
    f = ctx.fn("R-ENUM", Q + "::Queue::push", "push/new-block-iff-aligned")
    if f is not None:
        an = ctx.an
        NEWB = Call(re.escape(Q) + "::BlockNode::new", transitive=False)
        def masked_next(o):
            o = _strip(o)
            return o[0] == "bin" and o[1] == "BitAnd"
        aligned = lambda a: cmp_matches(a, "Eq", masked_next, is_const(0))
        if not an.sites(f, NEWB, "must") or not ctx.edges(f, aligned):
            ctx.missing("R-ENUM", f.id, "push/new-block-iff-aligned", "BlockNode::new sites=%d `(new_index & BLOCK_MASK) == 0` edges=%d" % (len(an.sites(f, NEWB, "must")), len(ctx.edges(f, aligned))))
        else:
            ctx.guarded(f.id, NEWB, aligned, "push/new-block-iff-aligned", "push allocates a block only when the next index starts a new block", rule="R-ENUM", pred_label="edge `(new_index & BLOCK_MASK) == 0`")
            ctx.must_follow(f.id, None, atomic("store", Q + "::BlockNode.next", transitive=False), "push/aligned-links-next", "when the next index starts a new block the old block's `next` is set (takers follow it)",
                            rule="R-ENUM", edge=aligned, edge_label="edge `(new_index & BLOCK_MASK) == 0`")
            ctx.must_follow(f.id, None, Call(A("store"), on=Q + "::Position.block", on_any=Q + "::Queue.tail", transitive=False), "push/aligned-moves-tail-block",
                            "when the next index starts a new block the producer's tail.block moves to it (the next push writes into the new block)", rule="R-ENUM", edge=aligned, edge_label="edge `(new_index & BLOCK_MASK) == 0`")

def check(ctx):
    cas = A("compare_exchange(_weak)?")
    PUSH = Q + "::Queue::push"
    TIDX = dict(on=Q + "::Position.index", on_any=Q + "::Queue.tail")
    tis = Call(A("store"), **TIDX, label="tail.index.store", transitive=False)
    ctx.order(PUSH, Call(re.escape(Q) + "::BlockNode::set"), tis, "write-then-publish", "the slot is written before tail.index publishes it to the stealers")
    ctx.must_call(Q + "::BlockNode::set", Call(PTRW, on=Q + "::Slot.value"), "set-writes-slot", "set() writes the slot payload")
    f = ctx.fn("R-ORDER", PUSH, "link-then-publish")
    if f is not None:
        ns = ctx.an.sites(f, atomic("store", Q + "::BlockNode.next"), "may") | ctx.an.sites(f, Call(A("store"), on=Q + "::Position.block", on_any=Q + "::Queue.tail"), "may")
        pub = ctx.an.sites(f, tis, "must")
        if not ns or not pub:
            ctx.missing("R-ORDER", PUSH, "link-then-publish", "next/tail.block stores (%d), tail.index.store (%d)" % (len(ns), len(pub)))
        else:
            r = ctx.an.reach(f, [q for s in pub for q in ctx.an.after(f, s)])
            bad = [s for s in ns if s in r]
            ctx.ob("R-ORDER", PUSH, "link-then-publish", not bad, "a new block is linked before tail.index publishes the index that makes takers follow it" if not bad else
                   "spmc push links the new block after publishing tail.index", f.where((bad or sorted(ns))[0]))
    ctx.must_call(PUSH, tis, "always-publish", "every push publishes its index")
    ctx.mo_floor(Q + "::Position.index", ("store",), "REL", "tail-index-store", "publishes the slot to other threads", only_in=re.escape(PUSH))
    ctx.mo_floor(Q + "::BlockNode.next", ("store",), "REL", "next-store", "publishes the new block", only_in=re.escape(PUSH))
    # takers
    for fn in ("pop", "local_pop", "bulk_pop"):
        fid = Q + "::Queue::" + fn
        f = ctx.fn("R-EXIT", fid, fn + "/read-behind-claim")
        if f is None: continue
        rd = Call(re.escape(Q) + "::BlockNode::(get|copy_to_bulk)", transitive=False)
        ctx.guarded(fid, rd, variant_of_call(cas, "Ok"), fn + "/read-behind-claim", "%s reads a slot only after its CAS on head claimed it" % fn, pred_label="edge `head.compare_exchange_weak` is Ok")
        # (seed C04-6) every field of the block is read behind the claim as well: `start` looks immutable, but a freed block can be
        # re-allocated at the same address with another `start` while a taker is stalled between its loads and its CAS (ABA); a
        # `pop_index` computed before the CAS describes the previous life of the block
        ctx.guarded(fid, Call(A("load"), on=Q + "::BlockNode.start", transitive=False), variant_of_call(cas, "Ok"), fn + "/start-read-behind-claim",
                    "%s reads block.start only after its CAS on head claimed the slots" % fn, pred_label="edge `head.compare_exchange_weak` is Ok")
        rng = set()
        for pt in ctx.an.sites(f, Call(re.escape(Q) + "::BlockNode::copy_to_bulk", transitive=False), "must"):
            e = simplify(trace_operand(f, f.node(pt)["args"][2])); rng.add(e)
            if e[0] == "phi": rng |= set(simplify(x) for x in e[2])
        ctx.guarded(fid, rd, published_strict(rng), fn + "/read-behind-publish", "%s reads a slot only behind an observation that it is published (slot index < tail.index; exclusive range end <= tail.index)" % fn,
                    pred_label="edge `pop_index < push_index` / wait-loop exit")
        # pairing
        mark = MARK
        marks = ctx.an.sites(f, mark, "must")
        es = ctx.edges(f, variant_of_call(cas, "Ok"))
        restore = ctx.an.sites(f, Call(A("store"), on=Q + "::BlockPtr.0", transitive=False), "must")
        if not marks or not es:
            ctx.missing("R-PAIR", fid, fn + "/claim-accounted", "mark_slots_read (%d) / CAS-Ok edges (%d)" % (len(marks), len(es)))
        else:
            # from a successful claim every path to return passes mark_slots_read, or restores the old head
            empties = set(pt for pt in f.points() if direct_match(f, pt, Agg(r"(std|core)::option::Option", "None", transitive=False)) or
                          direct_match(f, pt, Call(r"smallvec::SmallVec::new", transitive=False)))
            starts = [Point(tb, 0) for _, tb, _ in es]
            r = ctx.an.reach(f, starts, blocked=marks | restore)
            bad = [x for x in f.ret_points() if x in r]
            ctx.ob("R-PAIR", fid, fn + "/claim-accounted", not bad,
                   "every successful claim is followed by mark_slots_read (slots accounted, so the block can be freed exactly when its last slot was read) or by restoring the head" if not bad else
                   "%s can return after a successful claim without mark_slots_read / restoring the head: the block's `used` count never reaches 0 (leak) or a slot is lost" % fn,
                   f.where(sorted(marks)[0]), detail=ctx.an.fmt_path(f, ctx.an.path(f, starts, bad, blocked=marks | restore)) if bad else None)
            # a value-returning path (one that read a slot) always marks
            rds = ctx.an.sites(f, rd, "must")
            r2 = ctx.an.reach(f, [q for s in rds for q in ctx.an.after(f, s)], blocked=marks)
            bad2 = [x for x in f.ret_points() if x in r2]
            ctx.ob("R-PAIR", fid, fn + "/read-then-mark", not bad2, "a slot that was read is always accounted with mark_slots_read" if not bad2 else
                   "%s can read slots and return without mark_slots_read" % fn, f.where(sorted(rds)[0] if rds else None))
            # at most one mark per path
            r3 = ctx.an.reach(f, [q for s in marks for q in ctx.an.after(f, s)], blocked_edges=ctx.edge_blocker(f, variant_of_call(cas, "Err"))[0])
            dbl = [s for s in marks if s in r3]
            ctx.ob("R-PAIR", fid, fn + "/mark-once", not dbl, "slots are accounted once per claim" if not dbl else "%s can account the same claim twice (block freed early: use-after-free)" % fn, f.where(sorted(marks)[0]))
        ctx.guarded(fid, Call(r"(std|alloc)::boxed::Box::from_raw", transitive=False), last_reader_edge, fn + "/free-only-last-reader",
                    "a block is freed only by the taker whose mark_slots_read saw the last used slot", pred_label="edge `mark_slots_read()` is true")
        ctx.mo_floor(Q + "::BlockPtr.0", ("compare_exchange", "compare_exchange_weak"), "ACQREL", fn + "/head-cas", "claims are ordered; the next block pointer is handed between takers", only_in=re.escape(fid))
        ctx.mo_floor(Q + "::BlockPtr.0", ("store",), "REL", fn + "/head-store", "next head published to other takers", only_in=re.escape(fid), min_sites=1)
    # (seed C04-3) bit 63 of `head` is the "last slot of this block is being taken, head transition in progress" lock. A taker
    # strips the bit from the value it EXPECTS in its CAS, so the CAS cannot succeed while the transition is in progress; a CAS
    # that expects the raw, possibly locked value claims slot 63 a second time
    for fn in ("pop", "local_pop", "bulk_pop"):
        fid = Q + "::Queue::" + fn
        f = ctx.fn("R-EXIT", fid, fn + "/cas-expects-unlocked-head")
        if f is None: continue
        cs = sorted(ctx.an.sites(f, Call(cas, on=Q + "::BlockPtr.0", transitive=False), "must"))
        if not cs:
            ctx.missing("R-EXIT", fid, fn + "/cas-expects-unlocked-head", "no CAS on head"); continue
        def masked(o, depth=0):
            o = simplify(o)
            while o[0] == "cast": o = simplify(o[1])
            return o[0] == "bin" and o[1] == "BitAnd" and any(x[0] == "un" and x[1] == "Not" for x in (simplify(o[2]), simplify(o[3])))
        bad = None
        for c in cs:
            op = f.node(c)["args"][1]
            pl = op.get("m") or op.get("c")
            if pl is None or pl["p"]: bad = (c, "the expected operand is not a plain local"); break
            l = pl["l"]
            while True:     # follow single-def copies to the variable that carries `head` around the loop
                ds = [d for d in f.defs().get(l, []) if not f.is_cleanup(d[0].bb)]
                if len(ds) == 1 and ds[0][1] == "assign" and ds[0][2]["r"] == "use":
                    o2 = ds[0][2]["o"]; p2 = o2.get("m") or o2.get("c")
                    if p2 is not None and not p2["p"]: l = p2["l"]; continue
                break
            good = set(); other = []
            for pt, kind, payload in ds:
                o = trace_call(f, pt, payload, 0) if kind == "call" else trace_rvalue(f, payload, 0, pt)
                (good.add(pt) if kind == "assign" and masked(o) else other.append(pt))
            if not good:
                bad = (c, "no definition of the expected value strips bit 63"); break
            r = ctx.an.reach(f, [q for s in other for q in ctx.an.after(f, s)], blocked=good)
            if c in r:
                bad = (c, "a definition of the expected value at %s reaches the CAS without the `& !(1 << 63)` strip" % f.where([s for s in other][0])); break
        ctx.ob("R-EXIT", fid, fn + "/cas-expects-unlocked-head", bad is None,
               "the head CAS of %s always expects a value with the transition-lock bit (63) stripped" % fn if bad is None else
               "%s: %s - the CAS can succeed while another taker holds the head transition lock: slot 63 of the block is claimed twice" % (fid, bad[1]),
               f.where(cs[0]))
    for fn in ("pop", "bulk_pop"):
        fid = Q + "::Queue::" + fn
        f = ctx.prog.fn(fid)
        if f is None: continue
        for pt in sorted(ctx.an.sites(f, Call(A("load"), **TIDX, transitive=False), "must")):
            o = ordering_of(f, f.node(pt)["args"][1])
            good = satisfies(o or "Relaxed", "ACQ")
            ctx.ob("R-MO", Q + "::Position.index", "%s/tail-index-load@L" % fn, good, "tail.index.load(%s) in %s %s floor ACQ (a stealer reads the slot it guards)" % (o, fid, "meets" if good else "is BELOW"), f.where(pt))
    # (seed C04-1) a retry after a lost CAS re-reads BOTH shadows of the tail (index and block): the decision "this is the tail
    # block" made with a stale block pointer lets a stealer claim a whole, partly filled block
    for fn in ("pop", "bulk_pop"):
        fid = Q + "::Queue::" + fn
        f = ctx.fn("R-PAIR", fid, fn + "/retry-rereads-tail")
        if f is None: continue
        es = ctx.edges(f, variant_of_call(cas, "Err"))
        li = ctx.an.sites(f, Call(A("load"), **TIDX, transitive=False), "must")
        lb = ctx.an.sites(f, Call(A("load"), on=Q + "::Position.block", on_any=Q + "::Queue.tail", transitive=False), "must")
        cs = ctx.an.sites(f, Call(cas, on=Q + "::BlockPtr.0", transitive=False), "must")
        if not es or not li or not lb or not cs:
            ctx.missing("R-PAIR", fid, fn + "/retry-rereads-tail", "CAS-Err edges=%d tail.index loads=%d tail.block loads=%d" % (len(es), len(li), len(lb))); continue
        starts = [Point(tb, 0) for _, tb, _ in es]
        bad_i = [c for c in cs if c in ctx.an.reach(f, starts, blocked=li)]
        bad_b = [c for c in cs if c in ctx.an.reach(f, starts, blocked=lb)]
        ctx.ob("R-PAIR", fid, fn + "/retry-rereads-tail", not bad_i and not bad_b,
               "after a lost head CAS both tail.index and tail.block are re-read before the next attempt" if not bad_i and not bad_b else
               "%s retries its head CAS after a failure without re-reading %s: the emptiness / tail-block test of the retry uses a stale shadow and can claim unpublished slots" %
               (fid, "tail.block" if bad_b else "tail.index"), f.where(sorted(cs)[0]))
    # (seeds C04-1/C04-2) the range that bulk_pop copies ends at a value bounded by a published index, and the wait loop waits
    # for the END of the claimed range, not for its first slot
    f = ctx.fn("R-EXIT", Q + "::Queue::bulk_pop", "bulk/range-end-bounded")
    if f is not None:
        def mentions_push_index(o, depth=0):
            o = simplify(o)
            if depth > 12: return False
            if o[0] == "call":
                if re.fullmatch(A("load") + r"|may_queue::atomic::AtomicUsize::unsync_load", o[2] or ""):
                    return receiver_leaf(f, f.term(o[1])) == Q + "::Position.index"
                return any(mentions_push_index(trace_operand(f, a), depth + 1) for a in f.term(o[1])["args"])
            if o[0] == "phi":
                alts2 = [mentions_push_index(a, depth + 1) for a in o[2]]
                return all(alts2) if depth == 0 else any(alts2)
            if o[0] in ("bin",): return mentions_push_index(o[2], depth + 1) or mentions_push_index(o[3], depth + 1)
            if o[0] in ("cast", "un", "field", "deref", "ref"): return mentions_push_index(o[2] if o[0] == "un" else o[1], depth + 1)
            return False
        ends = [(pt, simplify(trace_operand(f, f.node(pt)["args"][2]))) for pt in sorted(ctx.an.sites(f, Call(re.escape(Q) + "::BlockNode::copy_to_bulk", transitive=False), "must"))]
        ok = bool(ends) and all(mentions_push_index(e) for _, e in ends)
        ctx.ob("R-EXIT", Q + "::Queue::bulk_pop", "bulk/range-end-bounded", ok,
               "the end of the range copied by bulk_pop is derived from the published tail index on every path (min(block end, push_index) or start + a count bounded by it)" if ok else
               "bulk_pop copies up to an end (%s) that is not bounded by the published tail index on some path: unpublished (uninitialised) slots are handed out" %
               [fmt_origin(e) for _, e in ends], f.where(ends[0][0]) if ends else f.where())
        # wait loop compares the end of the range
        alts = set()
        for _, e in ends:
            if e[0] == "phi": alts |= set(simplify(a) for a in e[2])
            else: alts.add(e)
        okw = None
        for bi in range(f.nblocks()):
            if f.is_cleanup(bi) or f.term(bi)["t"] != "sw": continue
            o = switch_info(f, bi)
            if o[0] == "bin" and o[1] in ("Gt", "Ge", "Lt", "Le"):
                a, b = simplify(o[2]), simplify(o[3])
                for x, y in ((a, b), (b, a)):
                    # y is a *direct* tail.index load (the wait loop re-loads it every iteration)
                    if y[0] == "call" and re.fullmatch(A("load"), y[2] or "") and receiver_leaf(f, f.term(y[1])) == Q + "::Position.index" and y[1] in \
                       [p0.bb for p0 in ctx.an.reach(f, [Point(bi, 0)])] and Point(bi, 0) in ctx.an.reach(f, [Point(y[1], 0)]):
                        good = x in alts or x in [e0 for _, e0 in ends]
                        okw = good if okw is None else (okw and good)
        if okw is None:
            ctx.missing("R-EXIT", Q + "::Queue::bulk_pop", "bulk/wait-for-range-end", "no wait loop on tail.index found in bulk_pop")
        else:
            ctx.ob("R-EXIT", Q + "::Queue::bulk_pop", "bulk/wait-for-range-end", okw, "the wait loop of bulk_pop waits until the END of the claimed range is published" if okw else
                   "bulk_pop's wait loop compares something else than the end of the claimed range with tail.index (e.g. its first slot): the rest of the range is copied unpublished", f.where())
    # bulk_pop accounts exactly the slots it copied
    f = ctx.fn("R-ENUM", Q + "::Queue::bulk_pop", "bulk/mark-equals-copied-range")
    if f is not None:
        cps = [(simplify(trace_operand(f, f.node(pt)["args"][1])), simplify(trace_operand(f, f.node(pt)["args"][2]))) for pt in sorted(ctx.an.sites(f, Call(re.escape(Q) + "::BlockNode::copy_to_bulk", transitive=False), "must"))]
        ok = False; site = None
        for pt in sorted(ctx.an.sites(f, MARK, "must")):
            v = simplify(trace_operand(f, f.node(pt)["args"][1])); site = pt
            while v[0] == "field" and v[2] == "(tuple)": v = simplify(v[1])
            if v[0] == "bin" and v[1].startswith("Sub") and any(simplify(v[2]) == e and simplify(v[3]) == s0 for s0, e in cps): ok = True
        ctx.ob("R-ENUM", Q + "::Queue::bulk_pop", "bulk/mark-equals-copied-range", ok, "bulk_pop marks exactly `end - pop_index` slots read, the range it copied" if ok else
               "bulk_pop's mark_slots_read count is not the size of the copied range: the block is freed early (use-after-free) or never", f.where(site))
    # mark_slots_read: returns old == size
    def eq_of_fetch_sub_and(g, pred_other):
        """is there `fetch_sub(..) == X` in g with pred_other(fetch_sub site bb, X)?"""
        for pt in g.points():
            n = g.node(pt)
            if not g.is_term(pt) and n["s"] == "=" and n["rv"]["r"] == "bin" and n["rv"]["op"] == "Eq":
                a, b = simplify(trace_operand(g, n["rv"]["a"])), simplify(trace_operand(g, n["rv"]["b"]))
                for x, y in ((a, b), (b, a)):
                    if is_call_result(A("fetch_sub"))(x) and x[0] == "call" and pred_other(x[1], y): return True
        return False
    if ctx.prog.fn(Q + "::BlockNode::mark_slots_read") is not None:
        f = ctx.fn("R-PAIR", Q + "::BlockNode::mark_slots_read", "last-reader-detect")
        ok = eq_of_fetch_sub_and(f, lambda bb, y: y[0] == "arg")
        ctx.ob("R-PAIR", Q + "::BlockNode::mark_slots_read", "last-reader-detect", ok, "mark_slots_read reports `old == size` of its fetch_sub (exactly one caller sees the count reach 0)" if ok else
               "mark_slots_read no longer returns `fetch_sub(size) == size`", f.where())
    else:
        # the helper was inlined by hand: every taker that decrements `used` itself compares the old value with the amount it subtracted
        n_prim = 0
        for fn in ("pop", "local_pop", "bulk_pop"):
            g = ctx.prog.fn(Q + "::Queue::" + fn)
            if g is None: continue
            for pt in sorted(ctx.an.sites(g, MARK_PRIM, "must")):
                n_prim += 1
                amt = simplify(trace_operand(g, g.node(pt)["args"][1]))
                ok = eq_of_fetch_sub_and(g, lambda bb, y, pt=pt, amt=amt: bb == pt.bb and (y == amt or (is_const_any(y) and is_const_any(amt) and const_val(y) == const_val(amt))))
                ctx.ob("R-PAIR", g.id, "last-reader-detect", ok, "%s compares `used.fetch_sub(n)` with the same n (exactly one taker sees the count reach 0)" % g.id if ok else
                       "%s decrements `used` by n but does not test `old == n`: the last reader is not detected (block leaked) or detected twice" % g.id, g.where(pt))
        if not n_prim:
            ctx.missing("R-PAIR", Q + "::BlockNode::mark_slots_read", "last-reader-detect", "neither mark_slots_read nor a direct `used.fetch_sub` in the takers")
    spmc_head_protocol(ctx)
    # no task dropped on a normal path
    for fid in (PUSH, Q + "::Queue::pop", Q + "::Queue::local_pop", Q + "::Steal::steal_into", Q + "::Local::push_back", Q + "::Local::pop"):
        f = ctx.fn("R-LIN", fid, "no-task-dropped")
        if f is None: continue
        drops = [pt for pt in f.points() if f.is_term(pt) and f.node(pt)["t"] == "drop" and f.node(pt)["ty"] in ("T", "std::option::Option<T>")]
        # Option<T> drops that are the moved-out return temp are elaborated away at opt-level 0; anything left is a real drop
        ctx.ob("R-LIN", fid, "no-task-dropped", not drops, "no task value is dropped on a normal path of %s" % fid if not drops else
               "%s drops a task value on a normal path (a coroutine is silently destroyed)" % fid, f.where(drops[0] if drops else None), nontrivial=True)
    # steal_into: every element of the batch goes to push_back or is returned
    SI = Q + "::Steal::steal_into"
    fsi = ctx.prog.fn(SI)
    PB = Call(re.escape(Q) + "::Local::push_back")
    if fsi is not None and ctx.edges(fsi, variant_of_call(r".*IntoIter.*::next|.*Iterator.*::next", "Some")):
        ctx.must_follow(SI, None, PB, "steal/rest-moved", "every remaining element of a stolen batch is moved into the stealer's queue",
                        edge=variant_of_call(r".*IntoIter.*::next|.*Iterator.*::next", "Some"), edge_label="edge `iter.next()` is Some", exits=lambda g: set(g.ret_points()) |
                        ctx.an.sites(g, Call(r".*::next", transitive=False), "may"))
    elif fsi is not None:
        # the same walk written with a combinator: `v.into_iter().for_each(|t| dst.push_back(t))`
        okc = False; site = None
        for pt in fsi.points():
            if fsi.is_term(pt) and fsi.node(pt)["t"] == "call" and re.search(r"Iterator::for_each$", callee_name(fsi.node(pt)) or ""):
                site = pt
                for cid in closure_args(fsi, fsi.node(pt)):
                    c = ctx.prog.fn(norm(cid))
                    if c is not None and ctx.an.must(c, PB): okc = True
        okc = okc and site is not None and ctx.an.must(fsi, Call(r".*Iterator::for_each", transitive=False)) is not None
        r0 = ctx.an.reach(fsi, [Point(0, 0)], blocked={site} if site else set())
        popped = ctx.an.sites(fsi, Call(re.escape(Q) + "::Queue::bulk_pop", transitive=False), "must")
        after_pop = ctx.an.reach(fsi, [q for s0 in popped for q in ctx.an.after(fsi, s0)], blocked={site} if site else set())
        okc = okc and not any(x in after_pop for x in fsi.ret_points())
        ctx.ob("R-PAIR", SI, "steal/rest-moved", okc, "every remaining element of a stolen batch is moved into the stealer's queue (for_each with a closure that always calls push_back)" if okc else
               "steal_into neither loops over the stolen batch nor hands it to a for_each whose closure pushes every element into the stealer's queue", fsi.where(site) if site else fsi.where())
    ctx.order(SI, Call(re.escape(Q) + "::Queue::bulk_pop"), Call(re.escape(Q) + "::Local::push_back"), "steal/claim-then-move", "tasks are moved only after they were claimed from the victim")
    # local side ops take &mut self (single owner at the type level) — checked through the confinement chain in may
    if ctx.prog.fn("may::scheduler::Scheduler::schedule_with_id") is not None:
        shared.worker_queue_confinement(ctx)
    shared.copy_to_bulk_rules(ctx)
