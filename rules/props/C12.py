"""C12 — RwLock: writers exclusive; free again once all guards are dropped (structural clauses)."""
from lib import *
from props import shared
from props.shared import *

EXPLANATION = ("R-ENUM acquisition protocol: RwLock::try_lock returns a non-WouldBlock variant only behind its CAS(0→1) success and "
               "every caller treats exactly WouldBlock / Canceled as failure; R-PAIR reader count: every RwLockReadGuard that reaches "
               "the caller (inside Ok or a Poisoned error) was counted first, the first reader takes the global lock before it is "
               "counted, read_unlock mirrors it, both guards' Drop unlock; R-SIB forwarding handshake of RwLock::lock; R-MO on cnt")
NOT_DECIDED = "fairness; eventual acquisition; the counting identity over interleavings"
CONFIGS_QUICK = ["default"]

R = "may::sync::rwlock::RwLock"
RG = "may::sync::rwlock::RwLockReadGuard"
WG = "may::sync::rwlock::RwLockWriteGuard"
MX = "may::sync::mutex::Mutex"

def park_err(a):
    return variant_of_call(re.escape(SB) + "::park", "Err")(a)

def rooted_in_guard(g, o, depth=0):
    """the place lives behind a may::sync::mutex::MutexGuard (value protected by rlock)"""
    if depth > 8: return False
    k = o[0]
    if k in ("deref", "ref", "downcast", "clone"): return rooted_in_guard(g, o[1], depth + 1)
    if k == "field": return rooted_in_guard(g, o[1], depth + 1)
    if k == "phi": return any(rooted_in_guard(g, simplify(a), depth + 1) for a in o[2]) or "may::sync::mutex::MutexGuard" in g.locals[o[1]]
    if k in ("local", "arg"): return "may::sync::mutex::MutexGuard" in g.locals[o[1]]
    if k == "call":
        return (o[2] or "") in ("may::sync::mutex::Mutex::lock", "may::sync::mutex::Mutex::try_lock") or \
            "may::sync::mutex::MutexGuard" in (type_of_place(g, g.term(o[1])["d"]) or "")
    return False

def counter_write(op):
    """statement `*r = *r ± 1` on the value behind the rlock MutexGuard"""
    def w(g, pt, n):
        if n["s"] != "=": return False
        if not n["l"]["p"]: return False
        lo = simplify(trace_place(g, n["l"]))
        if not rooted_in_guard(g, lo): return False
        v = simplify(trace_rvalue(g, n["rv"], 0))
        while v[0] == "field" and v[2] == "(tuple)": v = simplify(v[1])
        return v[0] == "bin" and v[1].startswith(op) and is_const(1)(simplify(v[3]))
    return w

def check(ctx):
    cas = A("compare_exchange(_weak)?")
    TL = R + "::try_lock"
    # (a) try_lock: Ok / Poisoned only behind CAS success; CAS is 0->1
    f = ctx.fn("R-ENUM", TL, "acquired-variants-behind-cas")
    if f is not None:
        def acquired_variant_sites(g):
            out = []
            for pt in g.points():
                n = g.node(pt)
                if g.is_term(pt) or n["s"] != "=": continue
                rv = n["rv"]
                if rv["r"] == "agg" and rv["ak"] == "adt":
                    a = norm(rv["adt"])
                    if (a == "std::result::Result" and rv["var"] == "Ok") or (a == "std::sync::TryLockError" and rv["var"] == "Poisoned") \
                       or (a == "std::sync::poison::TryLockError" and rv["var"] == "Poisoned"):
                        out.append(pt)
            return out
        ctx.guarded(TL, acquired_variant_sites, variant_of_call(cas, "Ok"), "acquired-variants-behind-cas",
                    "RwLock::try_lock returns Ok or Poisoned (both treated as `held` by every caller) only when its CAS(0→1) succeeded; a lost "
                    "CAS must be WouldBlock", rule="R-ENUM", pred_label="edge `compare_exchange` is Ok")
        ok = False; site = None
        for pt in ctx.an.sites(f, Call(cas, on=R + ".cnt"), "must"):
            t = f.node(pt); site = pt
            ok = const_int(f, t["args"][1]) == 0 and const_int(f, t["args"][2]) == 1
        ctx.ob("R-ENUM", TL, "cas-0-1", ok, "the CAS is 0→1" if ok else "RwLock::try_lock's CAS is not 0→1 any more", f.where(site))
    # (b) callers of try_lock construct guards only when the result is not WouldBlock
    def not_wouldblock(rx):
        ok_v = variant_of_call(rx, "Ok")
        def p(a):
            if ok_v(a): return True
            if a.kind == "variant" and a.name == "Poisoned" and root_of(a.origin)[0] == "call" and re.fullmatch(rx, root_of(a.origin)[2] or ""): return True
            if a.kind == "variant_in" and "WouldBlock" not in a.names and root_of(a.origin)[0] == "call" and re.fullmatch(rx, root_of(a.origin)[2] or ""): return True
            return False
        return p
    ctx.guarded(R + "::try_write", Call(re.escape(WG) + "::new", transitive=False), not_wouldblock(re.escape(TL)), "try-write-guard-only-if-held",
                "try_write constructs a write guard only when try_lock did not report WouldBlock", rule="R-ENUM", pred_label="edge `try_lock()` is not Err(WouldBlock)")
    # lock(): Ok only behind try_lock Ok / park Ok; Err(Timeout) only behind try_lock Poisoned (= held, by (a))
    LK = R + "::lock"
    f = ctx.fn("R-ENUM", LK, "ok-only-if-held")
    if f is not None:
        def ok_sites(g):
            return [pt for pt in g.points() if not g.is_term(pt) and g.node(pt)["s"] == "=" and g.node(pt)["rv"]["r"] == "agg" and
                    g.node(pt)["rv"].get("ak") == "adt" and norm(g.node(pt)["rv"]["adt"]) == "std::result::Result" and g.node(pt)["rv"]["var"] == "Ok"]
        ctx.guarded(LK, ok_sites, any_of(variant_of_call(re.escape(TL), "Ok"), variant_of_call(re.escape(SB) + "::park", "Ok")), "ok-only-if-held",
                    "RwLock::lock reports Ok only after try_lock succeeded or park returned Ok (hand-off)", rule="R-ENUM",
                    pred_label="edge `try_lock()` is Ok / `park()` is Ok")
        tmo = [pt for pt in f.points() if direct_match(f, pt, Agg("may::park::ParkError", "Timeout"))]
        if tmo:
            ctx.guarded(LK, Agg("may::park::ParkError", "Timeout", transitive=False),
                        lambda a: a.kind == "variant" and a.name == "Poisoned" and root_of(a.origin)[0] == "call" and root_of(a.origin)[2] == TL,
                        "timeout-variant-only-if-held", "lock() returns the variant that read()/write() treat as `held` (Err(Timeout)) only for a "
                        "Poisoned try_lock, which by the rule above implies the CAS succeeded", rule="R-ENUM", pred_label="edge `try_lock()` is Err(Poisoned)")
        canc = Agg("may::park::ParkError", "Canceled", transitive=False)
        ctx.guarded(LK, canc, lambda a: a.kind == "variant" and a.name == "Canceled", "canceled-only-if-park-canceled",
                    "lock() reports Canceled only when park did", rule="R-ENUM", pred_label="edge `park()` is Err(Canceled)")
    # write()/read(): on Err(Canceled) they panic (never construct a guard)
    for fn, guard in (("write", WG), ("read", RG)):
        fid = R + "::" + fn
        ctx.must_follow(fid, None, TRIGGER, fn + "-canceled-panics",
                        "%s() never hands out a guard when lock() reported Canceled (lock not held)" % fn, rule="R-ENUM",
                        edge=lambda a: a.kind == "variant" and a.name == "Canceled" and root_of(a.origin)[0] == "call" and root_of(a.origin)[2] == LK,
                        edge_label="edge `lock()` is Err(Canceled)", exits=lambda g, guard=guard: ctx.an.sites(g, Call(re.escape(guard) + "::new", transitive=False), "may") | set(g.ret_points()))
    ctx.order(R + "::write", Call(re.escape(LK), transitive=False), Call(re.escape(WG) + "::new", transitive=False), "write-locks-first", "write() acquires before constructing the guard")
    # ---- reader count pairing
    inc = Ev("write", on=None, where=None)
    for fn in ("read", "try_read"):
        fid = R + "::" + fn
        f = ctx.fn("R-PAIR", fid, fn + "/count-before-guard")
        if f is None: continue
        incs = [pt for pt in f.points() if not f.is_term(pt) and counter_write("Add")(f, pt, f.node(pt))]
        guards = set(ctx.an.sites(f, Call(re.escape(RG) + "::new", transitive=False), "may")) | \
            set(pt for pt in f.points() if direct_match(f, pt, Agg(RG, "RwLockReadGuard")))
        if not incs or not guards:
            ctx.missing("R-PAIR", fid, fn + "/count-before-guard", "reader-count increment (%d) / read guard construction (%d) not found" % (len(incs), len(guards)))
            continue
        r = ctx.an.reach(f, [Point(0, 0)], blocked=set(incs))
        bad = [g for g in guards if g in r]
        ctx.ob("R-PAIR", fid, fn + "/count-before-guard", not bad,
               "every RwLockReadGuard constructed in %s (also the one returned inside a Poisoned error) is preceded by `*r += 1`" % fn if not bad else
               "%s can construct a RwLockReadGuard that was not counted: dropping it underflows the reader count / leaks the write lock" % fn,
               f.where((bad or sorted(guards))[0]), detail=ctx.an.fmt_path(f, ctx.an.path(f, [Point(0, 0)], bad, blocked=set(incs))) if bad else None)
        # exactly one increment per path to a guard
        r2 = ctx.an.reach(f, [q for s in incs for q in ctx.an.after(f, s)])
        dbl = [s for s in incs if s in r2]
        ctx.ob("R-PAIR", fid, fn + "/count-once", not dbl, "the reader is counted once per acquisition" if not dbl else "%s counts a reader twice on one path" % fn, f.where(incs[0]))
        # a counted reader always gets a guard (no path that counts and then leaves without one)
        starts = [q for s in incs for q in ctx.an.after(f, s)]
        r3 = ctx.an.reach(f, starts, blocked=guards)
        leak = [x for x in f.ret_points() if x in r3]
        ctx.ob("R-PAIR", fid, fn + "/counted-reader-gets-guard", not leak,
               "after `*r += 1` every path to return constructs the read guard that will take the count back" if not leak else
               "%s can count a reader and then return without handing out a guard: the reader count leaks, later readers skip the global lock while a writer holds it" % fn,
               f.where(incs[0]), detail=ctx.an.fmt_path(f, ctx.an.path(f, starts, leak, blocked=guards)) if leak else None)
        # first reader takes the global lock before being counted: the `*r == 0` true edge must pass lock()/try_lock()
        acq = Call(re.escape(LK) + "|" + re.escape(TL), transitive=False)
        zero = lambda a: a.kind == "cmp" and a.op == "Eq" and (is_const(0)(a.b) or is_const(0)(a.a))
        ctx.must_follow(fid, None, acq, fn + "/first-reader-locks", "the first reader (count == 0) takes the global lock before it is counted", edge=zero,
                        edge_label="edge `*r == 0`", exits=lambda g, incs=incs: set(incs))
        # the count is read and updated under rlock
        ctx.order(fid, Call(re.escape(MX) + "::(lock|try_lock)", on=R + ".rlock"), acq, fn + "/rlock-first", "the reader count is examined under rlock")
    # try_read: WouldBlock from try_lock returns without a guard
    ctx.guarded(R + "::try_read", Call(re.escape(RG) + "::new", transitive=False),
                any_of(not_wouldblock(re.escape(TL)), lambda a: a.kind == "cmp" and a.op == "Ne" and (is_const(0)(a.b) or is_const(0)(a.a))),
                "try-read-guard-only-if-held", "try_read constructs a guard only when readers already hold the lock (count != 0) or try_lock did not report WouldBlock",
                rule="R-ENUM", pred_label="edge `*r != 0` / `try_lock()` is not Err(WouldBlock)")
    # read_unlock mirrors
    RU = R + "::read_unlock"
    f = ctx.fn("R-PAIR", RU, "read-unlock-mirror")
    if f is not None:
        decs = [pt for pt in f.points() if not f.is_term(pt) and counter_write("Sub")(f, pt, f.node(pt))]
        unl = ctx.an.sites(f, Call(re.escape(R) + "::unlock", transitive=False), "may")
        if not decs or not unl:
            ctx.missing("R-PAIR", RU, "read-unlock-mirror", "decrement (%d) / unlock (%d) not found" % (len(decs), len(unl)))
        else:
            r = ctx.an.reach(f, [Point(0, 0)], blocked=set(decs))
            bad = [u for u in unl if u in r]
            ctx.ob("R-PAIR", RU, "read-unlock-mirror", not bad, "read_unlock decrements the reader count before deciding to release the global lock" if not bad else
                   "read_unlock can release the global lock before the reader count is decremented (off by one: the lock is released while a reader remains)", f.where(decs[0]))
            zero = lambda a: a.kind == "cmp" and a.op == "Eq" and (is_const(0)(a.b) or is_const(0)(a.a))
            ctx.guarded(RU, Call(re.escape(R) + "::unlock", transitive=False), zero, "last-reader-unlocks", "only the last reader (count == 0 after the decrement) releases the global lock",
                        pred_label="edge `*r == 0`", rule="R-PAIR")
            ctx.must_follow(RU, None, Call(re.escape(R) + "::unlock", transitive=False), "last-reader-must-unlock", "the last reader always releases the global lock", edge=zero, edge_label="edge `*r == 0`")
            r3 = ctx.an.reach(f, [Point(0, 0)], blocked=set(decs))
            ctx.ob("R-PAIR", RU, "always-decrements", not any(x in r3 for x in f.ret_points()), "read_unlock always decrements", f.where(decs[0]))
    ctx.must_call("<may::sync::rwlock::RwLockReadGuard as std::ops::Drop>::drop", Call(re.escape(RU)), "read-guard-drop-unlocks", "dropping a read guard releases its count")
    WD = "<may::sync::rwlock::RwLockWriteGuard as std::ops::Drop>::drop"
    # stated on RwLock::unlock itself (reached directly or through the one-line write_unlock helper)
    ctx.must_call(WD, Call(re.escape(R) + "::unlock"), "write-guard-drop-unlocks", "dropping a write guard always unlocks (also when poisoning)")
    ctx.order(WD, Call(r"may::sync::poison::Flag::done"), Call(re.escape(R) + "::unlock"), "poison-then-unlock", "the poison flag is set before the lock is released")
    # ---- the global mutex part
    ctx.order(LK, Call(SEGQ + "push", on=R + ".to_wake"), atomic("fetch_add", R + ".cnt"), "enqueue-then-count", "lock() enqueues its blocker before incrementing cnt")
    ctx.must_follow(LK, None, Call(re.escape(R) + "::unpark_one"), "first-grab-self-wake", "a lock() whose increment found cnt == 0 wakes the head waiter",
                    edge=lambda a: a.kind == "cmp" and a.op == "Eq" and (is_call_result(A("fetch_add"))(a.a) or is_call_result(A("fetch_add"))(a.b)),
                    edge_label="edge `cnt.fetch_add(1) == 0`", exits=lambda g: ctx.an.sites(g, SB_PARK, "may"))
    U = R + "::unlock"
    ctx.must_follow(U, None, Call(re.escape(R) + "::unpark_one"), "handover", "unlock() with waiters present pops one and unparks it",
                    edge=lambda a: (a.kind == "cmp" and a.op == "Gt" and is_call_result(A("fetch_sub"))(a.a) and is_const(1)(a.b)) or
                                   (a.kind == "cmp" and a.op == "Lt" and is_call_result(A("fetch_sub"))(a.b) and is_const(1)(a.a)),
                    edge_label="edge `cnt.fetch_sub(1) > 1`")
    ctx.must_call(U, atomic("fetch_sub", R + ".cnt"), "always-decrement", "unlock always releases one count")
    handshake_waiter(ctx, LK, Call(re.escape(U)), "handshake", "lock", park_err, exits_kind="ret")
    handshake_waker(ctx, R + "::unpark_one", Call(re.escape(U)), "waker", "lock")
    shared.wakes_dequeued_waiter(ctx, R)
    syncblocker_rules(ctx)      # the handshake primitives themselves (release is consumed atomically by exactly one side)
    ctx.mo_floor(R + ".cnt", ("fetch_sub",), "REL", "unlock-release", "critical section happens-before the next acquisition", only_in=re.escape(U))
    ctx.mo_floor(R + ".cnt", ("compare_exchange", "compare_exchange_weak"), "ACQ", "trylock-acquire", "", only_in=re.escape(TL))
    ctx.mo_floor(R + ".cnt", ("fetch_add",), "ACQ", "lock-acquire", "", only_in=re.escape(LK))
    # R-API: RwLock.data accessors
    users = set()
    for f in ctx.prog.fns.values():
        for pt in f.points(cleanup=True):
            n = f.node(pt)
            pls = []
            if f.is_term(pt):
                if n["t"] == "call":
                    for a in n["args"]:
                        pl = a.get("c") or a.get("m")
                        if pl: pls.append(pl)
            elif n["s"] == "=":
                pls = rvalue_places(n["rv"]) + [n["l"]]
            for pl in pls:
                if R + ".data" in all_fields(simplify(trace_place(f, pl))):
                    users.add(f.id)
    allowed = {"<may::sync::rwlock::RwLockReadGuard as std::ops::Deref>::deref", "<may::sync::rwlock::RwLockWriteGuard as std::ops::Deref>::deref",
               "<may::sync::rwlock::RwLockWriteGuard as std::ops::DerefMut>::deref_mut", R + "::get_mut", R + "::into_inner", R + "::new"}
    extra = users - allowed
    if not users & allowed:
        ctx.missing("R-API", R + ".data", "accessors", "no accessor of RwLock.data found")
    else:
        ctx.ob("R-API", R + ".data", "accessors", not extra, "RwLock.data is reached only through the guards, get_mut(&mut self), into_inner(self), new" if not extra else
               "RwLock.data is accessed outside the guards: %s" % sorted(extra), None)
    # no DerefMut for the read guard
    dm = [im for im in ctx.prog.impls if norm(im.get("trait") or "") == "std::ops::DerefMut" and norm(im.get("self_adt") or "") == RG]
    ctx.ob("R-API", RG, "read-guard-no-derefmut", not dm, "RwLockReadGuard does not implement DerefMut" if not dm else "RwLockReadGuard implements DerefMut: readers can mutate", None, nontrivial=False)
    ctx.import_rules("C02", r"^(sync-blocker|blocker|fast-blocker|thread-park)/")
    # try_lock reports WouldBlock only behind an observation that the lock is taken (a non-zero count or a lost CAS): a free lock can be try-acquired
    taken_seen = lambda a: (a.kind == "cmp" and a.op == "Ne" and is_call_result(A("load"), R + ".cnt")(a.a) and is_const(0)(a.b)) or \
                           (a.kind == "variant" and a.name == "Err" and simplify(a.origin)[0] == "call" and re.fullmatch(A("compare_exchange(_weak)?"), simplify(a.origin)[2] or "") is not None)
    ctx.guarded(R + "::try_lock", Agg(r"(std|core)::result::Result", "Err", transitive=False), taken_seen, "try-lock/would-block-only-if-taken",
                "RwLock::try_lock answers WouldBlock only after it saw the lock taken (cnt != 0 or a lost CAS): once every guard is dropped try_write / try_read succeed again",
                rule="R-EXIT", pred_label="edge `cnt.load() != 0` / CAS is Err")
    # a reader / writer that is cancelled while it waits for the internal lock releases what it holds of the reader mutex before it panics
    canceled_lock = lambda a: a.kind == "variant" and a.name == "Canceled" and root_of(simplify(a.origin))[0] == "call" and (root_of(simplify(a.origin))[2] or "").endswith("rwlock::RwLock::lock")
    if ctx.edges(ctx.prog.fn(R + "::read"), canceled_lock) if ctx.prog.fn(R + "::read") is not None else False:
        TRG = Call(r"may::cancel::trigger_cancel_panic", transitive=False)
        ctx.must_follow(R + "::read", None, Call(r"may::sync::mutex::unlock_mutex|may::sync::mutex::Mutex::unlock", transitive=False), "read/canceled-releases-reader-mutex",
                        "a read() that is cancelled while it waits for the lock releases the reader mutex (its guard is forgotten) before it raises the Cancel panic", rule="R-PAIR",
                        edge=canceled_lock, edge_label="edge `self.lock()` is Err(Canceled)", exits=lambda g: set(g.ret_points()) | ctx.an.sites(g, TRG, "must"))
        ctx.guarded(R + "::read", TRG, canceled_lock, "read/cancel-panic-only-if-canceled", "read() raises the Cancel panic only when its wait was cancelled", rule="R-EXIT", pred_label="edge `self.lock()` is Err(Canceled)")
    else:
        ctx.missing("R-PAIR", R + "::read", "read/canceled-releases-reader-mutex", "no `Err(Canceled)` test on self.lock() in RwLock::read")
    ctx.import_rules("C05", r"^handshake|^waker|^handover|^acquire-evidence|^mutex/")
    shared.drops_do_not_block_unmasked(ctx)
    shared.handoff_not_recursive(ctx, "may::sync::rwlock")
