"""C06 — channels deliver every message exactly once, in per-sender order (structural clauses)."""
from lib import *
from props.shared import *
import witness

EXPLANATION = ("R-ORDER push-before-wake and Ok-only-after-push in the three channel send paths, R-PAIR every mpmc pop lies behind an "
               "acquired permit, R-SLOT register-then-recheck of the receivers, R-TYPE (compile-fail witnesses with compiling twins) "
               "the single-consumer/single-producer endpoints are !Sync and !Clone, R-WHO the consumer side of the inner queues is "
               "reachable only from the Receiver")
EXPLANATION_2 = ('channel bookkeeping (endpoint counters start at 1, clone/drop add/sub 1, port_dropped flag, send fails only without receiver, mpmc last sender - and only it - posts the disconnect permit, every push followed by a permit), spsc Blocker tag agreement, taken waiter is unparked')
NOT_DECIDED = "exactly-once and order of delivery over interleavings (reduce to C03 plus schedules)"
CONFIGS_QUICK = ["default"]
NEEDS_TARGET = True

MP = "may::sync::mpsc::InnerQueue"; SP = "may::sync::spsc::InnerQueue"; MM = "may::sync::mpmc::InnerQueue"
SPQ = r"may_queue::spsc::Queue::"
BLK = r"may::sync::blocking::Blocker::"

def check(ctx):
    # ---- mpsc
    ctx.order(MP + "::send", Call(MQ_MPSC + "push", on=MP + ".queue"), ao("take", MP + ".to_wake"), "mpsc/push-then-wake",
              "send pushes the value before it takes the waiting receiver (the woken receiver must find it)")
    ctx.guarded(MP + "::send", Call(MQ_MPSC + "push", on=MP + ".queue"), call_false(A("load"), MP + ".port_dropped"), "mpsc/push-only-if-port-alive",
                "send pushes only when the receiver is alive; otherwise the value is returned in Err", pred_label="edge `port_dropped.load()` is false")
    f = ctx.fn("R-ORDER", MP + "::send", "mpsc/ok-only-after-push")
    if f is not None:
        oks = [pt for pt in f.points() if direct_match(f, pt, Agg("std::result::Result", "Ok"))]
        ps = ctx.an.sites(f, Call(MQ_MPSC + "push", on=MP + ".queue"), "must")
        r = ctx.an.reach(f, [Point(0, 0)], blocked=ps)
        bad = [o for o in oks if o in r]
        ctx.ob("R-ORDER", MP + "::send", "mpsc/ok-only-after-push", bool(oks) and not bad, "Ok(()) is returned only after the push" if oks and not bad else
               "mpsc send can return Ok without having pushed the value", f.where((bad or oks or [None])[0]))
    slot_waiter(ctx, MP + "::recv", ao("store", MP + ".to_wake"), Call(re.escape(MP) + "::try_recv"),
                lambda a: a.kind in ("variant", "variant_in") and root_of(a.origin)[0] == "call" and root_of(a.origin)[2] == MP + "::try_recv" and
                (a.name != "Empty" if a.kind == "variant" else "Empty" not in a.names) and not (a.kind == "variant" and a.name == "Err"),
                ao("clear|take", MP + ".to_wake"), "mpsc/recv", "mpsc InnerQueue::recv", "try_recv() is not Err(Empty)")
    ctx.guarded(MP + "::recv", Call(BLK + "park", transitive=False), lambda a: a.kind == "variant" and a.name == "Empty", "mpsc/park-only-if-empty",
                "the receiver parks only when the re-check after registration still found the channel empty", rule="R-SLOT", pred_label="edge `try_recv()` is Err(Empty)")
    ctx.must_follow(MP + "::recv", Call(BLK + "park", transitive=False), Call(re.escape(MP) + "::try_recv", transitive=False), "mpsc/retry-after-park",
                    "after a wake-up the receiver looks at the queue again")
    ctx.order(MP + "::recv", ao("store", MP + ".to_wake"), Call(BLK + "park", transitive=False), "mpsc/register-before-park", "the receiver registers before parking", rule="R-SLOT")
    # ---- spsc
    ctx.order(SP + "::send", Call(SPQ + "push", on=SP + ".queue"), ao("take", SP + ".wait_co"), "spsc/push-then-wake", "send pushes the value before it takes the waiting receiver")
    ctx.guarded(SP + "::send", Call(SPQ + "push", on=SP + ".queue"), call_false(A("load"), SP + ".port_dropped"), "spsc/push-only-if-port-alive",
                "send pushes only when the receiver is alive", pred_label="edge `port_dropped.load()` is false")
    # thread path of spsc recv
    ctx.must_follow(SP + "::recv", ao("store", SP + ".wait_co"), Call(re.escape(SP) + "::try_recv", transitive=False), "spsc/thread-register-then-recheck",
                    "the thread receiver registers, then re-checks the queue", rule="R-SLOT")
    ctx.guarded(SP + "::recv", Call(r"std::thread::park", transitive=False), lambda a: a.kind == "variant" and a.name == "Empty", "spsc/thread-park-only-if-empty",
                "the thread receiver parks only when the re-check found the channel empty", rule="R-SLOT", pred_label="edge `try_recv()` is Err(Empty)")
    ctx.order(SP + "::recv", ao("store", SP + ".wait_co"), Call(r"std::thread::park", transitive=False), "spsc/thread-register-before-park", "", rule="R-SLOT")
    # coroutine path: Park::subscribe registers then re-checks queue (and channels: C07)
    SUB = "<may::sync::spsc::Park as may::coroutine_impl::EventSource>::subscribe"
    ctx.must_follow(SUB, ao("store", SP + ".wait_co"), Call(SPQ + "is_empty", on=SP + ".queue"), "spsc/co-register-then-recheck",
                    "the coroutine receiver registers, then re-checks the queue", rule="R-SLOT")
    ctx.must_follow(SUB, None, ao("take", SP + ".wait_co"), "spsc/co-selfwake", "a coroutine receiver that finds data after registering takes itself back", rule="R-SLOT",
                    edge=call_false(SPQ + "is_empty"), edge_label="edge `queue.is_empty()` is false")
    # ---- mpmc
    ctx.order(MM + "::send", Call(SEGQ + "push", on=MM + ".queue"), Call(r"may::sync::semphore::Semphore::post", on=MM + ".sem"), "mpmc/push-then-post",
              "send pushes the value before posting its permit (a receiver holding a permit must find a value)")
    ctx.guarded(MM + "::send", Call(SEGQ + "push", on=MM + ".queue"), lambda a: a.kind == "cmp" and a.op == "Ne" and is_const(0)(a.b), "mpmc/push-only-if-rx-alive",
                "send pushes only while a receiver exists", pred_label="edge `rx_ports.load() != 0`")
    SEM = r"may::sync::semphore::Semphore::"
    permit = any_of(call_true(SEM + "try_wait"), call_true(SEM + "wait_timeout"))
    f = ctx.fn("R-PAIR", MM + "::recv", "mpmc/recv-pop-behind-permit")
    if f is not None:
        pops = ctx.an.sites(f, Call(SEGQ + "pop", on=MM + ".queue", transitive=False), "may")
        acq = ctx.an.sites(f, Call(SEM + "wait", on=MM + ".sem", transitive=False), "must")
        blk, good = ctx.edge_blocker(f, call_true(SEM + "wait_timeout"))
        if not pops or not acq or not good:
            ctx.missing("R-PAIR", MM + "::recv", "mpmc/recv-pop-behind-permit", "pop=%d sem.wait=%d wait_timeout-true-edges=%d" % (len(pops), len(acq), len(good)))
        else:
            r = ctx.an.reach(f, [Point(0, 0)], blocked=acq, blocked_edges=blk)
            bad = [p for p in pops if p in r]
            ctx.ob("R-PAIR", MM + "::recv", "mpmc/recv-pop-behind-permit", not bad, "recv pops the queue only after sem.wait() returned or wait_timeout() returned true" if not bad else
                   "mpmc recv can pop the queue without holding a permit: two receivers can race for one message / a permit is left over", f.where((bad or sorted(pops))[0]))
    ctx.guarded(MM + "::try_recv", Call(SEGQ + "pop", on=MM + ".queue", transitive=False), call_true(SEM + "try_wait"), "mpmc/try-recv-pop-behind-permit",
                "try_recv pops the queue only after try_wait() acquired a permit", rule="R-PAIR", pred_label="edge `sem.try_wait()` is true")
    ctx.guarded(MM + "::recv", Agg(r"std::sync::\w+::RecvTimeoutError", "Timeout", transitive=False), call_false(SEM + "wait_timeout"), "mpmc/timeout-only-without-permit",
                "recv reports Timeout only when wait_timeout returned false (no permit consumed)", pred_label="edge `wait_timeout()` is false")
    # a value pushed just before the last sender left is still delivered (drain before Disconnected; shared with C07)
    from props import C07 as _c07
    _c07.drain_rules(ctx)
    # mpmc delivery rests on permit conservation of the semaphore when a receiver times out / is cancelled
    handshake_waiter(ctx, "may::sync::semphore::Semphore::wait_timeout_impl", Call(r"may::sync::semphore::Semphore::post"), "mpmc/permit-handshake", "permit",
                     lambda a: variant_of_call(re.escape(SB) + "::park", "Err")(a), exits_kind="ret+trigger")
    handshake_waker(ctx, "may::sync::semphore::Semphore::wakeup_one", Call(r"may::sync::semphore::Semphore::post"), "mpmc/permit-waker", "permit")
    # send always wakes
    ctx.must_follow(MP + "::send", Call(MQ_MPSC + "push", on=MP + ".queue"), ao("take", MP + ".to_wake"), "mpsc/always-wakes", "every pushed value is followed by taking the waiting receiver")
    ctx.must_follow(SP + "::send", Call(SPQ + "push", on=SP + ".queue"), ao("take", SP + ".wait_co"), "spsc/always-wakes", "every pushed value is followed by taking the waiting receiver")
    ctx.must_follow(MM + "::send", Call(SEGQ + "push", on=MM + ".queue"), Call(r"may::sync::semphore::Semphore::post", on=MM + ".sem"), "mpmc/always-posts", "every pushed value gets its permit")
    # ---- R-WHO: consumer side only from Receiver methods
    for inner, recvty in ((MP, "may::sync::mpsc::Receiver"), (SP, "may::sync::spsc::Receiver")):
        allowed = set()
        for fid in ctx.prog.fns:
            base = fid.split("::{closure#")[0]
            if base.startswith(recvty + "::") or base.startswith("<" + recvty + " as ") or base.startswith(inner + "::"):
                allowed.add(base)
        ctx.who_may_call(re.escape(inner) + "::(recv|try_recv|drop_port)", allowed, inner.split("::")[-2] + "/consumer-side-confined",
                         "the consumer side of %s is reachable only from %s's own methods / Drop" % (inner, recvty))
    # ---- R-TYPE
    witness.run_witness(ctx, "c06_channels", ctx.prog.extract_info["target"])
    # dependency (seed C06-6): the block queues under the channels (read before release / commit)
    ctx.import_rules("C03", r"^spsc/(pop|bulk_pop)-read-then|^mpsc/take-then-commit|^mpsc/bulk-commit-equals-range|^mpsc/fast-bulk")
    taken_waiter_is_woken(ctx, only=r"sync::(mpsc|spsc)::InnerQueue\.(to_wake|wait_co)$")
    ctx.import_rules("C07", r"^(mpsc|spsc|mpmc)/(starts-|drop-|clone-|send-|endpoint-|last-|only-last)|^spsc-(blocker|park)/")
    ctx.import_rules("C02", r"^atomic-option/")
    ctx.import_rules("C07", r"^mpmc/try_recv/")
