"""C11 — Condvar loses no notification; Barrier / WaitGroup release exactly when due (structural clauses)."""
from lib import *
from props import shared
from props.shared import *

EXPLANATION = ("R-ORDER enqueue-then-unlock-then-park in Condvar::wait_impl, R-PAIR the mutex is re-acquired on every path from park "
               "to return and disable/enable_cancel are balanced on every feasible path (correlated-branch exploration) with the "
               "re-lock inside a cancel-disabled region, R-SIB forwarding handshake for a waiter that times out / is cancelled, "
               "exactly one mutex release on the Canceled arm of wait/wait_timeout; Barrier leader/follower shape; WaitGroup "
               "count updates under the lock and notify_all on zero")
EXPLANATION_2 = ('Condvar front-ends: Cancel panic only (and always) for a Canceled wait after releasing the mutex, wait_while waits only while the condition holds and returns only when it is false, the re-lock guard is never dropped; WaitGroup::wait leaves before waiting; Mutex cancel arm; notify_one does not recurse over abandoned waiters (F28, known finding)')
NOT_DECIDED = "which waiter is woken; spurious wake-ups; generation overflow; liveness"
CONFIGS_QUICK = ["default"]

CV = "may::sync::condvar::Condvar"
MX = "may::sync::mutex::Mutex"
CN = "may::cancel::CancelImpl"

def park_err_edge(a):
    # `ret.is_err()` is true
    return call_true(r"std::result::Result::is_err")(a)

def check(ctx):
    W = CV + "::wait_impl"
    UNL = Call(r"may::sync::mutex::unlock_mutex", transitive=False)
    ctx.order(W, Call(SEGQ + "push", on=CV + ".to_wake"), UNL, "enqueue-then-unlock",
              "the waiter is queued before the mutex is released (a notify issued after the unlock must find it: atomic unlock-and-wait)")
    ctx.order(W, UNL, SB_PARK, "unlock-then-park", "the mutex is released before blocking")
    ctx.must_follow(W, SB_PARK, Call(re.escape(MX) + "::lock", transitive=False), "relock-after-park",
                    "wait always re-acquires the mutex before returning")
    ctx.must_call(W, UNL, "always-unlocks", "wait_impl releases the mutex exactly on its way to park")
    # balanced disable/enable with correlated branches
    f = ctx.fn("R-PAIR", W, "cancel-region-balanced")
    if f is not None:
        dis = ctx.an.sites(f, Call(re.escape(CN) + "::disable_cancel", transitive=False), "must")
        en = ctx.an.sites(f, Call(re.escape(CN) + "::enable_cancel", transitive=False), "must")
        lk = ctx.an.sites(f, Call(re.escape(MX) + "::lock", transitive=False), "must")
        pk = ctx.an.sites(f, SB_PARK, "may")
        iscor = set(pt for pt in f.points() if f.is_term(pt) and f.node(pt)["t"] == "call" and callee_name(f.node(pt)) == "may::coroutine_impl::is_coroutine")
        if not (dis and en and lk and pk):
            ctx.missing("R-PAIR", W, "cancel-region-balanced", "disable_cancel=%d enable_cancel=%d lock=%d park=%d" % (len(dis), len(en), len(lk), len(pk)))
        else:
            problems = []
            def step(pt, node, st):
                depth, = st
                if pt in dis: depth += 1
                elif pt in en:
                    depth -= 1
                    if depth < 0: problems.append(("enable_cancel without a matching disable_cancel", pt)); return None
                elif pt in lk and depth < 1 and st != ("thread",):
                    problems.append(("the mutex is re-locked outside a cancel-disabled region (a Cancel panic inside lock() would leave wait without the mutex)", pt))
                elif pt in pk and depth != 0:
                    problems.append(("the waiter parks with cancel disabled (cancellation would never reach it)", pt))
                if depth > 3: return None
                return (depth,)
            def on_exit(pt, st, trail):
                if st[0] != 0:
                    problems.append(("returns with cancel-disable depth %d" % st[0], pt))
            # the coroutine case: is_coroutine() true. Explore only paths where cancel is Some:
            # follow the true edge of is_coroutine and, by correlation, the Some edges afterwards.
            ex = PathExplorer(ctx.prog, f)
            def edge_hook(pt, tb, lab, st):
                t = f.term(pt.bb)
                o = switch_info(f, pt.bb)
                if o[0] == "call" and o[2] == "may::coroutine_impl::is_coroutine":
                    if lab[0] == "sw" and lab[1] == 0:
                        return None      # thread context: no cancel data, nothing to balance
                return st
            complete = ex.run(Point(0, 0), (0,), step, on_exit, edge_hook)
            if not complete:
                ctx.ob("R-PAIR", W, "cancel-region-balanced", False, "path exploration exceeded its state bound (undecided, failing closed)", f.where())
            elif problems:
                msg, pt = problems[0]
                ctx.ob("R-PAIR", W, "cancel-region-balanced", False, "Condvar::wait_impl: " + msg, f.where(pt))
            else:
                ctx.ob("R-PAIR", W, "cancel-region-balanced", True,
                       "disable_cancel/enable_cancel are balanced on every feasible path; park is cancellable; the re-lock runs with cancel disabled",
                       f.where(sorted(dis)[0]))
    handshake_waiter(ctx, W, Call(re.escape(CV) + "::notify_one"), "handshake", "notification", park_err_edge, exits_kind="ret")
    handshake_waker(ctx, CV + "::notify_one", Call(re.escape(CV) + "::notify_one"), "waker", "notification")
    syncblocker_rules(ctx)      # the handshake primitives themselves (release is consumed atomically by exactly one side)
    # dependency: Condvar::wait re-acquires the mutex through Mutex::lock with the cancel disabled (the `b_ignore` arm of the lock
    # handshake), Barrier is a Mutex + Condvar: the lock handshake is part of what "no lost notification / released when due" needs
    _pe = lambda a: variant_of_call(re.escape(SB) + "::park", "Err")(a)
    handshake_waiter(ctx, MX + "::lock", Call(re.escape(MX) + "::unlock"), "mutex-relock/handshake", "lock", _pe, exits_kind="trigger+park")
    handshake_waker(ctx, MX + "::unpark_one", Call(re.escape(MX) + "::unlock"), "mutex-relock/waker", "lock")
    ctx.order(CV + "::notify_one", Call(SEGQ + "pop", on=CV + ".to_wake"), Call(re.escape(SB) + "::unpark"), "pop-then-unpark", "the waiter that is woken was dequeued")
    # notify_all loops to empty
    f = ctx.fn("R-EXIT", CV + "::notify_all", "notify-all-drains")
    if f is not None:
        ctx.guarded(CV + "::notify_all", Ev("ret"), variant_of_call(SEGQ + "pop", "None"), "notify-all-drains",
                    "notify_all returns only after to_wake.pop() returned None (all waiters woken)", pred_label="edge `to_wake.pop()` is None")
        ctx.must_follow(CV + "::notify_all", None, Call(re.escape(SB) + "::unpark"), "notify-all-unparks",
                        "every popped waiter is unparked", edge=variant_of_call(SEGQ + "pop", "Some"), edge_label="edge `pop()` is Some",
                        exits=lambda g: set(g.ret_points()) | ctx.an.sites(g, Call(SEGQ + "pop"), "may"))
    # wait / wait_timeout: Canceled arm: forget guard, unlock once, then panic
    for fn in ("wait", "wait_timeout"):
        fid = CV + "::" + fn
        ctx.order(fid, Call(re.escape(CV) + "::wait_impl"), TRIGGER, fn + "/wait-then-panic", "the cancel panic is raised only after wait_impl (mutex re-held, waiter dequeued or forwarded)")
        ctx.order(fid, Call(r"std::mem::forget"), TRIGGER, fn + "/forget-guard-before-panic",
                  "on Canceled the guard is forgotten (no poisoning, no second unlock by its destructor) before the panic", rule="R-PAIR")
        ctx.order(fid, Call(r"may::sync::mutex::unlock_mutex", transitive=False), TRIGGER, fn + "/unlock-before-panic",
                  "on Canceled the mutex is released before the panic (others can proceed)", rule="R-PAIR")
        ctx.guarded(fid, TRIGGER, lambda a: a.kind == "call" and a.truth is True and "eq" in (a.name or "").lower() or
                    (a.kind == "variant" and a.name == "Canceled") or (a.kind == "call" and a.truth is True and (a.name or "").endswith("::eq")),
                    fn + "/panic-only-on-canceled", "the cancel panic is raised only when wait_impl reported Canceled", pred_label="edge `ret == Err(Canceled)`")
    # ---- Barrier
    B = "may::sync::barrier::Barrier"
    BW = B + "::wait"
    BS = "may::sync::barrier::BarrierState"
    f = ctx.fn("R-ORDER", BW, "leader-resets-then-notifies")
    if f is not None:
        cnt_reset = Write(BS + ".count", where=lambda g, pt, n: n["s"] == "=" and n["rv"]["r"] == "use" and const_int(g, n["rv"]["o"]) == 0, label="count = 0")
        gen_bump = Write(BS + ".generation_id", label="generation_id bump")
        NA = Call(re.escape(CV) + "::notify_all")
        ctx.order(BW, gen_bump, NA, "generation-then-notify", "the leader bumps the generation before waking the followers (they re-check it)")
        ctx.order(BW, cnt_reset, NA, "reset-then-notify", "the leader resets the count before waking the followers (the barrier is reusable)")
        lt = lambda a: a.kind == "cmp" and a.op in ("Ge", "Gt") and all_fields(a.a)[-1:] == [BS + ".count"] or \
                       (a.kind == "cmp" and a.op in ("Le", "Lt") and all_fields(a.b)[-1:] == [BS + ".count"])
        def count_read(o):
            return (BS + ".count") in all_fields(o)
        ge = lambda a: (a.kind == "cmp" and a.op == "Ge" and count_read(a.a) and all_fields(a.b)[-1:] == [B + ".num_threads"]) or \
                       (a.kind == "cmp" and a.op == "Le" and count_read(a.b) and all_fields(a.a)[-1:] == [B + ".num_threads"])
        less = lambda a: (a.kind == "cmp" and a.op == "Lt" and count_read(a.a) and all_fields(a.b)[-1:] == [B + ".num_threads"]) or \
                         (a.kind == "cmp" and a.op == "Gt" and count_read(a.b) and all_fields(a.a)[-1:] == [B + ".num_threads"])
        ctx.guarded(BW, NA, ge, "leader-only-when-full", "only the arrival that makes count reach n releases the generation",
                    pred_label="edge `count >= num_threads`")
        ctx.guarded(BW, Call(re.escape(CV) + "::wait_while"), less, "follower-waits-when-not-full", "an arrival that does not complete the generation waits",
                    pred_label="edge `count < num_threads`")
        # is_leader: the constant `true` only behind the full edge - or the result carries the full test itself (`BarrierWaitResult(count >= n)`)
        def is_full_test(o):
            o = simplify(o)
            if o[0] != "bin": return False
            a0, b0 = simplify(o[2]), simplify(o[3])
            nt = lambda x: all_fields(x)[-1:] == [B + ".num_threads"]
            return (o[1] == "Ge" and count_read(a0) and nt(b0)) or (o[1] == "Le" and count_read(b0) and nt(a0))
        results = [(pt, f.node(pt)) for pt in f.points() if not f.is_term(pt) and f.node(pt).get("s") == "=" and f.node(pt)["rv"]["r"] == "agg" and
                   norm(f.node(pt)["rv"].get("adt") or "") == "may::sync::barrier::BarrierWaitResult"]
        if results and all(is_full_test(trace_operand(f, n["rv"]["ops"][0])) for _, n in results):
            ctx.ob("R-EXIT", BW, "one-leader", True, "is_leader() is the very test `count >= num_threads` of the arrival", f.where(results[0][0]))
        else:
            lead = Agg("may::sync::barrier::BarrierWaitResult", "BarrierWaitResult", where=lambda g, pt, n: const_int(g, n["rv"]["ops"][0]) == 1, label="BarrierWaitResult(true)")
            ctx.guarded(BW, lead, ge, "one-leader", "is_leader() is true only for the arrival that completed the generation", pred_label="edge `count >= num_threads`")
        ctx.order(BW, Call(re.escape(MX) + "::lock", transitive=False), Write(BS + ".count", label="count update"), "count-under-lock", "the arrival count is updated under the mutex")
        # the follower's predicate compares against the generation read under the lock
        cl = [g for g in ctx.prog.closures_of(f)]
        okc = False
        for g in cl:
            for pt in g.points():
                n = g.node(pt)
                if not g.is_term(pt) and n["s"] == "=" and n["rv"]["r"] == "bin" and n["rv"]["op"] == "Eq":
                    a = simplify(trace_operand(g, n["rv"]["a"])); b = simplify(trace_operand(g, n["rv"]["b"]))
                    fa = all_fields(a); fb = all_fields(b)
                    if (BS + ".generation_id") in fa + fb:
                        okc = True
        ctx.ob("R-EXIT", BW, "follower-waits-on-generation", okc, "the follower waits while the generation is unchanged" if okc else
               "the follower's wait predicate no longer compares the generation id", f.where())
    # ---- WaitGroup
    WG = "may::sync::wait_group::WaitGroup"
    IN = "may::sync::wait_group::Inner"
    D = "<may::sync::wait_group::WaitGroup as std::ops::Drop>::drop"
    f = ctx.fn("R-PAIR", D, "wg/drop-notifies-on-zero")
    if f is not None:
        zero = lambda a: a.kind == "cmp" and a.op == "Eq" and (is_const(0)(a.b) or is_const(0)(a.a))
        ctx.must_follow(D, None, Call(re.escape(CV) + "::notify_all"), "wg/drop-notifies-on-zero",
                        "the drop that brings the count to zero wakes the waiter", edge=zero, edge_label="edge `*count == 0`")
        ctx.order(D, Call(re.escape(MX) + "::lock", on=IN + ".count"), Call(re.escape(CV) + "::notify_all"), "wg/drop-under-lock",
                  "the count is decremented under the mutex that the waiter holds while checking it")
    f = ctx.fn("R-EXIT", WG + "::wait", "wg/wait-returns-on-zero")
    if f is not None:
        def cmp_const(op, v):
            return lambda a: a.kind == "cmp" and ((a.op == op and is_const(v)(a.b)) or (a.op == CMP_SWAP[op] and is_const(v)(a.a)))
        ctx.guarded(WG + "::wait", Ev("ret"), any_of(cmp_const("Eq", 1), cmp_const("Le", 0), cmp_const("Eq", 0)), "wg/wait-returns-on-zero",
                    "WaitGroup::wait returns only when it was the only handle (count == 1) or the count reached 0",
                    pred_label="edge `count == 1` / `!(count > 0)`")
        ctx.order(WG + "::wait", Call(r"std::mem::drop|<may::sync::wait_group::WaitGroup as std::ops::Drop>::drop|core::mem::drop"),
                  Call(re.escape(CV) + "::wait", transitive=False), "wg/own-count-released-first", "the waiter gives up its own count before waiting for the others")
    C = "<may::sync::wait_group::WaitGroup as std::clone::Clone>::clone"
    ctx.order(C, Call(re.escape(MX) + "::lock", on=IN + ".count"), Agg(WG, "WaitGroup"), "wg/clone-counts-under-lock", "a clone is counted (under the lock) before it exists")
    condvar_relock_keeps_guard(ctx)
    mutex_cancel_arm_rules(ctx)
    ctx.import_rules("C02", r"^(sync-blocker|blocker|fast-blocker|thread-park)/")
    condvar_frontend_rules(ctx)
    wait_group_rules(ctx)
    ctx.import_rules("C10", r"^no-panicking-instant-arithmetic$")
    shared.drops_do_not_block_unmasked(ctx)
    shared.handoff_not_recursive(ctx, "may::sync::condvar")
