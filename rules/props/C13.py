"""C13 — a panic stays in its coroutine; lock poisoning follows std (structural clauses)."""
from lib import *
from props import shared
from props.shared import *

EXPLANATION = ("R-ORDER run_coroutine's finished-arm (payload fetched and handed to the Join before trigger, trigger before recycling); "
               "R-EXIT poison::Flag::done sets the flag only for a fresh non-cancel panic; R-PAIR guards release also when poisoning and "
               "a poisoned lock still hands out its guard inside Err (map_result calls the constructor on both arms); scoped/select "
               "owners re-raise only when not already unwinding, Cqueue::check_panic marks is_panicking before re-raising and ignores "
               "Cancel; a recycled stack gets a fresh CoroutineLocal; only default-sized finished stacks are recycled")
EXPLANATION_2 = ('Condvar re-lock guard not dropped (a poisoned re-lock still holds the lock)')
NOT_DECIDED = "state of the pool/queues after a panic under load; generator's catch_unwind at the coroutine boundary (trusted)"
CONFIGS_QUICK = ["default"]

def check(ctx):
    R = "may::coroutine_impl::run_coroutine"
    GP = Call(r"generator::gen_impl::GeneratorObj::get_panic_data", transitive=False)
    TR = Call(r"may::join::Join::trigger", transitive=False)
    SPD = Call(r"may::join::Join::set_panic_data", transitive=False)
    ctx.order(R, GP, TR, "panic-read-before-trigger", "the panic payload is fetched before the join is triggered")
    ctx.must_follow(R, None, SPD, "panic-forwarded", "a panic payload is always handed to the Join before it is triggered",
                    edge=variant_of_call(r"generator::gen_impl::GeneratorObj::get_panic_data", "Some"), edge_label="edge `get_panic_data()` is Some",
                    exits=lambda g: ctx.an.sites(g, TR, "may"))
    ctx.order(R, TR, Call(r"may::coroutine_impl::Done::drop_coroutine", transitive=False), "trigger-before-recycle", "the join is triggered before the stack is recycled")
    ctx.must_follow(R, None, TR, "finished-always-triggers", "a coroutine that ended by a panic always triggers its join (the joiner never hangs)",
                    edge=variant_of_call(r"generator::gen_impl::GeneratorObj::resume", "None"), edge_label="edge `resume()` is None")
    # JoinHandle::join hands back the payload
    f = ctx.fn("R-ORDER", "may::join::JoinHandle::join", "payload-returned")
    if f is not None:
        # the fallback to the panic slot may sit in a closure (`ok_or_else(|| self.panic.take()..)`) or in a `match` arm
        ok = any(ctx.an.may(g, ao("take", "may::join::JoinHandle.panic")) or ctx.an.may(g, ao("take", "may::join::Join.panic")) for g in [f] + ctx.prog.closures_of(f))
        ctx.ob("R-ORDER", "may::join::JoinHandle::join", "payload-returned", ok, "join() falls back to the stored panic payload when there is no result" if ok else
               "join() no longer reads the panic slot", f.where())
    shared.poison_rules(ctx)
    # a child's panic re-raised by a scoped join must not detach the siblings that are still to be joined
    shared.scope_dtor_chain_rules(ctx)
    # guards release also when poisoning
    MD = "<may::sync::mutex::MutexGuard as std::ops::Drop>::drop"
    ctx.must_call(MD, Call(r"may::sync::mutex::Mutex::unlock"), "mutex-guard-drop-unlocks", "a MutexGuard dropped by a panic still releases the lock")
    ctx.order(MD, Call(r"may::sync::poison::Flag::done"), Call(r"may::sync::mutex::Mutex::unlock"), "mutex-poison-then-unlock", "poison is set before the lock is released")
    WD = "<may::sync::rwlock::RwLockWriteGuard as std::ops::Drop>::drop"
    ctx.must_call(WD, Call(r"may::sync::rwlock::RwLock::unlock"), "rw-guard-drop-unlocks", "a RwLockWriteGuard dropped by a panic still releases the lock")
    ctx.order(WD, Call(r"may::sync::poison::Flag::done"), Call(r"may::sync::rwlock::RwLock::unlock"), "rw-poison-then-unlock", "poison is set before the lock is released")
    RD = "<may::sync::rwlock::RwLockReadGuard as std::ops::Drop>::drop"
    ctx.never(RD, Call(r"may::sync::poison::Flag::done"), "read-guard-never-poisons", "read guards never poison")
    # map_result constructs the guard on both arms
    MR = "may::sync::poison::map_result"
    ctx.must_call(MR, Call(r"std::ops::FnOnce::call_once", transitive=False), "map-result-both-arms", "a poisoned lock still hands out its guard (inside the error), so the caller can recover and the lock is released on drop")
    FB = "may::sync::poison::Flag::borrow"
    ctx.guarded(FB, Agg(r"(std|core)::result::Result", "Err", transitive=False), call_true(r"may::sync::poison::Flag::get"), "borrow-err-only-if-poisoned",
                "a lock reports Poisoned only when the flag is set", pred_label="edge `self.get()` is true")
    # cqueue
    CP = "may::cqueue::Cqueue::check_panic"
    RU = Call(r"std::panic::resume_unwind", transitive=False)
    ctx.order(CP, atomic("store|swap", "may::cqueue::Cqueue.is_panicking"), RU, "cqueue/mark-then-reraise", "is_panicking is set before the payload is re-raised (the drain in Drop must not re-raise again)")
    ctx.order(CP, Call(r"may::join::JoinHandle::join", transitive=False), RU, "cqueue/join-then-reraise", "the payload re-raised in the poller is the joined selector's")
    ctx.must_call(CP, Call(r"may::join::JoinHandle::join", transitive=False), "cqueue/always-joins", "every Done event joins its selector, also after a panic was already reported (only the join tells that the selector has really ended)")
    f = ctx.fn("R-PAIR", CP, "cqueue/lock-released-before-join")
    if f is not None:
        js = ctx.an.sites(f, Call(r"may::join::JoinHandle::join", transitive=False), "must")
        gd = set(pt for pt in f.points() if f.is_term(pt) and f.node(pt)["t"] == "drop" and "may::sync::mutex::MutexGuard" in f.node(pt)["ty"])
        r = ctx.an.reach(f, [Point(0, 0)], blocked=gd)
        bad = [j for j in js if j in r]
        ctx.ob("R-PAIR", CP, "cqueue/lock-released-before-join", bool(gd) and bool(js) and not bad,
               "the selectors lock is released before the join / re-raise (an unwind holding it would poison it and the drain in Drop would abort)" if gd and js and not bad else
               "check_panic joins / re-raises while holding the selectors MutexGuard: the unwind poisons the mutex, Drop for Cqueue's lock().unwrap() then panics while unwinding (abort)", f.where((bad or sorted(js) or [None])[0]))
    ctx.guarded(CP, RU, lambda a: a.kind == "variant" and a.name == "Err", "cqueue/reraise-only-on-panic", "only a panicked selector is re-raised", pred_label="edge `join()` is Err")
    f = ctx.fn("R-EXIT", CP, "cqueue/cancel-not-reraised")
    if f is not None:
        # resume_unwind is not reachable through the `*err == Error::Cancel` true edge
        blk_t = ctx.edges(f, lambda a: a.kind == "call" and a.truth is True and (a.name or "").endswith("PartialEq>::eq"))
        ok = bool(blk_t)
        for (bi, tb, lab) in blk_t:
            r = ctx.an.reach(f, [Point(tb, 0)])
            if any(s in r for s in ctx.an.sites(f, RU, "may")): ok = False
        ctx.ob("R-EXIT", CP, "cqueue/cancel-not-reraised", ok, "a selector that ended by Cancel is not re-raised in the poller" if ok else
               "check_panic re-raises (or no longer tests) the Cancel payload of a cancelled selector", f.where())
    # stack reuse
    DC = "may::coroutine_impl::Done::drop_coroutine"
    ctx.guarded(DC, Call(r"may::pool::CoroutinePool::put", transitive=False), lambda a: a.kind == "cmp" and a.op == "Eq", "recycle-only-default-size",
                "only default-sized stacks go back to the pool", pred_label="edge `size == default`")
    ctx.must_call(DC, Call(r"(std|alloc)::boxed::Box::from_raw", transitive=False), "local-freed", "the finished coroutine's CoroutineLocal is taken back (freed) when the coroutine is destroyed")
    SI = "may::coroutine_impl::Builder::spawn_impl"
    ctx.must_call(SI, Call(r"may::local::CoroutineLocal::new", transitive=False), "fresh-local", "every spawn creates a fresh CoroutineLocal")
    ctx.must_follow(SI, Call(r"may::pool::CoroutinePool::get", transitive=False), Call(r"generator::gen_impl::GeneratorObj::init_code|generator::gen_impl::GeneratorImpl::init_code", transitive=False),
                    "pooled-stack-reinitialised", "a pooled stack gets the new closure before it can run")
    ctx.must_call(SI, Call(r"generator::gen_impl::GeneratorObj::set_local_data|generator::gen_impl::GeneratorImpl::set_local_data", transitive=False), "fresh-local-attached",
                  "the fresh CoroutineLocal is attached to the (possibly recycled) stack")
    shared.condvar_relock_keeps_guard(ctx)
    shared.forwarding_rules(ctx, [("may::join::Join::set_panic_data", AO + "store", "fwd/join-set-panic-data", "the panic payload handed to the Join is stored for the joiner")])
    # a pooled stack has the default size: spawn takes one from the pool only for a default-size request, any other size gets its own stack
    same_size = lambda a: a.kind == "cmp" and a.op == "Eq" and any(is_call_result(r"may::config::Config::get_stack_size")(x) for x in (a.a, a.b))
    other_size = lambda a: a.kind == "cmp" and a.op == "Ne" and any(is_call_result(r"may::config::Config::get_stack_size")(x) for x in (a.a, a.b))
    ctx.guarded(SI, Call(r"may::pool::CoroutinePool::get", transitive=False), same_size, "pooled-stack-only-for-default-size", "spawn_impl takes a pooled stack only when the requested size is the default size",
                pred_label="edge `stack_size == config().get_stack_size()`")
    ctx.guarded(SI, Call(r"generator::.*::new_opt", transitive=False), other_size, "own-stack-for-other-sizes", "a coroutine with another stack size gets a stack of exactly that size",
                pred_label="edge `stack_size == config().get_stack_size()` is false")
    ctx.import_rules("C14", r"^scope/join-after-body$|^scope/drop-joins$|^scope/remainder-parked-before-dtor$")
    ctx.import_rules("C12", r"^try_read/|^try-read")
    # Condvar::wait reports the poison exactly as the mutex has it (std semantics): Err(PoisonError(guard)) iff the flag is set
    CW = "may::sync::condvar::Condvar::wait"
    PG = r"may::sync::poison::Flag::get"
    ctx.guarded(CW, Agg(r"(std|core)::result::Result", "Err", transitive=False), call_true(PG), "condvar/wait/poisoned-only-if-flag", "Condvar::wait returns Err(PoisonError) only when the mutex is poisoned",
                rule="R-EXIT", pred_label="edge `poison.get()` is true")
    ctx.guarded(CW, Agg(r"(std|core)::result::Result", "Ok", transitive=False), call_false(PG), "condvar/wait/ok-only-if-not-poisoned", "Condvar::wait returns Ok(guard) only when the mutex is not poisoned",
                rule="R-EXIT", pred_label="edge `poison.get()` is false")
    f = ctx.fn("R-ENUM", "may::sync::poison::Flag::get", "poison/get-is-failed-nonzero")
    if f is not None:
        rv = simplify(trace_local(f, 0))
        ok = rv[0] == "bin" and rv[1] == "Ne" and is_const(0)(simplify(rv[3])) and is_call_result(A("load"))(simplify(rv[2]))
        ctx.ob("R-ENUM", "may::sync::poison::Flag::get", "poison/get-is-failed-nonzero", ok, "Flag::get() is `failed.load() != 0`" if ok else "Flag::get() is no longer `failed.load() != 0`", f.where())
