"""C01 — every spawned coroutine runs exactly once; join() reports its true outcome (structural clauses)."""
from lib import *
import witness
from props import shared
from props.shared import ao, atomic, A

EXPLANATION = ("Static rules over the drop-elaborated MIR of may/may_queue: (R-ORDER) result stored before join triggered, "
               "panic data before trigger before recycling, queue push before worker wake-up; (R-SLOT/R-EXIT) Join::wait "
               "registers-then-rechecks and returns only after observing state==false; (R-WHO) the per-worker run queues are "
               "touched only with the caller's own worker id; (R-MO) Join.state Release/Acquire. Decides these necessary "
               "conditions, not the behaviour over all schedules.")
NOT_DECIDED = "that the queues deliver every pushed coroutine (C03/C04), liveness, the generator crate's context switch"
CONFIGS_QUICK = ["default"]
NEEDS_TARGET = True
CONFIGS_THOROUGH = ["default", "nosteal", "crossbeam", "rand", "bare"]

def check(ctx):
    # run_coroutine: None arm
    R = "may::coroutine_impl::run_coroutine"
    ctx.order(R, Call(r"generator::gen_impl::GeneratorObj::get_panic_data"), Call(r"may::join::Join::trigger"),
              "panic-read-before-trigger", "the panic payload is fetched before the join is triggered")
    f = ctx.fn("R-ORDER", R, "panic-set-before-trigger")
    if f is not None:
        trig = ctx.an.sites(f, Call(r"may::join::Join::trigger"), "may")
        sp = ctx.an.sites(f, Call(r"may::join::Join::set_panic_data"), "may")
        if not trig or not sp:
            ctx.missing("R-ORDER", R, "panic-set-before-trigger", "trigger / set_panic_data not found in run_coroutine")
        else:
            starts = []
            for s in trig: starts.extend(ctx.an.after(f, s))
            r = ctx.an.reach(f, starts)
            bad = [s for s in sp if s in r]
            ctx.ob("R-ORDER", R, "panic-set-before-trigger", not bad,
                   "set_panic_data never follows Join::trigger" if not bad else
                   "Join::trigger can run before set_panic_data: a joiner woken by trigger would find neither result nor panic payload and report Cancel",
                   f.where(sorted(sp)[0]))
            # the Some(panic) edge must-call set_panic_data before trigger
            ctx.must_follow(R, None, Call(r"may::join::Join::set_panic_data"), "panic-forwarded",
                            "a panic payload found by get_panic_data is always handed to the Join",
                            edge=variant_of_call(r"generator::gen_impl::GeneratorObj::get_panic_data", "Some"),
                            edge_label="edge `get_panic_data()` is Some", exits=lambda g: sorted(ctx.an.sites(g, Call(r"may::join::Join::trigger"), "may")))
    ctx.order(R, Call(r"may::join::Join::trigger"), Call(r"may::coroutine_impl::Done::drop_coroutine"),
              "trigger-before-recycle", "a finished (panicked) coroutine triggers its join before its stack is recycled")
    ctx.guarded(R, Call(r"may::coroutine_impl::Done::drop_coroutine"), variant_of_call(r"generator::gen_impl::GeneratorObj::resume", "None"),
                "recycle-only-when-finished", "run_coroutine destroys the coroutine only when resume() reported it finished",
                pred_label="edge `resume()` is None")
    ctx.guarded(R, Call(r"may::coroutine_impl::EventSubscriber::subscribe"), variant_of_call(r"generator::gen_impl::GeneratorObj::resume", "Some"),
                "subscribe-on-yield", "a yielded coroutine is handed to the event it yielded with", pred_label="edge `resume()` is Some")

    # spawn closure: store result, then trigger
    sp = ctx.fn("R-ORDER", "may::coroutine_impl::Builder::spawn_impl", "result-then-trigger")
    if sp is not None:
        cls = [g for g in ctx.prog.closures_of(sp) if ctx.an.may(g, Call(r"may::join::Join::trigger", transitive=False))]
        if len(cls) != 1:
            ctx.missing("R-ORDER", sp.id, "result-then-trigger", "expected exactly one closure of spawn_impl that triggers the join, found %d" % len(cls))
        else:
            g = cls[0]
            ctx.order(g.id, ao("store"), Call(r"may::join::Join::trigger"), "result-then-trigger",
                      "the closure's return value is stored in the packet before the join is triggered")
            ctx.order(g.id, Call(r"std::ops::FnOnce::call_once"), ao("store"), "run-then-store",
                      "the user closure runs (once: FnOnce by value) before its result is stored")
            ctx.must_call(g.id, Call(r"may::join::Join::trigger"), "always-trigger", "a coroutine that returns always triggers its join")
    shared.join_rules(ctx)
    shared.worker_queue_confinement(ctx)
    shared.global_handoff(ctx)
    shared.coroutine_linearity_rules(ctx)
    shared.queue_commit_rules(ctx)
    if ctx.cfg == "default":
        witness.run_witness(ctx, "c01_spawn", ctx.prog.extract_info["target"])
        witness.run_witness(ctx, "c01_spawn_static", ctx.prog.extract_info["target"])
