"""C01 — every spawned coroutine runs exactly once; join() reports its true outcome (structural clauses)."""
from lib import *
import witness
from props import shared
from props.shared import ao, atomic, A

EXPLANATION = ("Static rules over the drop-elaborated MIR of may/may_queue: (R-ORDER) result stored before join triggered, "
               "panic data before trigger before recycling, queue push before worker wake-up; (R-SLOT/R-EXIT) Join::wait "
               "registers-then-rechecks and returns only after observing state==false; (R-WHO) the per-worker run queues are "
               "touched only with the caller's own worker id; (R-MO) Join.state Release/Acquire. Decides these necessary "
               "conditions, not the behaviour over all schedules.")
EXPLANATION_2 = ('scheduler: a worker leaves run_queued_tasks only behind `has_tasks() == false` after collect_global, collect_global returns only on an empty batch; Join state encoding (starts true, trigger stores false), park only behind the re-check after registering; the waiter taken out of Join.to_wake is unparked; mpsc block-boundary / packed tail-word / fast-bulk value rules of the global run queue; a worker returns to its selector after a bounded number of runs and posts its wakeup event (F32)')
NOT_DECIDED = "that the queues deliver every pushed coroutine (C03/C04), liveness, the generator crate's context switch"
CONFIGS_QUICK = ["default"]
NEEDS_TARGET = True
CONFIGS_THOROUGH = ["default", "nosteal", "crossbeam", "rand", "bare"]

def check(ctx):
    # run_coroutine: None arm
    R = "may::coroutine_impl::run_coroutine"
    ctx.order(R, Call(r"generator::gen_impl::GeneratorObj::get_panic_data"), Call(r"may::join::Join::trigger"),
              "panic-read-before-trigger", "the panic payload is fetched before the join is triggered")
    f = ctx.fn("R-ORDER", R, "panic-set-before-trigger")
    if f is not None:
        trig = ctx.an.sites(f, Call(r"may::join::Join::trigger"), "may")
        sp = ctx.an.sites(f, Call(r"may::join::Join::set_panic_data"), "may")
        if not trig or not sp:
            ctx.missing("R-ORDER", R, "panic-set-before-trigger", "trigger / set_panic_data not found in run_coroutine")
        else:
            starts = []
            for s in trig: starts.extend(ctx.an.after(f, s))
            r = ctx.an.reach(f, starts)
            bad = [s for s in sp if s in r]
            ctx.ob("R-ORDER", R, "panic-set-before-trigger", not bad,
                   "set_panic_data never follows Join::trigger" if not bad else
                   "Join::trigger can run before set_panic_data: a joiner woken by trigger would find neither result nor panic payload and report Cancel",
                   f.where(sorted(sp)[0]))
            # the Some(panic) edge must-call set_panic_data before trigger
            ctx.must_follow(R, None, Call(r"may::join::Join::set_panic_data"), "panic-forwarded",
                            "a panic payload found by get_panic_data is always handed to the Join",
                            edge=variant_of_call(r"generator::gen_impl::GeneratorObj::get_panic_data", "Some"),
                            edge_label="edge `get_panic_data()` is Some", exits=lambda g: sorted(ctx.an.sites(g, Call(r"may::join::Join::trigger"), "may")))
    ctx.order(R, Call(r"may::join::Join::trigger"), Call(r"may::coroutine_impl::Done::drop_coroutine"),
              "trigger-before-recycle", "a finished (panicked) coroutine triggers its join before its stack is recycled")
    ctx.guarded(R, Call(r"may::coroutine_impl::Done::drop_coroutine"), variant_of_call(r"generator::gen_impl::GeneratorObj::resume", "None"),
                "recycle-only-when-finished", "run_coroutine destroys the coroutine only when resume() reported it finished",
                pred_label="edge `resume()` is None")
    ctx.guarded(R, Call(r"may::coroutine_impl::EventSubscriber::subscribe"), variant_of_call(r"generator::gen_impl::GeneratorObj::resume", "Some"),
                "subscribe-on-yield", "a yielded coroutine is handed to the event it yielded with", pred_label="edge `resume()` is Some")

    # spawn closure: store result, then trigger
    sp = ctx.fn("R-ORDER", "may::coroutine_impl::Builder::spawn_impl", "result-then-trigger")
    if sp is not None:
        cls = [g for g in ctx.prog.closures_of(sp) if ctx.an.may(g, Call(r"may::join::Join::trigger", transitive=False))]
        if len(cls) != 1:
            ctx.missing("R-ORDER", sp.id, "result-then-trigger", "expected exactly one closure of spawn_impl that triggers the join, found %d" % len(cls))
        else:
            g = cls[0]
            ctx.order(g.id, ao("store"), Call(r"may::join::Join::trigger"), "result-then-trigger",
                      "the closure's return value is stored in the packet before the join is triggered")
            ctx.order(g.id, Call(r"std::ops::FnOnce::call_once"), ao("store"), "run-then-store",
                      "the user closure runs (once: FnOnce by value) before its result is stored")
            ctx.must_call(g.id, Call(r"may::join::Join::trigger"), "always-trigger", "a coroutine that returns always triggers its join")
    shared.join_rules(ctx)
    shared.worker_queue_confinement(ctx)
    shared.global_handoff(ctx)
    shared.coroutine_linearity_rules(ctx)
    shared.queue_commit_rules(ctx)
    if ctx.cfg == "default":
        witness.run_witness(ctx, "c01_spawn", ctx.prog.extract_info["target"])
        witness.run_witness(ctx, "c01_spawn_static", ctx.prog.extract_info["target"])
    worker_threads_rule(ctx)
    shared.check_cancel_consumes(ctx)
    shared.mpsc_fast_bulk_contiguous(ctx)
    shared.no_nested_run_under_guard(ctx)

INF = "inf"
def iter_len(f, o, depth=0):
    """abstract length of an iterator expression: a frozenset of symbolic terms whose minimum is the length (INF dropped)"""
    o = simplify(o)
    if depth > 12: return frozenset(["?depth"])
    if o[0] == "agg" and re.search(r"ops::(range::)?Range$", o[1] or ""):
        s0 = simplify(o[3][0]); e = simplify(o[3][1])
        if s0[0] == "const" and str(s0[2]) == "0": return frozenset([fmt_origin(e)])
        return frozenset(["?range-start"])
    if o[0] == "call":
        t = f.term(o[1]); nm = (o[2] or "").rsplit("::", 1)[-1]
        args = [trace_operand(f, a) for a in t["args"]]
        if nm in ("into_iter", "iter", "iter_mut", "enumerate", "map", "by_ref", "inspect", "rev", "cloned", "copied", "peekable", "fuse") and args:
            return iter_len(f, args[0], depth + 1)
        if nm == "cycle": return frozenset([INF])
        if nm == "zip" and len(args) == 2: return iter_len(f, args[0], depth + 1) | iter_len(f, args[1], depth + 1)
        if nm == "take" and len(args) == 2: return iter_len(f, args[0], depth + 1) | frozenset([fmt_origin(simplify(args[1]))])
        return frozenset([fmt_origin(o)])
    if o[0] in ("ref", "deref"): return iter_len(f, o[1], depth + 1)
    return frozenset([fmt_origin(o)])

def worker_threads_rule(ctx):
    """(seed C01-4) Scheduler::new(workers) builds `workers` run queues and schedule_global round-robins over all of them, but only
    worker thread i drains global queue i: init_scheduler must start exactly one worker thread per queue."""
    IS = "may::scheduler::init_scheduler"; inst = "workers/one-thread-per-queue"
    f = ctx.fn("R-NUM", IS, inst)
    if f is None: return
    an = ctx.an
    news = sorted(an.sites(f, Call(r"may::scheduler::Scheduler::new", transitive=False), "must"))
    spawns = [s for s in sorted(an.sites(f, Call(r"std::thread::(spawn|Builder::spawn)", transitive=False), "must"))
              if s in an.reach(f, an.after(f, s))]       # the spawn sits in a loop
    if not news or not spawns:
        ctx.missing("R-NUM", IS, inst, "Scheduler::new sites=%d, thread::spawn sites inside a loop=%d" % (len(news), len(spawns))); return
    W = fmt_origin(simplify(trace_operand(f, f.node(news[0])["args"][0])))
    bad = None; seen = None
    for s in spawns:
        nx = [p for p in f.points() if f.is_term(p) and f.node(p)["t"] == "call" and (callee_name(f.node(p)) or "").endswith("::next") and s in an.reach(f, an.after(f, p))
              and p in an.reach(f, an.after(f, s))]
        if len(nx) != 1:
            bad = (s, "the loop around thread::spawn is not driven by exactly one Iterator::next (found %d): the number of worker threads is not decided" % len(nx)); break
        recv = simplify(trace_operand(f, f.node(nx[0])["args"][0]))
        while recv[0] in ("ref", "deref"): recv = simplify(recv[1])
        ln = iter_len(f, recv) - frozenset([INF])
        seen = sorted(ln)
        if ln != frozenset([W]):
            bad = (s, "the loop that starts the worker threads runs min(%s) times, Scheduler::new was given %s" % (", ".join(sorted(ln)) or "inf", W)); break
    ctx.ob("R-NUM", IS, inst, bad is None,
           "init_scheduler starts exactly `%s` worker threads, the number of queues given to Scheduler::new" % W if bad is None else
           "%s: a worker id without a thread has a global queue that nobody drains - coroutines routed to it never run" % bad[1], f.where(bad[0] if bad else spawns[0]))
    shared.scheduler_drain_rules(ctx)
    ctx.import_rules("C02", r"^atomic-option/")
    ctx.import_rules("C13", r"^fwd/join-set-panic-data|^pooled-stack-only-for-default-size|^own-stack-for-other-sizes")
    shared.worker_run_budget_rules(ctx)
    shared.yield_api_forwarding(ctx)
