"""C18 — I/O timeouts and cancel of blocked I/O are exact; the socket stays usable (structural clauses)."""
from lib import *
from props import shared, numrules
from props.shared import *

EXPLANATION = ("R-NUM encoding of the configured timeout (shared with C08); R-SIB takers of EventData.co (enumerated: every function "
               "that takes the coroutine out of the io slot) also take and disarm the armed timer before the coroutine can run again; "
               "R-EXIT timeout_handler resumes with TimedOut only behind a non-null event_data and a taken coroutine; R-PAIR Drop for "
               "IoData disarms, deregisters, then retires the EventData (delayed free), the retired data is freed by the owning "
               "selector after the ready list; R-SIB cancel registration of the io sources (publish, register, re-check)")
EXPLANATION_2 = ("read/write timeout direction agreement (setters store their argument into their own direction on success paths, getters read it, try_clone inherits both, every io source is constructed with its own direction's timeout); result-consumption rules imported from C15/C17; select() returns a fresh time to the next io timer (F29); set_io before store_co (F34, known finding)")
NOT_DECIDED = "elapsed time; data-vs-deadline races in the kernel; the non-atomic timer RefCell / Entry fields touched from several threads"
CONFIGS_QUICK = ["default"]
CONFIGS_THOROUGH = ["default", "nosteal"]

ED = "may::io::sys::EventData"
SEL = "may::io::sys::select::Selector"
C = "may::cancel::CancelImpl"
ES = "may::coroutine_impl::EventSource"
RESUME = Call(r"may::scheduler::Scheduler::(schedule|schedule_with_id|schedule_global)|may::coroutine_impl::run_coroutine", transitive=False)
TIMER_ACCESS = Call(r"(std|core)::cell::RefCell::borrow_mut", on=ED + ".timer", transitive=True)

def check(ctx):
    an = ctx.an
    if ctx.prog.fn("may::io::sys::timeout_handler") is None:
        ctx.ob("R-SIB", ED, "io-timeout-feature", True, "io_timeout feature is off in this configuration: no io timers exist", None, nontrivial=False)
        return
    numrules.duration_rules(ctx)
    # ---- takers of EventData.co
    takers = []
    for f in sorted(ctx.prog.fns.values(), key=lambda x: x.id):
        if an.sites(f, Call(AO + "take", on=ED + ".co", transitive=False), "must"):
            takers.append(f)
    if len(takers) < 5:
        ctx.missing("R-SIB", ED + ".co", "takers", "expected ≥5 functions taking EventData.co, found %d" % len(takers))
    for f in takers:
        ctx.fns_touched.add(f.id)
        base = f.id.split("::{closure#")[0]
        take = an.sites(f, Call(AO + "take", on=ED + ".co", transitive=False), "must")
        res = an.sites(f, RESUME, "must")
        tm = an.sites(f, TIMER_ACCESS, "must")
        if not res:
            ctx.missing("R-SIB", f.id, "taker/resumes", "%s takes EventData.co but no resume call was found" % f.id); continue
        if not tm:
            ctx.ob("R-SIB", f.id, "taker/disarms-timer", False,
                   "%s takes the blocked coroutine out of EventData.co and resumes it but leaves the io timer armed: the stale timer later times out whatever coroutine is "
                   "blocked on that socket then (too early)" % f.id, f.where(sorted(take)[0]))
            continue
        # the timer is taken before the coroutine is resumed
        tbbs = set(t0.bb for t0 in take)
        some_edges = ctx.edges(f, lambda a: a.kind == "variant" and a.name == "Some" and simplify(a.origin)[0] == "call" and simplify(a.origin)[1] in tbbs)
        starts = [Point(tb, 0) for _, tb, _ in some_edges] or [q for s0 in take for q in an.after(f, s0)]
        r = an.reach(f, starts, blocked=tm | take)
        bad = [x for x in res if x in r]
        ctx.ob("R-SIB", f.id, "taker/disarms-timer", not bad, "%s takes the armed timer before it resumes the coroutine" % f.id if not bad else
               "%s can resume the coroutine without having taken the armed io timer" % f.id, f.where(sorted(tm)[0]))
        if base == "may::io::sys::timeout_handler":
            # the timer that fired is the handle being taken; only the one that took the coroutine may touch the timer cell
            r5 = an.reach(f, [Point(0, 0)], blocked=take)
            bad5 = [x for x in an.sites(f, Call(r"(std|core)::cell::RefCell::borrow_mut", on=ED + ".timer", transitive=False), "must") if x in r5]
            ctx.ob("R-SIB", f.id, "handler/co-before-timer-cell", not bad5, "timeout_handler takes the coroutine before it touches the timer cell (another taker may be using the cell)" if not bad5 else
                   "timeout_handler touches EventData.timer before it owns the coroutine: it races with a taker on another thread (RefCell already borrowed)", f.where())
            continue
        # the taken handle is disarmed by nulling its event_data (remove() alone is a no-op on the newest entry)
        null = Call(r"may_queue::mpsc_list_v1::Entry::with_mut_data", transitive=True)
        ok = bool(an.sites(f, null, "may"))
        ctx.ob("R-SIB", f.id, "taker/nulls-event-data", ok, "%s marks the taken timer entry as dead (event_data = null) so that its expiry does nothing" % f.id if ok else
               "%s takes the timer handle but does not null its event_data: Entry::remove() does nothing for the newest entry of an interval list, so the entry stays armed and "
               "fails a later operation on the socket early" % f.id, f.where(sorted(tm)[0]))
        if ok:
            for g in [f] + ctx.prog.closures_of(f):
                wm = an.sites(g, Call(r"may_queue::mpsc_list_v1::Entry::with_mut_data", transitive=False), "must")
                rm = an.sites(g, Call(r"may_queue::mpsc_list_v1::Entry::remove", transitive=False), "may")
                if rm:
                    # every body that unlinks a taken entry nulls it first (a body that only unlinks leaves the newest entry of a list armed)
                    r2 = an.reach(g, [Point(0, 0)], blocked=wm)
                    bad2 = [x for x in rm if x in r2]
                    ctx.ob("R-SIB", f.id, "taker/null-then-remove", bool(wm) and not bad2, "the entry is nulled before it is unlinked/dropped" if wm and not bad2 else
                           "%s unlinks a taken timer entry without nulling its event_data first: Entry::remove() does nothing for the newest entry of an interval list, the entry stays armed and its "
                           "expiry fails a later operation on the socket early" % g.id, g.where(sorted(wm or rm)[0]))
    # del_fd
    DF = SEL + "::del_fd"
    ctx.order(DF, TIMER_ACCESS, Call(r"nix::sys::epoll::Epoll::delete", transitive=False), "del-fd/disarm-then-deregister", "a closed socket's timer is disarmed before the fd is deregistered")
    ctx.order(DF, Call(r"nix::sys::epoll::Epoll::delete", transitive=False), Call(MQ_MPSC + "push", transitive=False), "del-fd/deregister-then-retire",
              "the EventData is retired (delayed free) only after epoll no longer reports it")
    ctx.must_call(DF, Call(MQ_MPSC + "push", transitive=False), "del-fd/retires", "the EventData of a closed socket is handed to the owning selector for the delayed free")
    ctx.must_call("<may::io::sys::IoData as std::ops::Drop>::drop", Call(r"may::io::sys::del_socket|" + re.escape(DF)), "iodata-drop-deregisters", "dropping the io handle deregisters it")
    f = ctx.fn("R-SIB", DF, "del-fd/nulls-event-data")
    if f is not None:
        ok = bool(an.sites(f, Call(r"may_queue::mpsc_list_v1::Entry::with_mut_data", transitive=True), "may"))
        ctx.ob("R-SIB", DF, "del-fd/nulls-event-data", ok, "del_fd marks the armed timer entry dead" if ok else "del_fd no longer nulls the armed timer entry: its expiry dereferences a freed EventData", f.where())
    # free after ready list
    SS = SEL + "::select"
    # "free the retired EventData": the drain of SingleSelector.free_ev, through the free_unused_event_data helper or directly
    FREE_EV = Call(r"may_queue::mpsc::Queue::(bulk_pop|pop)", on="may::io::sys::select::SingleSelector.free_ev")
    ctx.order(SS, Call(re.escape("may::scheduler::Scheduler::run_queued_tasks"), transitive=False), FREE_EV,
              "select/free-after-ready-list", "retired EventData are freed only after the ready list of this epoll_wait was processed (an event may still point to them)")
    ctx.order(SS, FREE_EV, Call(r"may::timeout_list::TimeOutList::schedule_timer", transitive=False),
              "select/timers-after-free", "io timers run on the selector thread after the ready list")
    # ---- timeout_handler
    TH = "may::io::sys::timeout_handler"
    nn = call_false(r"(std|core)::ptr::(mut_ptr::|const_ptr::)?is_null")
    ctx.guarded(TH, Call(r"may::yield_now::set_co_para", transitive=False), nn, "handler/only-if-armed", "a nulled (disarmed) timer entry does nothing when it expires", pred_label="edge `event_data.is_null()` is false")
    ctx.guarded(TH, Call(r"may::yield_now::set_co_para", transitive=False), variant_of_call(AO + "take", "Some"), "handler/only-if-coroutine-taken",
                "TimedOut is injected only into a coroutine taken from the slot", pred_label="edge `co.take()` is Some")
    ctx.order(TH, Call(r"may::yield_now::set_co_para", transitive=False), Call(r"may::coroutine_impl::run_coroutine", transitive=False), "handler/inject-then-run", "the result is set before the coroutine runs")
    f = ctx.fn("R-EXIT", TH, "handler/injects-timedout")
    if f is not None:
        ok = False
        for pt in an.sites(f, Call(r"std::io::Error::new", transitive=False), "must"):
            o = simplify(trace_operand(f, f.node(pt)["args"][0]))
            ok = (o[0] == "agg" and o[2] == "TimedOut") or (o[0] == "const" and "TimedOut" in (o[1] or ""))
        ctx.ob("R-EXIT", TH, "handler/injects-timedout", ok, "the io timeout handler injects ErrorKind::TimedOut" if ok else "the io timeout handler no longer injects ErrorKind::TimedOut", f.where())
    # add_io_timer: arms on the owning selector's list and wakes it when the expiry is new
    AT = SEL + "::add_io_timer"
    f = ctx.fn("R-ORDER", AT, "add-io-timer")
    if f is not None:
        ctx.must_call(AT, Call(r"(std|core)::cell::RefMut.*::replace|(std|core)::option::Option::replace|.*::replace", transitive=False), "add-io-timer/stores-handle", "the handle of the armed timer is kept in EventData.timer (so that takers can disarm it)")
        ctx.must_follow(AT, None, Call(re.escape(SEL) + "::wakeup", transitive=False), "add-io-timer/wakes-selector-on-new-expiry", "a new earliest expiry wakes the selector so that it recomputes its epoll timeout",
                        edge=lambda a: a.kind == "truth" and a.truth is True and a.origin[0] == "field" and a.origin[2] == "(tuple)" and a.origin[3] == "1", edge_label="edge `b_new` is true")
    # ---- cancel registration of the io sources (publish, register, re-check) — shared shape with C09
    n = 0
    for im in ctx.prog.impls_of(ES):
        adt = norm(im.get("self_adt") or im["self_ty"])
        if "::io::sys::" not in adt: continue
        sub = [norm(m["id"]) for m in im["methods"] if m["n"] == "subscribe"]
        f = ctx.prog.fn(sub[0]) if sub else None
        if f is None: continue
        reg = Call(re.escape(C) + "::set_io", transitive=False)
        if not an.sites(f, reg, "must"): continue
        n += 1
        short = adt.rsplit("::", 1)[-1]
        shared.slot_waiter(ctx, f.id, reg, Call(re.escape(C) + "::is_canceled", transitive=False), call_true(re.escape(C) + "::is_canceled"),
                           Call(re.escape(C) + "::cancel", transitive=False), "io-cancel-registration:" + short, "%s::subscribe" % short, "is_canceled() is true")
        if shared.recheck_takes_own_slot(ctx, f):
            ctx.ob("R-SIB", f.id, "io-publish-before-register:" + short, True, "the re-check takes the coroutine out of the io slot itself: the registration does not have to follow the publication", f.where(), nontrivial=False)
        else: ctx.order(f.id, Call(AO + "store", on=ED + ".co", transitive=True), reg, "io-publish-before-register:" + short,
                  "%s::subscribe publishes the coroutine before it registers the io with the cancel data (cancel consumes the registration first and then looks for the coroutine)" % short, rule="R-SIB")
    if n < 9 and any(k.startswith("<may::io::sys::cancel::CancelIoImpl as ") for k in ctx.prog.fns):
        ctx.missing("R-SIB", ES, "io-cancel-registration", "expected ≥9 cancellable io sources, found %d" % n)
    # CancelIoImpl::cancel consumes the registration, then the coroutine
    for fid in [k for k in ctx.prog.fns if k == "<may::io::sys::cancel::CancelIoImpl as may::cancel::CancelIo>::cancel"]:
        ctx.order(fid, Call(AO + "take", on="may::io::sys::cancel::CancelIoImpl.0", transitive=False), Call(AO + "take", on=ED + ".co", transitive=False), "io-cancel/registration-then-co",
                  "io cancel takes its registration, then the blocked coroutine")
        g0 = ctx.prog.fn(fid)
        def co_taken(a, g0=g0):
            # the Some edge of the take on EventData.co (not of the take on the registration slot)
            if not (a.kind == "variant" and a.name == "Some"): return False
            o = simplify(a.origin)
            while o[0] in ("field", "downcast", "deref", "ref"): o = simplify(o[1])
            return o[0] == "call" and re.fullmatch(AO + "take", o[2] or "") is not None and receiver_leaf(g0, g0.term(o[1])) == ED + ".co"
        ctx.guarded(fid, Agg(r"(std|core)::option::Option", "Some", transitive=False), co_taken, "io-cancel/some-only-if-resumed",
                    "io cancel reports success only when it really took and resumed the coroutine (otherwise the park path is tried)", pred_label="edge `co.take()` is Some")

    # ---- arm/publish: a subscriber that arms an io timer publishes through store_co (deadline re-check)
    arm = Call(re.escape(SEL) + "::add_io_timer", transitive=False)
    n_arm = 0
    for im in ctx.prog.impls_of(ES):
        adt = norm(im.get("self_adt") or im["self_ty"])
        if "::io::sys::" not in adt: continue
        sub = [norm(m["id"]) for m in im["methods"] if m["n"] == "subscribe"]
        f = ctx.prog.fn(sub[0]) if sub else None
        if f is None or not an.sites(f, arm, "must"): continue
        n_arm += 1
        short = adt.rsplit("::", 1)[-1]
        raw = an.sites(f, Call(AO + "store", on=ED + ".co", transitive=False), "must")
        via = an.sites(f, Call(re.escape(ED) + "::store_co", transitive=False), "must")
        ctx.ob("R-ORDER", f.id, "arm-publish/uses-store-co:" + short, bool(via) and not raw,
               "%s::subscribe arms a timer and publishes the coroutine through EventData::store_co (which re-checks the deadline)" % short if via and not raw else
               "%s::subscribe arms an io timer but publishes the coroutine with a raw co.store: if the timer fires before the store (subscriber stalled ≥ timeout) the handler "
               "finds the slot empty and the timeout is lost for good" % short, f.where(sorted(raw or via or [None])[0] if (raw or via) else None))
        r9 = an.reach(f, [q for s0 in via for q in an.after(f, s0)])
        late = [x for x in an.sites(f, arm, "must") if x in r9]
        ctx.ob("R-ORDER", f.id, "arm-publish/arm-then-publish:" + short, not late, "the timer is armed (and its deadline recorded) before the coroutine is published" if not late else
               "%s::subscribe arms the timer after publishing the coroutine: the already resumed coroutine may be touching the timer cell" % short, f.where((late or [None])[0]) if late else f.where())
    if n_arm < 10:
        ctx.missing("R-ORDER", ES, "arm-publish", "expected ≥10 io subscribers that arm a timer, found %d" % n_arm)
    SC = ED + "::store_co"
    f = ctx.fn("R-ORDER", SC, "arm-publish/store-co")
    if f is not None:
        ctx.must_follow(SC, Call(AO + "store", on=ED + ".co", transitive=False), Call(A("(swap|load)"), on=ED + ".deadline", transitive=False), "arm-publish/recheck-after-publish",
                        "after publishing, store_co looks at the deadline recorded when the timer was armed")
        # (seed C18-3) the recorded deadline belongs to ONE operation: store_co consumes it (swap(0) / store(0)) on every path, so it can
        # never make a later operation on the same socket - possibly one without any timeout - time out
        ctx.must_follow(SC, Call(AO + "store", on=ED + ".co", transitive=False), Call(A("(swap|store|take)"), on=ED + ".deadline", transitive=False), "arm-publish/deadline-consumed",
                        "store_co clears the deadline it looks at: a stale deadline would time out later operations on the socket at once")
        ge = deadline_passed_pred(ctx, f)
        ctx.guarded(SC, Call(r"may::yield_now::set_co_para", transitive=False), ge, "arm-publish/timedout-only-after-deadline", "store_co delivers TimedOut only when the deadline has passed",
                    rule="R-EXIT", pred_label="edge `now() >= deadline`")
        ctx.guarded(SC, Call(r"may::yield_now::set_co_para", transitive=False), variant_of_call(AO + "take", "Some"), "arm-publish/timedout-only-if-retaken",
                    "…and only into a coroutine it took back out of the slot", rule="R-EXIT", pred_label="edge `co.take()` is Some")
    AT2 = SEL + "::add_io_timer"
    ctx.order(AT2, Call(A("store"), on=ED + ".deadline", transitive=False), Call(r"may::timeout_list::TimeOutList::add_timer", transitive=False), "arm-publish/deadline-before-arm",
              "the deadline is recorded before the timer is armed (deadline ≤ the timer's expiry, so a fired timer implies a passed deadline)")
    # ---- F11: timer entries are unlinked / dropped only on the selector thread that owns the list
    RT = "may::io::sys::remove_timer"
    ctx.who_may_call(r"may_queue::mpsc_list_v1::Entry::remove", {"may::timeout_list::TimerThread::run", RT, SEL + "::select"}, "entry-remove-callers",
                     "Entry::remove (consumer-only: non-atomic refs, neighbour links) is called only by the timer thread for its own list, by the selector loop for its own list, and by remove_timer", min_callers=2)
    ctx.who_may_call(re.escape(RT), {SEL + "::select", ED + "::del_timer"}, "remove-timer-callers", "remove_timer runs only in the selector loop or in del_timer behind the owner-thread test", min_callers=2)
    DT = ED + "::del_timer"
    def owner_edge(a):
        if a.kind != "cmp" or a.op != "Eq": return False
        def is_wid(o):
            o = simplify(o)
            return o[0] == "call" and o[2] == "std::thread::LocalKey::get"
        return is_wid(a.a) or is_wid(a.b)
    ctx.guarded(DT, Call(re.escape(RT), transitive=False), owner_edge, "del-timer/remove-only-on-owner-thread",
                "del_timer unlinks the entry itself only when it runs on the selector thread that owns the list (WORKER_ID == fd % workers)", pred_label="edge `WORKER_ID.get() == id`")
    ctx.must_follow(DT, None, [Call(re.escape(RT), transitive=False), Call(re.escape(SEL) + "::del_io_timer", transitive=False)], "del-timer/handle-never-dropped-on-foreign-thread",
                    "a taken timer handle is either removed on the owner thread or handed to it (never dropped on a foreign thread)",
                    edge=variant_of_call(r"(std|core)::option::Option::take", "Some"), edge_label="edge `timer.take()` is Some")
    f = ctx.fn("R-WHO", DT, "del-timer/owner-is-fd-mod-workers")
    if f is not None:
        ok = False
        for pt in f.points():
            n = f.node(pt)
            if not f.is_term(pt) and n["s"] == "=" and n["rv"]["r"] == "bin" and n["rv"]["op"] == "Rem":
                a = simplify(trace_operand(f, n["rv"]["a"])); b = simplify(trace_operand(f, n["rv"]["b"]))
                ok = (ED + ".fd") in all_fields(a) and "may::scheduler::Scheduler.workers" in all_fields(b)
        ctx.ob("R-WHO", DT, "del-timer/owner-is-fd-mod-workers", ok, "the owning selector is fd % workers, as in add_io_timer" if ok else "del_timer computes the owning selector differently from add_io_timer (fd % workers)", f.where())
    ctx.order(SEL + "::select", Call(re.escape(RT), transitive=False), Call(r"may::scheduler::Scheduler::schedule_with_id|may::coroutine_impl::run_coroutine", transitive=False),
              "select/remove-then-schedule-handed-over", "a handed-over coroutine is scheduled only after its timer was removed", need_b=True) if False else None
    shared.injected_kinds(ctx)
    # dependency: an io timeout result that was injected is consumed by the woken front-end before it returns (rules owned by C15 / C17)
    ctx.import_rules("C15", r"^consume-after:")
    ctx.import_rules("C17", r"^done/result-after-resume")
    shared.io_timeout_direction_rules(ctx)
    ctx.import_rules("C17", r"^fwd/|^del-io-timer/|^co-io-result/")
    shared.selector_serves_timeout_wakeups(ctx)
    ctx.import_rules("C17", r"^drop-order/")
    shared.sleep_relative_to_fresh_clock(ctx)
    shared.cancel_registered_before_publish(ctx, only=r"may::io::")
    shared.io_timer_runs_from_first_block(ctx)
