"""C05 — Mutex: mutual exclusion and no stranded waiter (structural clauses)."""
from lib import *
import witness
from props import shared
from props.shared import *

EXPLANATION = ("R-EXIT acquire evidence (MutexGuard::new only behind CAS-success / park-Ok / unparked-while-cancel-disabled), "
               "R-ORDER enqueue-before-count, R-PAIR unlock hands over on cnt>1 and guard drop always unlocks, R-SIB forwarding "
               "handshake on the cancel arm (waiter and waker side), R-MO on cnt, R-API the only dereferences of Mutex.data")
EXPLANATION_2 = ('Mutex::lock cancel arm: Cancel panic only with the cancel enabled, enabled cancel stops the waiter, a received hand-off (park Ok) goes straight to the guard; unlock_mutex forwards; blocker wiring imported from C02; the hand-off of an abandoned waiter does not recurse (F28, known finding)')
NOT_DECIDED = "freedom from stranded waiters over all interleavings; eventual return of lock(); fairness"
CONFIGS_QUICK = ["default"]
NEEDS_TARGET = True

M = "may::sync::mutex::Mutex"
G = "may::sync::mutex::MutexGuard"

def park_err(a):
    return variant_of_call(re.escape(SB) + "::park", "Err")(a)

def check(ctx):
    # try_lock: guard only behind CAS success
    cas = A("compare_exchange(_weak)?")
    ctx.guarded(M + "::try_lock", Call(re.escape(G) + "::new"), variant_of_call(cas, "Ok"), "guard-behind-cas",
                "try_lock hands out a guard only when its CAS(0→1) on cnt succeeded", pred_label="edge `compare_exchange` is Ok")
    f = ctx.fn("R-EXIT", M + "::try_lock", "cas-0-1")
    if f is not None:
        ok = False; site = None
        for pt in ctx.an.sites(f, Call(cas, on=M + ".cnt"), "must"):
            t = f.node(pt); site = pt
            ok = const_int(f, t["args"][1]) == 0 and const_int(f, t["args"][2]) == 1
        ctx.ob("R-EXIT", M + "::try_lock", "cas-0-1", ok, "try_lock's CAS is 0→1 (only a free lock is taken)" if ok else
               "try_lock's CAS is no longer 0→1: it can succeed while the lock is held", f.where(site))
    ctx.never(M + "::try_lock", SB_PARK, "never-blocks", "try_lock never blocks")
    # lock: guard only behind try_lock Ok / park Ok / (Canceled ∧ unparked ∧ cancel disabled)
    L = M + "::lock"
    f = ctx.fn("R-EXIT", L, "acquire-evidence")
    if f is not None:
        iu_true = call_true(re.escape(SB) + "::is_unparked")
        tr_true = call_true(re.escape(SB) + "::take_release")
        ctx.guarded(L, Call(re.escape(G) + "::new", transitive=False),
                    any_of(variant_of_call(re.escape(SB) + "::park", "Ok"), iu_true), "acquire-evidence",
                    "lock() constructs the guard only after a hand-off: park returned Ok, or the waiter was unparked (cancel disabled)",
                    pred_label="edge `park()` is Ok / `is_unparked()` is true")
        # return Ok(g) of the fast path only behind try_lock Ok
        # enqueue before count
    ctx.order(L, Call(MQ_MPSC + "push", on=M + ".to_wake"), atomic("fetch_add", M + ".cnt"), "enqueue-then-count",
              "lock() enqueues its blocker before it increments cnt (the unlocker that sees cnt>1 must find it)")
    ctx.order(L, atomic("fetch_add", M + ".cnt"), SB_PARK, "count-then-park", "lock() announces itself before parking")
    ctx.must_follow(L, None, Call(re.escape(M) + "::unpark_one"), "first-grab-self-wake",
                    "a lock() whose increment found cnt == 0 owns the lock and wakes the head waiter", edge=
                    lambda a: a.kind == "cmp" and a.op == "Eq" and (is_call_result(A("fetch_add"))(a.a) or is_call_result(A("fetch_add"))(a.b)),
                    edge_label="edge `cnt.fetch_add(1) == 0`", exits=lambda g: ctx.an.sites(g, SB_PARK, "may"))
    # unlock hands over when waiters exist
    U = M + "::unlock"
    ctx.must_follow(U, None, Call(re.escape(M) + "::unpark_one"), "handover",
                    "unlock() with waiters present (cnt > 1) pops one and unparks it", edge=
                    lambda a: a.kind == "cmp" and a.op == "Gt" and is_call_result(A("fetch_sub"))(a.a) and is_const(1)(a.b) or
                              (a.kind == "cmp" and a.op == "Lt" and is_call_result(A("fetch_sub"))(a.b) and is_const(1)(a.a)),
                    edge_label="edge `cnt.fetch_sub(1) > 1`")
    ctx.must_call(U, atomic("fetch_sub", M + ".cnt"), "always-decrement", "unlock always releases one count")
    ctx.order(U, atomic("fetch_sub", M + ".cnt"), Call(MQ_MPSC + "pop", on=M + ".to_wake"), "count-then-pop",
              "unlock decrements before it pops (the popper is the single current holder)")
    # guard drop
    D = "<may::sync::mutex::MutexGuard as std::ops::Drop>::drop"
    ctx.must_call(D, Call(re.escape(M) + "::unlock"), "drop-unlocks", "dropping the guard always unlocks (also when poisoning)")
    ctx.order(D, Call(r"may::sync::poison::Flag::done"), Call(re.escape(M) + "::unlock"), "poison-then-unlock",
              "the poison flag is set before the lock is released (the next holder sees it)")
    # handshake
    handshake_waiter(ctx, L, Call(re.escape(M) + "::unlock"), "handshake", "lock", park_err, exits_kind="trigger+park")
    handshake_waker(ctx, M + "::unpark_one", Call(re.escape(M) + "::unlock"), "waker", "lock")
    syncblocker_rules(ctx)
    shared.wakes_dequeued_waiter(ctx, M)
    shared.mpsc_pop_reports_empty_only_when_empty(ctx)     # the waiter queue itself: unlock's pop must find the registered waiter
    # the waiter set consumer side: pop only by the holder
    ctx.who_may_call(MQ_MPSC + "pop", None, "x", "x") if False else None
    pops = []
    for f in ctx.prog.fns.values():
        for pt in f.points():
            if f.is_term(pt) and direct_match(f, pt, Call(MQ_MPSC + "(pop|bulk_pop|peek)", on=M + ".to_wake")):
                pops.append((f, pt))
    allowed = {L, U}
    bad = [(f, pt) for f, pt in pops if f.id not in allowed]
    if not pops:
        ctx.missing("R-WHO", M + ".to_wake", "single-consumer", "no pop on Mutex.to_wake found")
    else:
        ctx.ob("R-WHO", M + ".to_wake", "single-consumer", not bad,
               "the single-consumer side of Mutex.to_wake is used only by the lock holder (lock on first grab, unlock): %s" % sorted(set(f.id for f, _ in pops))
               if not bad else "Mutex.to_wake (single-consumer queue) is popped from %s, which is not the lock holder" % bad[0][0].id,
               (bad or pops)[0][0].where((bad or pops)[0][1]))
    # R-MO
    ctx.mo_floor(M + ".cnt", ("fetch_sub",), "REL", "unlock-release", "the critical section happens-before the next acquisition", only_in=re.escape(U))
    ctx.mo_floor(M + ".cnt", ("compare_exchange", "compare_exchange_weak"), "ACQ", "trylock-acquire", "the next holder sees the previous critical section", only_in=re.escape(M) + "::try_lock")
    ctx.mo_floor(M + ".cnt", ("fetch_add",), "ACQ", "lock-acquire", "first-grab acquisition", only_in=re.escape(L))
    # R-API: who dereferences Mutex.data
    users = set()
    for f in ctx.prog.fns.values():
        for pt in f.points(cleanup=True):
            n = f.node(pt)
            pls = []
            if f.is_term(pt):
                if n["t"] == "call":
                    for a in n["args"]:
                        pl = a.get("c") or a.get("m")
                        if pl: pls.append(pl)
            elif n["s"] == "=":
                pls = rvalue_places(n["rv"]) + [n["l"]]
            for pl in pls:
                if M + ".data" in all_fields(simplify(trace_place(f, pl))):
                    users.add(f.id)
    allowed = {"<may::sync::mutex::MutexGuard as std::ops::Deref>::deref", "<may::sync::mutex::MutexGuard as std::ops::DerefMut>::deref_mut",
               M + "::get_mut", M + "::into_inner", M + "::new"}
    extra = users - allowed
    if not users & allowed:
        ctx.missing("R-API", M + ".data", "accessors", "no accessor of Mutex.data found")
    else:
        ctx.ob("R-API", M + ".data", "accessors", not extra,
               "Mutex.data is reached only through the guard's Deref/DerefMut, get_mut(&mut self), into_inner(self), new: %s" % sorted(users) if not extra else
               "Mutex.data is accessed outside the guard: %s" % sorted(extra), None)
    if ctx.cfg == "default":
        witness.run_witness(ctx, "c05_mutex", ctx.prog.extract_info["target"])
    shared.mutex_cancel_arm_rules(ctx)
    ctx.import_rules("C02", r"^(sync-blocker|blocker|fast-blocker|thread-park)/")
    ctx.import_rules("C03", r"^mpsc/block-start/|^mpsc/none-only-if-empty")
    shared.handoff_not_recursive(ctx, "may::sync::mutex")
