"""C19 — timer entry list (mpsc_list_v1): each entry consumed once (structural clauses)."""
from lib import *
from props.shared import *

EXPLANATION = ("R-ORDER in push (swap head, set node.prev, then publish through prev.next; the consumer's tail is read after the swap "
               "and is_head is ptr::eq(tail, swapped-out prev)); R-EXIT Entry::remove unlinks only behind link-bit ∧ prev non-null ∧ "
               "next non-null and otherwise writes nothing; pop/pop_if take the value with Option::take after advancing the tail and "
               "dereference `next` only behind a non-null load; R-MO floors; R-WHO consumer-side confinement at the use sites in may")
EXPLANATION_2 = ('pop/pop_if/peek report `nothing` only on the head == tail edge; interval-list heap-claim rules imported from C08; every function of the module that frees a node does so only at refs == 0 (F25)')
NOT_DECIDED = "the histories; the non-atomic `refs` accessed from two threads; mpsc_list.rs (unused by may) is only covered by its R-ORDER/R-MO rules"
CONFIGS_QUICK = ["default"]
CONFIGS_THOROUGH = ["default", "nosteal", "bare"]

L = "may_queue::mpsc_list_v1"
N = L + "::Node"

def check(ctx):
    PUSH = L + "::Queue::push"
    swap = Call(A("swap"), on=L + "::Queue.head", transitive=False)
    ctx.order(PUSH, swap, Write(N + ".prev"), "swap-then-prev", "the new node's prev is the node swapped out of head")
    ctx.order(PUSH, Write(N + ".prev"), atomic("store", N + ".next"), "prev-then-publish",
              "the node's back link is written before the node becomes reachable through prev.next (the consumer may rewrite `prev` as soon as it sees the node)")
    ctx.order(PUSH, swap, Read(L + "::Queue.tail"), "swap-then-read-tail",
              "the consumer's tail is read after the swap (reading it earlier makes `is_head` stale: a push that found the list empty is not reported and its interval list is never scheduled)")
    f = ctx.fn("R-ENUM", PUSH, "is-head-compares-tail-and-prev")
    if f is not None:
        ok = False; site = None
        for pt in f.points():
            if f.is_term(pt) and f.node(pt)["t"] == "call" and (callee_name(f.node(pt)) or "").endswith("ptr::eq"):
                t = f.node(pt); site = pt
                a = simplify(trace_operand(f, t["args"][0])); b = simplify(trace_operand(f, t["args"][1]))
                def is_prev(o): 
                    while o[0] in ("cast",): o = o[1]
                    return is_call_result(A("swap"))(o)
                def is_tail(o): return (L + "::Queue.tail") in all_fields(o)
                ok = (is_prev(a) and is_tail(b)) or (is_prev(b) and is_tail(a))
        ctx.ob("R-ENUM", PUSH, "is-head-compares-tail-and-prev", ok, "is_head is ptr::eq(consumer tail, swapped-out prev): exactly the pushes that found the list empty" if ok else
               "push no longer computes is_head as ptr::eq(tail, prev)", f.where(site))
    ctx.mo_floor(L + "::Queue.head", ("swap",), "ACQREL", "head-swap", "sees prev's initialisation, publishes the own node's", only_in=re.escape(PUSH))
    ctx.mo_floor(N + ".next", ("store",), "REL", "next-store", "publishes the node (and its value) to the consumer", min_sites=2)
    ctx.mo_floor(N + ".next", ("load",), "ACQ", "next-load", "the consumer dereferences the node", min_sites=4)
    ctx.mo_floor(L + "::Queue.head", ("load",), "ACQ", "head-load", "emptiness test precedes node accesses", min_sites=3)
    # ---- Entry::remove
    RM = L + "::Entry::remove"
    f = ctx.fn("R-EXIT", RM, "unlink-guarded")
    if f is not None:
        unlink = [Write(N + ".refs"), Write(N + ".prev"), atomic("store", N + ".next"), Call(r"(std|core)::option::Option::take", on=N + ".value", transitive=False)]
        nonnull = call_false(r"(std|core)::ptr::(mut_ptr::|const_ptr::)?is_null")
        def linked(a):
            # `refs & !MASK == 0` is false
            return a.kind == "cmp" and a.op == "Ne" and is_const(0)(a.b) and simplify(a.a)[0] == "bin" and simplify(a.a)[1] == "BitAnd" and (N + ".refs") in all_fields(simplify(simplify(a.a)[2]))
        for ev in unlink:
            lab = ev.label.replace(" ", "-")
            ctx.guarded(RM, ev, linked, "remove/%s-behind-link-bit" % lab, "remove touches the list only while the entry's link bit is set (an already consumed entry is left alone)",
                        pred_label="edge `refs & !MASK == 0` is false")
            es = ctx.edges(f, nonnull)
            ok = len(es) >= 2
            # every path to the unlink write passes BOTH non-null edges (prev and next)
            sites = ctx.an.sites(f, ev, "may")
            if not sites:
                ctx.missing("R-EXIT", RM, "remove/%s-behind-non-null" % lab, "no `%s` in remove" % ev.label); continue
            bad = None
            for (bi, tb, labx) in es:
                blk = lambda p, q, l2, bi=bi, tb=tb: f.is_term(p) and p.bb == bi and q.bb == tb
                r = ctx.an.reach(f, [Point(0, 0)], blocked_edges=blk)
                if any(s in r for s in sites): bad = bi
            ctx.ob("R-EXIT", RM, "remove/%s-behind-non-null" % lab, ok and bad is None,
                   "`%s` happens only behind `prev` non-null and `next` non-null (never on the volatile last node / the current tail)" % ev.label if ok and bad is None else
                   "Entry::remove can `%s` without both non-null checks (unlinking the last node races with push; unlinking the tail corrupts pop)" % ev.label, f.where(sorted(sites)[0]))
        ctx.order(RM, Write(N + ".prev"), atomic("store", N + ".next"), "remove/back-link-then-forward", "the successor's back link is fixed before the predecessor's forward link skips the node")
    # ---- pop / pop_if / peek
    for fn in ("pop", "pop_if"):
        fid = L + "::Queue::" + fn
        take = Call(r"(std|core)::option::Option::take", on=N + ".value", transitive=False)
        ctx.order(fid, Write(L + "::Queue.tail"), take, fn + "/advance-then-take", "the tail is advanced before the value is taken (a second consumer call starts at the new tail)")
        ctx.guarded(fid, take, call_false(r"(std|core)::ptr::(mut_ptr::|const_ptr::)?is_null"), fn + "/deref-next-non-null", "`next` is dereferenced only after a non-null load",
                    pred_label="edge `next.is_null()` is false")
        ctx.guarded(fid, take, call_false(r"(std|core)::ptr::(eq|const_ptr::eq|mut_ptr::eq)"), fn + "/non-empty", "a value is taken only when head != tail",
                    pred_label="edge `ptr::eq(head, tail)` is false")
        some = Agg(r"(std|core)::option::Option", "Some", transitive=False)
        ctx.order(fid, take, some, fn + "/some-only-after-take", "Some(v) carries the value moved out by Option::take (a copy is never handed out)")
        ctx.order(fid, Write(N + ".prev", where=lambda g, pt, n: n["s"] == "="), Write(L + "::Queue.tail"), fn + "/mark-new-end-then-advance", "the new end node's prev is cleared before it becomes the tail (remove() on it must do nothing)")
    # "nothing to consume" is reported only when the list is empty, i.e. head == tail: a producer that has swapped head but not yet linked
    # its node makes `tail.next` null although entries (its own and those pushed behind it) are in the list - the consumer waits for
    # the link instead of reporting None (seed C19-5: a `None` from peek while is_empty() is false loses the wake-up of schedule_timer)
    for fn in ("pop", "pop_if", "peek"):
        fid = L + "::Queue::" + fn
        f = ctx.fn("R-EXIT", fid, fn + "/none-only-if-head-is-tail")
        if f is None: continue
        touch = ctx.an.sites(f, Call(r"(std|core)::option::Option::(take|as_ref)", on=N + ".value", transitive=False), "must")
        def head_is_tail(a, f=f):
            if not (a.kind == "call" and a.truth is True and re.fullmatch(r"(std|core)::ptr::(eq|const_ptr::eq|mut_ptr::eq)", a.name or "")): return False
            t = f.term(a.site)
            ops = [simplify(trace_operand(f, x)) for x in t["args"][:2]]
            def is_head(o):
                while o[0] == "cast": o = simplify(o[1])
                return is_call_result(A("load"), L + "::Queue.head", f)(o)
            def is_tail(o): return (L + "::Queue.tail") in all_fields(o)
            return (is_head(ops[0]) and is_tail(ops[1])) or (is_head(ops[1]) and is_tail(ops[0]))
        blk, good = ctx.edge_blocker(f, head_is_tail)
        if not touch or not good:
            ctx.missing("R-EXIT", fid, fn + "/none-only-if-head-is-tail", "value access sites=%d, `ptr::eq(head.load(), tail)` true edges=%d" % (len(touch), len(good))); continue
        r = ctx.an.reach(f, [Point(0, 0)], blocked=touch, blocked_edges=blk)
        bad = [x for x in f.ret_points() if x in r]
        ctx.ob("R-EXIT", fid, fn + "/none-only-if-head-is-tail", not bad, "%s returns without having looked at the first entry only on the `head == tail` edge (an unlinked first node is waited for)" % fn if not bad else
               "%s can report `nothing there` on a path that is not the `head.load() == tail` edge: with a producer between its head swap and its link store the list is not empty "
               "(is_empty() is false, later entries are complete) but the consumer sees None - the timer list's scheduler then skips / unwraps a missing head" % fn,
               f.where(bad[0]) if bad else f.where(), detail=ctx.an.fmt_path(f, ctx.an.path(f, [Point(0, 0)], bad, blocked=touch, blocked_edges=blk)) if bad else None)
    ctx.guarded(L + "::Queue::pop_if", Write(L + "::Queue.tail"), lambda a: a.kind == "truth" and a.truth is True and a.origin[0] == "call" and "call" in (a.origin[2] or "").lower() or
                (a.kind == "call" and a.truth is True and ("Fn" in (a.name or ""))), "pop_if/only-if-predicate", "pop_if consumes only when the predicate holds", pred_label="edge `f(v)` is true")
    D = "<may_queue::mpsc_list_v1::Queue as std::ops::Drop>::drop"
    ctx.guarded(D, Call(r"(std|alloc)::boxed::Box::from_raw", transitive=False), call_false(r"(std|core)::option::Option::is_some"), "drop-drains", "Drop frees the stub only after pop() returned None",
                pred_label="edge `pop().is_some()` is false")
    # ---- R-WHO consumer-side confinement in may
    TL = "may::timeout_list"
    allowed_cons = {TL + "::IntervalEntry::pop_timeout", TL + "::TimeOutList::schedule_timer"}
    cs = ctx.callers_of(re.escape(L) + r"::Queue::(pop|pop_if|peek)")
    bad = sorted(g for g in cs if g.split("::{closure#")[0] not in allowed_cons and g.startswith(("may::", "<may::")))
    if not cs:
        ctx.missing("R-WHO", L + "::Queue::pop*", "consumer-callers", "no caller of pop/pop_if/peek found in may")
    else:
        ctx.ob("R-WHO", L + "::Queue::pop*", "consumer-callers", not bad, "pop/pop_if/peek are used only by the timer list's own scheduler loop: %s" % sorted(cs) if not bad else
               "pop/pop_if/peek of the timer entry list are called from %s (outside the single consumer)" % bad, None)
    ctx.who_may_call(re.escape(TL) + r"::IntervalEntry::pop_timeout", {TL + "::TimeOutList::schedule_timer"}, "pop-timeout-callers", "pop_timeout runs only inside schedule_timer")
    sel = "may::io::sys::select::Selector::select"
    sched_callers = {TL + "::TimerThread::run"} | ({sel} if ctx.prog.fn(sel) is not None else set())
    ctx.who_may_call(re.escape(TL) + r"::TimeOutList::schedule_timer", sched_callers, "schedule-timer-callers",
                     "each timer list is consumed by exactly one thread: the timer thread (scheduler list) / the owning selector (io lists)")
    # del_timer only enqueues; the timer thread removes
    ctx.never(TL + "::TimerThread::del_timer", Call(re.escape(L) + "::Entry::remove"), "del-timer-only-enqueues", "del_timer (any thread) never unlinks: it hands the handle to the timer thread", rule="R-WHO")
    ctx.must_call(TL + "::TimerThread::del_timer", Call(MQ_MPSC + "push", on=TL + "::TimerThread.remove_list"), "del-timer-enqueues", "del_timer enqueues the handle into remove_list")
    # Entry::remove / handle drop only on the consumer thread of the list (the io lists: see C18)
    allowed = {TL + "::TimerThread::run", "may::io::sys::remove_timer"} | ({sel} if ctx.prog.fn(sel) is not None else set())
    ctx.who_may_call(re.escape(L) + r"::Entry::remove", allowed, "entry-remove-callers",
                     "Entry::remove (consumer-only) is called only from the thread that consumes the list: the timer thread, the owning selector loop, remove_timer (reached only on the owner thread)", min_callers=1)
    if ctx.prog.fn("may::io::sys::remove_timer") is not None:
        ctx.who_may_call(r"may::io::sys::remove_timer", {sel, "may::io::sys::EventData::del_timer"}, "remove-timer-callers", "remove_timer runs only in the selector loop or in del_timer behind the owner-thread test", min_callers=2)
    # ---- mpsc_list.rs (the simpler sibling, unused by may): publication order and floors only
    L0 = "may_queue::mpsc_list"
    N0 = L0 + "::Node"
    ctx.order(L0 + "::Queue::push", Call(A("swap"), on=L0 + "::Queue.head", transitive=False), atomic("store", N0 + ".next"), "list0/swap-then-link", "mpsc_list: the node is linked behind the node swapped out of head")
    ctx.mo_floor(L0 + "::Queue.head", ("swap",), "ACQREL", "list0/head-swap", "sees prev's initialisation, publishes the own node's", only_in=re.escape(L0) + "::Queue::push")
    ctx.mo_floor(N0 + ".next", ("store",), "REL", "list0/next-store", "publishes the node and its value")
    ctx.mo_floor(N0 + ".next", ("load",), "ACQ", "list0/next-load", "the consumer dereferences the node")
    ctx.guarded(L0 + "::Queue::pop", Call(r"(std|core)::option::Option::take", on=N0 + ".value", transitive=False), call_false(r"(std|core)::ptr::(mut_ptr::|const_ptr::)?is_null"),
                "list0/deref-next-non-null", "mpsc_list pop dereferences `next` only after a non-null load", pred_label="edge `next.is_null()` is false")
    ctx.guarded("<may_queue::mpsc_list::Queue as std::ops::Drop>::drop", Call(r"(std|alloc)::boxed::Box::from_raw", transitive=False), call_false(r"(std|core)::option::Option::is_some"),
                "list0/drop-drains", "mpsc_list Drop frees the stub only after pop() returned None", pred_label="edge `pop().is_some()` is false")
    # dependency: the users of the list keep its head report meaningful (rule owned by C08)
    ctx.import_rules("C08", r"^list/")
    # node reference counting: a node is shared by the list (link bit) and the Entry handle; it is freed by whoever brings `refs` to 0,
    # after decrementing it, and by nobody else (freeing on any other edge is a use-after-free by the other owner / a leak)
    def refs_zero(a):
        return a.kind == "cmp" and a.op == "Eq" and is_const(0)(a.b) and all_fields(simplify(a.a))[-1:] == [N + ".refs"]
    FREE = Call(r"(std|alloc)::boxed::Box::from_raw", transitive=False)
    # the instances are every function of the module that frees a node (F25: Queue::drop freed the stub without looking at its count)
    NAMES = {L + "::Entry::remove": "remove", "<may_queue::mpsc_list_v1::Entry as std::ops::Drop>::drop": "entry-drop", L + "::Queue::pop": "pop", L + "::Queue::pop_if": "pop_if",
             "<may_queue::mpsc_list_v1::Queue as std::ops::Drop>::drop": "queue-drop"}
    freers = [(k, NAMES.get(k, k.rsplit("::", 1)[-1])) for k, g in sorted(ctx.prog.fns.items())
              if (k.startswith(L + "::") or k.startswith("<" + L + "::")) and "{closure" not in k and ctx.an.sites(g, FREE, "must")]
    if len(freers) < 5:
        ctx.missing("R-EXIT", L, "refs/freers", "expected ≥5 functions that free a list node (remove, Entry::drop, pop, pop_if, Queue::drop), found %s" % [s for _, s in freers])
    for fid, short in freers:
        f = ctx.fn("R-EXIT", fid, "refs/%s/free-only-at-zero" % short)
        if f is None: continue
        if not ctx.an.sites(f, FREE, "must") or not ctx.edges(f, refs_zero):
            ctx.missing("R-EXIT", fid, "refs/%s/free-only-at-zero" % short, "Box::from_raw sites=%d `refs == 0` edges=%d" % (len(ctx.an.sites(f, FREE, "must")), len(ctx.edges(f, refs_zero)))); continue
        ctx.guarded(fid, FREE, refs_zero, "refs/%s/free-only-at-zero" % short, "%s frees the node only behind `refs == 0`" % short, pred_label="edge `node.refs == 0`")
        ctx.must_follow(fid, None, FREE, "refs/%s/zero-frees" % short, "%s frees the node when its reference was the last one" % short, rule="R-PAIR", edge=refs_zero, edge_label="edge `node.refs == 0`")
        ctx.order(fid, Write(N + ".refs"), FREE, "refs/%s/decrement-then-free" % short, "the reference is given up (refs written) before the node can be freed")
    f = ctx.fn("R-ENUM", L + "::Entry::is_link", "refs/is-link-tests-link-bit")
    if f is not None:
        rv = simplify(trace_local(f, 0))
        ok = rv[0] == "bin" and rv[1] == "Ne" and is_const(0)(simplify(rv[3])) and simplify(rv[2])[0] == "bin" and simplify(rv[2])[1] == "BitAnd"
        ctx.ob("R-ENUM", L + "::Entry::is_link", "refs/is-link-tests-link-bit", ok, "is_link() is `refs & !REF_COUNT_MASK != 0`" if ok else
               "is_link() is no longer `refs & !REF_COUNT_MASK != 0` (%s): Park::remove_timeout_handle drops a handle that is still linked (the timer stays armed) or sends unlinked ones to the timer thread" % fmt_origin(rv)[:80], f.where())
