"""C08 — timed waits never fire early, never hang, fire promptly (structural clauses)."""
from lib import *
from props import shared
from props.shared import *
import rnum
from props import numrules

EXPLANATION = ("R-NUM abstract interpretation of the AtomicDuration encode/decode bodies (Some(d) never encodes to the None sentinel, "
               "the stored value rounds up, decode unit = encode unit, no wrapping conversion) and of TimeOutList::add_timer's "
               "interval/expiry arithmetic (saturating); R-EXIT deadline loops report Timeout only behind `now >= deadline` and compute "
               "the deadline once; R-ENUM comparison directions in the timer heap/list; R-SLOT register-then-recheck of the timer "
               "thread's wake-up slot; R-ORDER arm/publish of timers (known finding F8)")
EXPLANATION_2 = ('interval-list heap claim (`in_use`): heap push only with the claim, claim always pushes, pop gives the claim back before consuming, left-over / refilled lists re-claim, map removal only if empty, popped entry handled, new list reports head; timer handler injects TimedOut before resuming; timer thread runs the loop; TimerThread.wakeup taker unparks; Scheduler add/del_timer and sleep forwarding; the sleep until the next timer is corrected by a clock sample taken after the handlers ran (F29)')
NOT_DECIDED = "real elapsed time and promptness; heap/list behaviour under concurrent add/remove"
CONFIGS_QUICK = ["default"]
CONFIGS_THOROUGH = ["default", "nosteal", "bare"]

AD = "may::sync::atomic_dur::AtomicDuration"
TL = "may::timeout_list"

def check(ctx):
    numrules.duration_rules(ctx)
    shared.park_deadline_sampled_before_arm(ctx)
    shared.no_panicking_instant_arithmetic(ctx)
    # ---- deadline loops
    now_ge = lambda a: a.kind == "call" and a.truth is True and re.fullmatch(r".*PartialOrd.*::ge|std::cmp::PartialOrd::ge", a.name or "") is not None
    RMU = "may::sync::mpsc::Receiver::recv_max_until"
    ctx.guarded(RMU, Agg(r"std::sync::\w+::RecvTimeoutError", "Timeout", transitive=False), now_ge, "recv-timeout-only-after-deadline",
                "recv_timeout reports Timeout only behind `Instant::now() >= deadline`", pred_label="edge `Instant::now() >= deadline`")
    ctx.guarded("may::cqueue::Cqueue::poll", Agg("may::cqueue::PollError", "Timeout", transitive=False), now_ge, "poll-timeout-only-after-deadline",
                "cqueue poll reports Timeout only behind `Instant::now() >= deadline`", pred_label="edge `Instant::now() >= deadline`")
    for fid, what in ((RMU, "recv_max_until"), ("may::cqueue::Cqueue::poll", "Cqueue::poll")):
        f = ctx.fn("R-EXIT", fid, "deadline-computed-once")
        if f is None: continue
        # the deadline definition (Instant::now() + / checked_add, directly or in a closure handed to Option::map/and_then) is not inside a cycle
        def defines_deadline(g, pt):
            t = g.node(pt)
            if not g.is_term(pt) or t["t"] != "call": return False
            nm = callee_name(t) or ""
            if nm.endswith("Instant::checked_add") or nm.endswith("Instant as std::ops::Add>::add") or "Instant as std::ops::Add" in nm: return True
            for c in closure_args(g, t):
                h = ctx.prog.fns.get(c)
                if h is not None and any(defines_deadline(h, p2) for p2 in h.points()): return True
            return False
        sites = [pt for pt in f.points() if defines_deadline(f, pt)]
        if not sites:
            ctx.missing("R-EXIT", fid, "deadline-computed-once", "no deadline computation (Instant + timeout) found in %s" % fid); continue
        bad = [s for s in sites if s in ctx.an.reach(f, ctx.an.after(f, s))]
        ctx.ob("R-EXIT", fid, "deadline-computed-once", not bad, "%s computes its deadline once, before the wait loop" % what if not bad else
               "%s recomputes its deadline inside the wait loop: every internal wake-up restarts the full timeout, the wait may never time out" % what, f.where((bad or sites)[0]))
    # timed primitives report `timed out` only when park failed
    for fid in ("may::sync::semphore::Semphore::wait_timeout_impl", "may::sync::sync_flag::SyncFlag::wait_timeout_impl"):
        def ret_false(g):
            return [pt for pt in g.points() if not g.is_term(pt) and g.node(pt)["s"] == "=" and not g.node(pt)["l"]["p"] and g.node(pt)["l"]["l"] == 0
                    and g.node(pt)["rv"]["r"] == "use" and const_int(g, g.node(pt)["rv"]["o"]) == 0]
        ctx.guarded(fid, ret_false, variant_of_call(re.escape(SB) + "::park", "Err"), fid.split("::")[-2] + "/false-only-if-park-failed",
                    "%s returns false (timed out) only when park returned Err" % fid, pred_label="edge `park()` is Err")
        # the caller's duration reaches park unchanged
        f = ctx.prog.fn(fid)
        if f is not None:
            ok = False; site = None
            for pt in ctx.an.sites(f, SB_PARK, "must"):
                o = simplify(trace_operand(f, f.node(pt)["args"][1])); site = pt
                ok = o[0] == "arg"
            ctx.ob("R-NUM", fid, fid.split("::")[-2] + "/dur-unchanged", ok, "the caller's timeout reaches park() unchanged" if ok else "the timeout passed to park() is not the caller's value", f.where(site))
    # sleep
    SL = "may::sleep::sleep"
    f = ctx.fn("R-NUM", SL, "sleep/dur-unchanged")
    if f is not None:
        ok1 = False
        for pt in f.points():
            n = f.node(pt)
            if not f.is_term(pt) and n["s"] == "=" and n["rv"]["r"] == "agg" and n["rv"].get("ak") == "adt" and norm(n["rv"]["adt"]) == "may::sleep::Sleep":
                ok1 = simplify(trace_operand(f, n["rv"]["ops"][0]))[0] == "arg"
        ok2 = False
        for pt in ctx.an.sites(f, Call(r"std::thread::sleep", transitive=False), "must"):
            ok2 = simplify(trace_operand(f, f.node(pt)["args"][0]))[0] == "arg"
        ctx.ob("R-NUM", SL, "sleep/dur-unchanged", ok1 and ok2, "sleep(d) passes d unchanged to the timer (coroutine) and to thread::sleep (thread)" if ok1 and ok2 else
               "sleep(d) alters d on its way to the timer / thread::sleep", f.where())
    SS = "<may::sleep::Sleep as may::coroutine_impl::EventSource>::subscribe"
    f = ctx.fn("R-NUM", SS, "sleep/timer-gets-dur")
    if f is not None:
        ok = False
        for pt in ctx.an.sites(f, Call(r"may::scheduler::Scheduler::add_timer", transitive=False), "must"):
            ok = all_fields(simplify(trace_operand(f, f.node(pt)["args"][1])))[-1:] == ["may::sleep::Sleep.dur"]
        ctx.ob("R-NUM", SS, "sleep/timer-gets-dur", ok, "Sleep::subscribe arms the timer with self.dur" if ok else "Sleep::subscribe arms the timer with something else than self.dur", f.where())
        ctx.order(SS, ao("some"), Call(r"may::scheduler::Scheduler::add_timer", transitive=False), "sleep/publish-then-arm", "the sleeping coroutine is inside the timer datum before the timer is armed", rule="R-ORDER")
    # ---- comparison directions
    f = ctx.fn("R-ENUM", "<" + TL + "::IntervalEntry as std::cmp::Ord>::cmp", "heap-order-reversed")
    if f is not None:
        ok = False; site = None
        for pt in f.points():
            if f.is_term(pt) and f.node(pt)["t"] == "call" and (callee_name(f.node(pt)) or "").endswith("::cmp"):
                t = f.node(pt); site = pt
                a = simplify(trace_operand(f, t["args"][0])); b = simplify(trace_operand(f, t["args"][1]))
                ra, rb = root_of(a), root_of(b)
                ok = all_fields(a)[-1:] == [TL + "::IntervalEntry.time"] and all_fields(b)[-1:] == [TL + "::IntervalEntry.time"] and ra == O("arg", 2) and rb == O("arg", 1)
        ctx.ob("R-ENUM", TL + "::IntervalEntry::cmp", "heap-order-reversed", ok, "Ord for IntervalEntry compares other.time to self.time (earliest deadline on top of the max-heap)" if ok else
               "Ord for IntervalEntry no longer compares other.time.cmp(&self.time): the heap yields the LATEST timer first, earlier timers fire late", f.where(site))
    PT = TL + "::IntervalEntry::pop_timeout"
    f = ctx.fn("R-ENUM", PT, "pop-only-expired")
    if f is not None:
        ok = False; site = None
        for g in ctx.prog.closures_of(f):
            for pt in g.points():
                n = g.node(pt)
                if not g.is_term(pt) and n["s"] == "=" and n["rv"]["r"] == "bin" and n["rv"]["op"] in ("Le", "Lt", "Ge", "Gt"):
                    a = simplify(trace_operand(g, n["rv"]["a"])); b = simplify(trace_operand(g, n["rv"]["b"]))
                    ta = all_fields(a)[-1:] == [TL + "::TimeoutData.time"]; tb = all_fields(b)[-1:] == [TL + "::TimeoutData.time"]
                    op = n["rv"]["op"]; site = (g, pt)
                    ok = (ta and not tb and op in ("Le", "Lt")) or (tb and not ta and op in ("Ge", "Gt"))
        ctx.ob("R-ENUM", PT, "pop-only-expired", ok, "pop_timeout consumes an entry only when `entry.time <= now`" if ok else
               "pop_timeout's predicate is no longer `v.time <= now`: timers fire before their deadline (or never)", site[0].where(site[1]) if site else f.where())
    ST = TL + "::TimeOutList::schedule_timer"
    f = ctx.fn("R-ENUM", ST, "next-expiry-only-if-future")
    if f is not None:
        gt = lambda a: a.kind == "cmp" and ((a.op == "Gt" and all_fields(a.a)[-1:] == [TL + "::IntervalEntry.time"]) or (a.op == "Lt" and all_fields(a.b)[-1:] == [TL + "::IntervalEntry.time"]))
        def some_ret(g):
            # the subtraction itself (`entry.time - now`), wherever its result travels to (directly into `Some(..)`, or through a helper's Result)
            out = []
            for pt in g.points():
                n = g.node(pt)
                if not g.is_term(pt) and n.get("s") == "=" and n["rv"]["r"] == "bin" and n["rv"]["op"] in ("Sub", "SubWithOverflow", "SubUnchecked") and \
                        all_fields(simplify(trace_operand(g, n["rv"]["a"])))[-1:] == [TL + "::IntervalEntry.time"]:
                    out.append(pt)
            return out
        ctx.guarded(ST, some_ret, gt, "next-expiry-only-if-future", "schedule_timer computes the next expiry `entry.time - now` only behind `entry.time > now` (no underflow; expired timers are run first)",
                    rule="R-ENUM", pred_label="edge `entry.time > now`")
    # ---- timer thread wake-up slot
    TT = TL + "::TimerThread"
    W = TT + ".wakeup"
    slot_waiter(ctx, TT + "::run", ao("store", W), Call(MQ_MPSC + "is_empty", on=TT + ".remove_list"), call_false(MQ_MPSC + "is_empty"), ao("take", W),
                "timer-thread", "TimerThread::run", "remove_list.is_empty() is false")
    ctx.order(TT + "::run", ao("store", W), Call(re.escape(TL) + "::TimeOutList::schedule_timer"), "timer-thread/register-then-schedule",
              "the timer thread publishes its wake-up handle before it computes how long to sleep (a timer added in between finds the handle and unparks it)", rule="R-SLOT")
    f = ctx.fn("R-SLOT", TT + "::run", "timer-thread/no-park-without-fresh-schedule")
    if f is not None:
        parks = ctx.an.sites(f, Call(r"std::thread::park(_timeout)?", transitive=False), "may")
        sch = ctx.an.sites(f, Call(re.escape(TL) + "::TimeOutList::schedule_timer", transitive=False), "must")
        st = ctx.an.sites(f, ao("store", W), "must")
        if not (parks and sch and st):
            ctx.missing("R-SLOT", TT + "::run", "timer-thread/no-park-without-fresh-schedule", "park=%d schedule_timer=%d wakeup.store=%d" % (len(parks), len(sch), len(st)))
        else:
            r = ctx.an.reach(f, [q for s in st for q in ctx.an.after(f, s)], blocked=sch)
            bad = [p for p in parks if p in r]
            ctx.ob("R-SLOT", TT + "::run", "timer-thread/no-park-without-fresh-schedule", not bad,
                   "between publishing the wake-up handle and parking the timer thread recomputes the next expiry" if not bad else
                   "the timer thread can park on an expiry computed BEFORE it published its wake-up handle: a timer added in the gap is slept through", f.where((bad or sorted(parks))[0]))
    # (seed C08-4) the timer heap holds one entry per interval list; the entry is (re)installed by the consumer while the list is
    # non-empty, or by the producer whose push made it non-empty (is_head). Every push in TimeOutList::add_timer is therefore
    # followed by install_timer_bh on every path except the one where the push reported `is_head == false`
    ADDL = TL + "::TimeOutList::add_timer"
    f = ctx.fn("R-PAIR", ADDL, "list/head-push-installs-heap-entry")
    if f is not None:
        PUSHL = Call(r"may_queue::mpsc_list(_v1)?::Queue::push", transitive=False)
        pushes = sorted(ctx.an.sites(f, PUSHL, "must"))
        # "install the list's heap entry": the helper, or its primitive written out (the in_use claim that precedes the heap push)
        inst = ctx.an.sites(f, Call(re.escape(TL) + "::TimeOutList::install_timer_bh", transitive=False), "must") | \
               ctx.an.sites(f, atomic("fetch_add", TL + "::TimeoutQueueWrapper.in_use", transitive=False), "must")
        if len(pushes) < 2 or not inst:
            ctx.missing("R-PAIR", ADDL, "list/head-push-installs-heap-entry", "pushes=%d install_timer_bh=%d" % (len(pushes), len(inst)))
        else:
            def not_head(a):
                o = a.origin if a.kind == "truth" else None
                return o is not None and a.truth is False and o[0] == "field" and o[2] == "(tuple)" and o[3] == "1" and simplify(o[1])[0] == "call" and \
                    re.fullmatch(PUSHL.fn, simplify(o[1])[2] or "") is not None
            be = ctx.edge_blocker(f, not_head)[0]
            bad = None
            for s0 in pushes:
                r = ctx.an.reach(f, ctx.an.after(f, s0), blocked=inst, blocked_edges=be)
                ex = [x for x in f.ret_points() if x in r]
                if ex:
                    bad = (s0, ctx.an.fmt_path(f, ctx.an.path(f, ctx.an.after(f, s0), ex, blocked=inst, blocked_edges=be))); break
            ctx.ob("R-PAIR", ADDL, "list/head-push-installs-heap-entry", bad is None,
                   "each of the %d pushes in TimeOutList::add_timer is followed by install_timer_bh unless the push reported is_head == false" % len(pushes) if bad is None else
                   "TimeOutList::add_timer can return after a push that became the head of its interval list without install_timer_bh: the list is non-empty but not on "
                   "the timer heap, its head and every later timer of that interval never fire", f.where(bad[0] if bad else pushes[0]), detail=bad[1] if bad else None)
    slot_waker(ctx, TT + "::add_timer", Call(re.escape(TL) + "::TimeOutList::add_timer"), ao("take", W), "timer-thread/add", "TimerThread::add_timer")
    slot_waker(ctx, TT + "::del_timer", Call(MQ_MPSC + "push", on=TT + ".remove_list"), ao("take", W), "timer-thread/del", "TimerThread::del_timer")
    f = ctx.fn("R-SLOT", TT + "::add_timer", "timer-thread/add-wakes-on-new-head")
    if f is not None:
        def is_recal_true(a):
            return a.kind == "truth" and a.truth is True and a.origin[0] == "field" and a.origin[2] == "(tuple)" and a.origin[3] == "1"
        ctx.must_follow(TT + "::add_timer", None, ao("take", W), "timer-thread/add-wakes-on-new-head", "an add_timer that created a new earliest expiry wakes the timer thread",
                        rule="R-SLOT", edge=is_recal_true, edge_label="edge `is_recal` is true")
    ctx.must_call(TT + "::del_timer", ao("take", W), "timer-thread/del-always-wakes", "del_timer always wakes the timer thread")
    # dependency (seed C08-6): an interval list whose push mis-reports `is_head` is never put on the timer heap
    ctx.import_rules("C19", r"^swap-then-read-tail|^prev-then-publish|^is-head-compares-tail-and-prev|none-only-if-head-is-tail$")
    shared.injected_kinds(ctx)
    shared.taken_waiter_is_woken(ctx, only=r"timeout_list::TimerThread\.wakeup$")
    shared.interval_list_claim_rules(ctx)
    shared.timer_api_forwarding(ctx)
    shared.timer_handler_rules(ctx)
    shared.selector_serves_timeout_wakeups(ctx)
    # the timer thread really unlinks every handle that del_timer handed to it (an entry that stays in its list fires into a later park on
    # the same Park: Timeout before the deadline), and it re-checks the remove list after it has published its wake-up handle
    RUNF = TT + "::run"
    RLPOP = variant_of_call(MQ_MPSC + "pop", "Some")
    ctx.must_follow(RUNF, None, Call(r"may_queue::mpsc_list_v1::Entry::remove", transitive=False), "timer-thread/removes-every-queued-handle",
                    "every handle popped from remove_list is unlinked from its timer list", rule="R-PAIR", edge=RLPOP, edge_label="edge `remove_list.pop()` is Some",
                    exits=lambda g: set(g.ret_points()) | ctx.an.sites(g, Call(MQ_MPSC + "pop", transitive=False), "must") | ctx.an.sites(g, Call(r"std::thread::park(_timeout)?", transitive=False), "must"))
    f = ctx.fn("R-SLOT", RUNF, "timer-thread/rechecks-remove-list-after-register")
    if f is not None:
        st = ctx.an.sites(f, ao("store", W), "must")
        chk = ctx.an.sites(f, Call(r"may_queue::mpsc::Queue::(is_empty|len|peek|pop)", on=TT + ".remove_list", transitive=False), "must")
        parks = ctx.an.sites(f, Call(r"std::thread::park(_timeout)?", transitive=False), "must")
        r = ctx.an.reach(f, [q for s0 in st for q in ctx.an.after(f, s0)], blocked=chk)
        bad = [p0 for p0 in parks if p0 in r]
        ctx.ob("R-SLOT", RUNF, "timer-thread/rechecks-remove-list-after-register", bool(st) and bool(chk) and not bad,
               "after publishing its wake-up handle the timer thread looks at remove_list again before it parks (a del_timer that came in between is not slept on)" if st and chk and not bad else
               "the timer thread can park after publishing its wake-up handle without re-checking remove_list: a removal queued in between waits for the next wake-up, its timer may fire first", f.where((bad or sorted(parks) or [None])[0]))
        nonempty = call_false(r"may_queue::mpsc::Queue::is_empty")
        if ctx.edges(f, nonempty):
            ctx.must_follow(RUNF, None, ao("take", W), "timer-thread/pending-removal-self-wakes", "a pending removal seen by the re-check makes the timer thread take its own wake-up handle (it will not sleep)",
                            rule="R-SLOT", edge=nonempty, edge_label="edge `remove_list.is_empty()` is false",
                            exits=lambda g: set(g.ret_points()) | ctx.an.sites(g, Call(r"std::thread::park(_timeout)?", transitive=False), "must"))
    shared.sleep_relative_to_fresh_clock(ctx)
