"""C08 — timed waits never fire early, never hang, fire promptly (structural clauses)."""
from lib import *
from props.shared import *
import rnum

EXPLANATION = ("R-NUM abstract interpretation of the AtomicDuration encode/decode bodies (Some(d) never encodes to the None sentinel, "
               "the stored value rounds up, decode unit = encode unit, no wrapping conversion) and of TimeOutList::add_timer's "
               "interval/expiry arithmetic (saturating); R-EXIT deadline loops report Timeout only behind `now >= deadline` and compute "
               "the deadline once; R-ENUM comparison directions in the timer heap/list; R-SLOT register-then-recheck of the timer "
               "thread's wake-up slot; R-ORDER arm/publish of timers (known finding F8)")
NOT_DECIDED = "real elapsed time and promptness; heap/list behaviour under concurrent add/remove"
CONFIGS_QUICK = ["default"]
CONFIGS_THOROUGH = ["default", "nosteal", "bare"]

AD = "may::sync::atomic_dur::AtomicDuration"
TL = "may::timeout_list"

def check(ctx):
    it = rnum.Interp(ctx.prog)
    # ---- R-NUM encode
    enc = {}
    for fn in ("new", "store"):
        fid = AD + "::" + fn
        f = ctx.fn("R-NUM", fid, "encode")
        if f is None: continue
        # the stored value
        val_op = None; site = None
        for pt in f.points():
            if not f.is_term(pt): continue
            t = f.node(pt)
            if t["t"] != "call": continue
            nm = callee_name(t) or ""
            if nm.endswith("Atomic::new") and fn == "new": val_op = t["args"][0]; site = pt
            if nm.endswith("Atomic::store") and fn == "store" and receiver_leaf(f, t) == AD + ".0": val_op = t["args"][1]; site = pt
        if val_op is None:
            ctx.missing("R-NUM", fid, "encode", "the atomic initialisation/store of the encoded value was not found"); continue
        o = simplify(trace_operand(f, val_op))
        # resolve through a local helper
        g = f
        if o[0] == "call" and o[2] in ctx.prog.fns:
            g = ctx.prog.fns[o[2]]; ctx.fns_touched.add(g.id)
            alts = it.return_alternatives(g)
        elif o[0] == "phi":
            alts = [simplify(a) for a in o[2]]
        else:
            alts = [o]
        consts = [a for a in alts if a[0] == "const"]
        somes = [a for a in alts if a[0] != "const"]
        none_zero = len(consts) == 1 and rnum.const_of(consts[0]) == 0
        ctx.ob("R-NUM", fid, "encode/none-is-zero", none_zero, "None encodes to the sentinel 0" if none_zero else "None no longer encodes to the single constant 0: %s" % [fmt_origin(c) for c in consts], g.where())
        if len(somes) != 1:
            ctx.ob("R-NUM", fid, "encode/decided", False, "UNDECIDED: expected one Some(d) alternative for the encoded value, found %d (%s)" % (len(somes), [fmt_origin(s) for s in somes]), g.where())
            continue
        it.notes = []
        v = it.eval(g, somes[0])
        if v is None:
            ctx.ob("R-NUM", fid, "encode/decided", False, "UNDECIDED (failing closed): the Some(d) encoding `%s` uses an operation outside the interpreter's transfer functions" % fmt_origin(somes[0]), g.where())
            continue
        ctx.ob("R-NUM", fid, "encode/decided", True, "Some(d) encodes to %s with n = d.as_nanos()" % v, g.where(), nontrivial=False)
        enc[fn] = v
        A_ok = v.k >= 1 or v.a >= v.b
        ctx.ob("R-NUM", fid, "encode/A-some-never-none", A_ok,
               "(A) Some(d) never encodes to the None sentinel: %s ≥ 1 for every d ≥ 0" % v if A_ok else
               "(A) Some(d) encodes to 0 = None for d < %d ns (incl. Duration::ZERO): such a timed wait never times out (%s)" % (v.b - v.a, v), g.where())
        B_ok = v.a >= v.b - 1
        ctx.ob("R-NUM", fid, "encode/B-rounds-up", B_ok,
               "(B) the stored count rounds up: count × %d ns ≥ d for every d" % v.b if B_ok else
               "(B) the stored count rounds DOWN (%s): e.g. d = %d ns is stored as %d × %d ns, so the wait can return before d elapsed" % (v, v.b + v.b // 2, 1, v.b), g.where())
        ctx.ob("R-NUM", fid, "encode/no-wrap", not v.trunc, "the conversion to the atomic's integer type saturates (no wrap-around for huge durations)" if not v.trunc else
               "the encoded value is narrowed with a wrapping cast (%s): a huge duration wraps to a short one and fires early" % "; ".join(it.notes), g.where())
    # ---- decode
    dec = {}
    for fn in ("get", "take"):
        fid = AD + "::" + fn
        f = ctx.prog.fn(fid)
        if f is None:
            if fn == "take": ctx.missing("R-NUM", fid, "decode", "AtomicDuration::take not found")
            continue
        ctx.fns_touched.add(fid)
        unit = None; ok_src = False; site = None
        for pt in f.points():
            if not f.is_term(pt): continue
            t = f.node(pt)
            if t["t"] != "call": continue
            nm = callee_name(t) or ""
            m = nm.rsplit("::", 1)[-1]
            if (nm.startswith("std::time::Duration::") or nm.startswith("core::time::Duration::")) and m in rnum.FROM_UNITS:
                unit = rnum.FROM_UNITS[m]; site = pt
                o = simplify(trace_operand(f, t["args"][0]))
                while o[0] == "cast": o = o[1]
                ok_src = o[0] == "call" and re.fullmatch(A("(load|swap)"), o[2] or "") is not None
        if unit is None:
            ctx.ob("R-NUM", fid, "decode/decided", False, "UNDECIDED: no Duration::from_* construction found in %s" % fid, f.where()); continue
        ctx.ob("R-NUM", fid, "decode/value-unchanged", ok_src, "the decoded count is the loaded value itself" if ok_src else "the decoded count is not the plain loaded value (arithmetic in decode is outside the rule)", f.where(site))
        dec[fn] = unit
        # 0 -> None
        ctx.guarded(fid, Agg(r"(std|core)::option::Option", "None", transitive=False), lambda a: a.kind == "val" and a.eq and a.vals == (0,), "decode/zero-is-none:" + fn,
                    "%s returns None exactly for the sentinel" % fn, rule="R-NUM", pred_label="edge `value == 0`")
    for fn, v in enc.items():
        for dn, unit in dec.items():
            ctx.ob("R-NUM", AD, "C-unit-agrees:%s/%s" % (fn, dn), v.b == unit,
                   "(C) %s encodes in units of %d ns and %s decodes in units of %d ns" % (fn, v.b, dn, unit) if v.b == unit else
                   "(C) unit mismatch: %s encodes in units of %d ns but %s decodes in units of %d ns (the timeout is %s by a factor of %g)" %
                   (fn, v.b, dn, unit, "stretched" if unit > v.b else "cut short", max(unit, v.b) / min(unit, v.b)), None)
    # consumers of the encoding
    users = []
    for path, a in ctx.prog.adts.items():
        for var in a["variants"]:
            for fld in var["fields"]:
                if "AtomicDuration" in fld["t"]: users.append("%s.%s" % (path, fld["n"]))
    ctx.ob("R-WHO", AD, "consumers", len(users) >= 5, "fields holding an encoded timeout: %s" % sorted(users), None, nontrivial=len(users) > 0)
    # ---- add_timer arithmetic
    AT = TL + "::TimeOutList::add_timer"
    f = ctx.fn("R-NUM", AT, "interval")
    if f is not None:
        iv = None; tm = None; site = None
        for pt in f.points():
            n = f.node(pt)
            if not f.is_term(pt) and n["s"] == "=" and n["rv"]["r"] == "agg" and n["rv"].get("ak") == "adt" and norm(n["rv"]["adt"]) == TL + "::TimeoutData":
                names = n["rv"]["fields"]; tm = simplify(trace_operand(f, n["rv"]["ops"][names.index("time")])); site = pt
        if tm is None:
            ctx.missing("R-NUM", AT, "interval", "construction of TimeoutData not found")
        else:
            # time = now() (+|saturating_add) interval ; interval = conv(dur.as_nanos())
            sat = tm[0] == "call" and (tm[2] or "").endswith("saturating_add")
            plain = tm[0] == "bin" or (tm[0] == "field" and tm[2] == "(tuple)")
            ops = None
            if sat: ops = [simplify(trace_operand(f, a)) for a in f.term(tm[1])["args"]]
            elif plain:
                b = tm
                while b[0] == "field": b = simplify(b[1])
                ops = [simplify(b[2]), simplify(b[3])]
            ctx.ob("R-NUM", AT, "expiry-saturates", sat, "expiry = now().saturating_add(interval): no overflow for huge durations" if sat else
                   "expiry is computed with a plain `+` (%s): a huge duration overflows (debug: panic on the runtime thread; release: wraps and fires early)" % fmt_origin(tm), f.where(site))
            ivv = None
            if ops:
                for o in ops:
                    if not (o[0] == "call" and o[2] == TL + "::now"):
                        it.notes = []; ivv = it.eval(f, o); ivo = o
            if ivv is None:
                ctx.ob("R-NUM", AT, "interval-decided", False, "UNDECIDED (failing closed): the timer interval is not derived from the duration by operations the interpreter understands", f.where(site))
            else:
                ctx.ob("R-NUM", AT, "interval-exact", ivv.a == 0 and ivv.b == 1 and ivv.k == 0, "the timer interval is d.as_nanos() (%s)" % ivv, f.where(site))
                ctx.ob("R-NUM", AT, "interval-no-wrap", not ivv.trunc, "the u128 → u64 conversion of the interval saturates" if not ivv.trunc else
                       "the interval is narrowed with a wrapping cast (%s): durations ≥ 2^64 ns wrap to short ones and fire early" % "; ".join(it.notes), f.where(site))
    # ---- deadline loops
    now_ge = lambda a: a.kind == "call" and a.truth is True and re.fullmatch(r".*PartialOrd.*::ge|std::cmp::PartialOrd::ge", a.name or "") is not None
    RMU = "may::sync::mpsc::Receiver::recv_max_until"
    ctx.guarded(RMU, Agg(r"std::sync::\w+::RecvTimeoutError", "Timeout", transitive=False), now_ge, "recv-timeout-only-after-deadline",
                "recv_timeout reports Timeout only behind `Instant::now() >= deadline`", pred_label="edge `Instant::now() >= deadline`")
    ctx.guarded("may::cqueue::Cqueue::poll", Agg("may::cqueue::PollError", "Timeout", transitive=False), now_ge, "poll-timeout-only-after-deadline",
                "cqueue poll reports Timeout only behind `Instant::now() >= deadline`", pred_label="edge `Instant::now() >= deadline`")
    for fid, what in ((RMU, "recv_max_until"), ("may::cqueue::Cqueue::poll", "Cqueue::poll")):
        f = ctx.fn("R-EXIT", fid, "deadline-computed-once")
        if f is None: continue
        # the deadline definition (Instant::now() + / checked_add, directly or in a closure handed to Option::map/and_then) is not inside a cycle
        def defines_deadline(g, pt):
            t = g.node(pt)
            if not g.is_term(pt) or t["t"] != "call": return False
            nm = callee_name(t) or ""
            if nm.endswith("Instant::checked_add") or nm.endswith("Instant as std::ops::Add>::add") or "Instant as std::ops::Add" in nm: return True
            for c in closure_args(g, t):
                h = ctx.prog.fns.get(c)
                if h is not None and any(defines_deadline(h, p2) for p2 in h.points()): return True
            return False
        sites = [pt for pt in f.points() if defines_deadline(f, pt)]
        if not sites:
            ctx.missing("R-EXIT", fid, "deadline-computed-once", "no deadline computation (Instant + timeout) found in %s" % fid); continue
        bad = [s for s in sites if s in ctx.an.reach(f, ctx.an.after(f, s))]
        ctx.ob("R-EXIT", fid, "deadline-computed-once", not bad, "%s computes its deadline once, before the wait loop" % what if not bad else
               "%s recomputes its deadline inside the wait loop: every internal wake-up restarts the full timeout, the wait may never time out" % what, f.where((bad or sites)[0]))
    # timed primitives report `timed out` only when park failed
    for fid in ("may::sync::semphore::Semphore::wait_timeout_impl", "may::sync::sync_flag::SyncFlag::wait_timeout_impl"):
        def ret_false(g):
            return [pt for pt in g.points() if not g.is_term(pt) and g.node(pt)["s"] == "=" and not g.node(pt)["l"]["p"] and g.node(pt)["l"]["l"] == 0
                    and g.node(pt)["rv"]["r"] == "use" and const_int(g, g.node(pt)["rv"]["o"]) == 0]
        ctx.guarded(fid, ret_false, variant_of_call(re.escape(SB) + "::park", "Err"), fid.split("::")[-2] + "/false-only-if-park-failed",
                    "%s returns false (timed out) only when park returned Err" % fid, pred_label="edge `park()` is Err")
        # the caller's duration reaches park unchanged
        f = ctx.prog.fn(fid)
        if f is not None:
            ok = False; site = None
            for pt in ctx.an.sites(f, SB_PARK, "must"):
                o = simplify(trace_operand(f, f.node(pt)["args"][1])); site = pt
                ok = o[0] == "arg"
            ctx.ob("R-NUM", fid, fid.split("::")[-2] + "/dur-unchanged", ok, "the caller's timeout reaches park() unchanged" if ok else "the timeout passed to park() is not the caller's value", f.where(site))
    # sleep
    SL = "may::sleep::sleep"
    f = ctx.fn("R-NUM", SL, "sleep/dur-unchanged")
    if f is not None:
        ok1 = False
        for pt in f.points():
            n = f.node(pt)
            if not f.is_term(pt) and n["s"] == "=" and n["rv"]["r"] == "agg" and n["rv"].get("ak") == "adt" and norm(n["rv"]["adt"]) == "may::sleep::Sleep":
                ok1 = simplify(trace_operand(f, n["rv"]["ops"][0]))[0] == "arg"
        ok2 = False
        for pt in ctx.an.sites(f, Call(r"std::thread::sleep", transitive=False), "must"):
            ok2 = simplify(trace_operand(f, f.node(pt)["args"][0]))[0] == "arg"
        ctx.ob("R-NUM", SL, "sleep/dur-unchanged", ok1 and ok2, "sleep(d) passes d unchanged to the timer (coroutine) and to thread::sleep (thread)" if ok1 and ok2 else
               "sleep(d) alters d on its way to the timer / thread::sleep", f.where())
    SS = "<may::sleep::Sleep as may::coroutine_impl::EventSource>::subscribe"
    f = ctx.fn("R-NUM", SS, "sleep/timer-gets-dur")
    if f is not None:
        ok = False
        for pt in ctx.an.sites(f, Call(r"may::scheduler::Scheduler::add_timer", transitive=False), "must"):
            ok = all_fields(simplify(trace_operand(f, f.node(pt)["args"][1])))[-1:] == ["may::sleep::Sleep.dur"]
        ctx.ob("R-NUM", SS, "sleep/timer-gets-dur", ok, "Sleep::subscribe arms the timer with self.dur" if ok else "Sleep::subscribe arms the timer with something else than self.dur", f.where())
        ctx.order(SS, ao("some"), Call(r"may::scheduler::Scheduler::add_timer", transitive=False), "sleep/publish-then-arm", "the sleeping coroutine is inside the timer datum before the timer is armed", rule="R-ORDER")
    # ---- comparison directions
    f = ctx.fn("R-ENUM", "<" + TL + "::IntervalEntry as std::cmp::Ord>::cmp", "heap-order-reversed")
    if f is not None:
        ok = False; site = None
        for pt in f.points():
            if f.is_term(pt) and f.node(pt)["t"] == "call" and (callee_name(f.node(pt)) or "").endswith("::cmp"):
                t = f.node(pt); site = pt
                a = simplify(trace_operand(f, t["args"][0])); b = simplify(trace_operand(f, t["args"][1]))
                ra, rb = root_of(a), root_of(b)
                ok = all_fields(a)[-1:] == [TL + "::IntervalEntry.time"] and all_fields(b)[-1:] == [TL + "::IntervalEntry.time"] and ra == O("arg", 2) and rb == O("arg", 1)
        ctx.ob("R-ENUM", TL + "::IntervalEntry::cmp", "heap-order-reversed", ok, "Ord for IntervalEntry compares other.time to self.time (earliest deadline on top of the max-heap)" if ok else
               "Ord for IntervalEntry no longer compares other.time.cmp(&self.time): the heap yields the LATEST timer first, earlier timers fire late", f.where(site))
    PT = TL + "::IntervalEntry::pop_timeout"
    f = ctx.fn("R-ENUM", PT, "pop-only-expired")
    if f is not None:
        ok = False; site = None
        for g in ctx.prog.closures_of(f):
            for pt in g.points():
                n = g.node(pt)
                if not g.is_term(pt) and n["s"] == "=" and n["rv"]["r"] == "bin" and n["rv"]["op"] in ("Le", "Lt", "Ge", "Gt"):
                    a = simplify(trace_operand(g, n["rv"]["a"])); b = simplify(trace_operand(g, n["rv"]["b"]))
                    ta = all_fields(a)[-1:] == [TL + "::TimeoutData.time"]; tb = all_fields(b)[-1:] == [TL + "::TimeoutData.time"]
                    op = n["rv"]["op"]; site = (g, pt)
                    ok = (ta and not tb and op in ("Le", "Lt")) or (tb and not ta and op in ("Ge", "Gt"))
        ctx.ob("R-ENUM", PT, "pop-only-expired", ok, "pop_timeout consumes an entry only when `entry.time <= now`" if ok else
               "pop_timeout's predicate is no longer `v.time <= now`: timers fire before their deadline (or never)", site[0].where(site[1]) if site else f.where())
    ST = TL + "::TimeOutList::schedule_timer"
    f = ctx.fn("R-ENUM", ST, "next-expiry-only-if-future")
    if f is not None:
        gt = lambda a: a.kind == "cmp" and ((a.op == "Gt" and all_fields(a.a)[-1:] == [TL + "::IntervalEntry.time"]) or (a.op == "Lt" and all_fields(a.b)[-1:] == [TL + "::IntervalEntry.time"]))
        def some_ret(g):
            return [pt for pt in g.points() if direct_match(g, pt, Agg(r"(std|core)::option::Option", "Some", transitive=False)) and not g.node(pt)["l"]["p"] and g.node(pt)["l"]["l"] == 0]
        ctx.guarded(ST, some_ret, gt, "next-expiry-only-if-future", "schedule_timer returns Some(entry.time - now) only behind `entry.time > now` (no underflow; expired timers are run first)",
                    rule="R-ENUM", pred_label="edge `entry.time > now`")
    # ---- timer thread wake-up slot
    TT = TL + "::TimerThread"
    W = TT + ".wakeup"
    slot_waiter(ctx, TT + "::run", ao("store", W), Call(MQ_MPSC + "is_empty", on=TT + ".remove_list"), call_false(MQ_MPSC + "is_empty"), ao("take", W),
                "timer-thread", "TimerThread::run", "remove_list.is_empty() is false")
    ctx.order(TT + "::run", ao("store", W), Call(re.escape(TL) + "::TimeOutList::schedule_timer"), "timer-thread/register-then-schedule",
              "the timer thread publishes its wake-up handle before it computes how long to sleep (a timer added in between finds the handle and unparks it)", rule="R-SLOT")
    f = ctx.fn("R-SLOT", TT + "::run", "timer-thread/no-park-without-fresh-schedule")
    if f is not None:
        parks = ctx.an.sites(f, Call(r"std::thread::park(_timeout)?", transitive=False), "may")
        sch = ctx.an.sites(f, Call(re.escape(TL) + "::TimeOutList::schedule_timer", transitive=False), "must")
        st = ctx.an.sites(f, ao("store", W), "must")
        if not (parks and sch and st):
            ctx.missing("R-SLOT", TT + "::run", "timer-thread/no-park-without-fresh-schedule", "park=%d schedule_timer=%d wakeup.store=%d" % (len(parks), len(sch), len(st)))
        else:
            r = ctx.an.reach(f, [q for s in st for q in ctx.an.after(f, s)], blocked=sch)
            bad = [p for p in parks if p in r]
            ctx.ob("R-SLOT", TT + "::run", "timer-thread/no-park-without-fresh-schedule", not bad,
                   "between publishing the wake-up handle and parking the timer thread recomputes the next expiry" if not bad else
                   "the timer thread can park on an expiry computed BEFORE it published its wake-up handle: a timer added in the gap is slept through", f.where((bad or sorted(parks))[0]))
    slot_waker(ctx, TT + "::add_timer", Call(re.escape(TL) + "::TimeOutList::add_timer"), ao("take", W), "timer-thread/add", "TimerThread::add_timer")
    slot_waker(ctx, TT + "::del_timer", Call(MQ_MPSC + "push", on=TT + ".remove_list"), ao("take", W), "timer-thread/del", "TimerThread::del_timer")
    f = ctx.fn("R-SLOT", TT + "::add_timer", "timer-thread/add-wakes-on-new-head")
    if f is not None:
        def is_recal_true(a):
            return a.kind == "truth" and a.truth is True and a.origin[0] == "field" and a.origin[2] == "(tuple)" and a.origin[3] == "1"
        ctx.must_follow(TT + "::add_timer", None, ao("take", W), "timer-thread/add-wakes-on-new-head", "an add_timer that created a new earliest expiry wakes the timer thread",
                        rule="R-SLOT", edge=is_recal_true, edge_label="edge `is_recal` is true")
    ctx.must_call(TT + "::del_timer", ao("take", W), "timer-thread/del-always-wakes", "del_timer always wakes the timer thread")
