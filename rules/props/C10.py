"""C10 — semaphore permits are conserved; SyncFlag is a one-way latch (structural clauses)."""
from lib import *
from props import shared
from props.shared import *

EXPLANATION = ("R-ORDER enqueue-before-count and count-before-wake in Semphore/SyncFlag, R-EXIT try_wait decrements only by a CAS "
               "behind cnt>0 and `true` is returned only with a permit, R-SIB forwarding handshake (a permit handed to a waiter that "
               "times out / is cancelled is re-posted on exactly one side), R-WHO writers of SyncFlag.cnt, R-MO")
EXPLANATION_2 = ('timed waits report success only with evidence (fast-path test true or park Ok); Semphore/SyncFlag wait wrappers forward; post/fire do not recurse over abandoned waiters (F28, known finding)')
NOT_DECIDED = "the counting identity over all interleavings; starvation"
CONFIGS_QUICK = ["default"]

S = "may::sync::semphore::Semphore"
F = "may::sync::sync_flag::SyncFlag"

def park_err(a):
    return variant_of_call(re.escape(SB) + "::park", "Err")(a)

def check(ctx):
    W = S + "::wait_timeout_impl"
    # "wake one waiter" is stated on its first primitive, the pop from the waiter queue (reached through wakeup_one or directly)
    WAKE1 = Call(SEGQ + "pop", on=S + ".to_wake")
    ctx.order(W, Call(SEGQ + "push", on=S + ".to_wake"), atomic("fetch_sub", S + ".cnt"), "enqueue-then-count",
              "a waiter is in to_wake before its decrement makes it visible to post()")
    ctx.order(W, atomic("fetch_sub", S + ".cnt"), SB_PARK, "count-then-park", "the waiter announces itself before parking")
    fs = is_call_result(A("fetch_sub"))
    ctx.must_follow(W, None, WAKE1, "late-permit-self-wake",
                    "a waiter whose decrement found a positive count (a post slipped in after try_wait) wakes one waiter", edge=
                    lambda a: (a.kind == "cmp" and a.op == "Gt" and fs(a.a) and is_const(0)(a.b)) or (a.kind == "cmp" and a.op == "Lt" and fs(a.b) and is_const(0)(a.a)),
                    edge_label="edge `cnt.fetch_sub(1) > 0`", exits=lambda g: ctx.an.sites(g, SB_PARK, "may"))
    # true only with a permit
    f = ctx.fn("R-EXIT", W, "true-only-with-permit")
    if f is not None:
        def ret_true_sites(g):
            out = []
            for pt in g.points():
                n = g.node(pt)
                if not g.is_term(pt) and n["s"] == "=" and not n["l"]["p"] and n["l"]["l"] == 0 and n["rv"]["r"] == "use" and const_int(g, n["rv"]["o"]) == 1:
                    out.append(pt)
            return out
        ctx.guarded(W, ret_true_sites, any_of(call_true(re.escape(S) + "::try_wait"), variant_of_call(re.escape(SB) + "::park", "Ok")),
                    "true-only-with-permit", "wait returns true only after try_wait succeeded or park returned Ok (a permit was handed over)",
                    pred_label="edge `try_wait()` is true / `park()` is Ok")
    handshake_waiter(ctx, W, Call(re.escape(S) + "::post"), "handshake", "permit", park_err, exits_kind="ret+trigger")
    handshake_waker(ctx, S + "::wakeup_one", Call(re.escape(S) + "::post"), "waker", "permit")
    syncblocker_rules(ctx)      # the handshake primitives themselves (release is consumed atomically by exactly one side)
    shared.no_panicking_instant_arithmetic(ctx)
    for g in [x for x in ctx.prog.find(re.escape(S) + "::") if ctx.an.sites(x, Call(SEGQ + "pop", on=S + ".to_wake", transitive=False), "must")]:
        pops = ctx.an.sites(g, Call(SEGQ + "pop", on=S + ".to_wake", transitive=False), "must")
        ups = shared.own_sites(ctx, g, Call(re.escape(SB) + "::unpark", transitive=False, where=shared._not_own_blocker))
        r = ctx.an.reach(g, [Point(0, 0)], blocked=pops)
        bad = sorted(u for u in ups if u in r and u not in pops)
        ctx.ob("R-ORDER", g.id, "pop-then-unpark", bool(ups) and not bad, "the waiter that is unparked was dequeued (pop before unpark in %s)" % g.id if ups and not bad else
               "%s unparks a waiter it did not dequeue first" % g.id, g.where((bad or sorted(pops))[0]))
    # post
    P = S + "::post"
    fa = is_call_result(A("fetch_add"))
    ctx.must_call(P, atomic("fetch_add", S + ".cnt"), "post-increments", "post always adds one permit")
    ctx.must_follow(P, None, WAKE1, "post-wakes-waiter",
                    "a post that finds waiters (old count < 0) wakes one", edge=
                    lambda a: (a.kind == "cmp" and a.op == "Lt" and fa(a.a) and is_const(0)(a.b)) or (a.kind == "cmp" and a.op == "Gt" and fa(a.b) and is_const(0)(a.a)),
                    edge_label="edge `cnt.fetch_add(1) < 0`")
    ctx.guarded(P, WAKE1,
                lambda a: (a.kind == "cmp" and a.op == "Lt" and fa(a.a) and is_const(0)(a.b)) or (a.kind == "cmp" and a.op == "Gt" and fa(a.b) and is_const(0)(a.a)),
                "post-wakes-only-waiters", "post pops a waiter only when the old count was negative (a waiter is guaranteed to be queued)",
                pred_label="edge `cnt.fetch_add(1) < 0`")
    T = S + "::try_wait"
    ft = ctx.prog.fn(T)
    fu_sites = sorted(ctx.an.sites(ft, Call(A("fetch_update"), on=S + ".cnt", transitive=False), "must")) if ft is not None else []
    if fu_sites:
        # the std idiom: cnt.fetch_update(set, fetch, |c| if c > 0 { Some(c - 1) } else { None }).is_ok()  (same obligations, same keys)
        t = ft.node(fu_sites[0])
        cl = [ctx.prog.fns.get(c) for c in closure_args(ft, t)]
        g = cl[0] if cl and cl[0] is not None else None
        if g is None:
            ctx.missing("R-EXIT", T, "cas-only-if-positive", "closure of fetch_update not found")
        else:
            some = Agg(r"(std|core)::option::Option", "Some", transitive=False)
            ctx.guarded(g.id, some, lambda a: a.kind == "cmp" and ((a.op == "Gt" and is_const(0)(a.b)) or (a.op == "Lt" and is_const(0)(a.a))),
                        "cas-only-if-positive", "try_wait attempts the decrement only while the observed count is > 0 (never takes a permit that is not there)", pred_label="edge `cnt > 0`")
            ok = False; site = None
            for pt in g.points():
                n = g.node(pt)
                if not g.is_term(pt) and n["s"] == "=" and n["rv"]["r"] == "agg" and n["rv"].get("var") == "Some" and n["rv"]["ops"]:
                    site = pt
                    o = simplify(trace_operand(g, n["rv"]["ops"][0]))
                    while o[0] == "field" and o[2] == "(tuple)": o = simplify(o[1])
                    ok = o[0] == "bin" and o[1] in ("Sub", "SubWithOverflow", "SubUnchecked") and simplify(o[2])[0] == "arg" and is_const(1)(simplify(o[3]))
            ctx.ob("R-EXIT", T, "cas-decrements-by-one", ok, "try_wait's update replaces the observed count c by c-1" if ok else
                   "try_wait's fetch_update closure no longer is (c -> c-1): permits are not conserved", g.where(site) if site else g.where())
        ro = simplify(trace_local(ft, 0))
        okr = False
        if ro[0] == "call" and re.search(r"result::Result::is_ok$", ro[2] or "") is not None:
            a0 = simplify(trace_operand(ft, ft.term(ro[1])["args"][0]))
            while a0[0] in ("ref", "deref"): a0 = simplify(a0[1])
            okr = a0[0] == "call" and a0[1] == fu_sites[0].bb
        if not okr:
            # accept `match fetch_update(..) { Ok(_) => true, Err(_) => false }` through the generic guard
            def ret_true(g2):
                return [pt for pt in g2.points() if not g2.is_term(pt) and g2.node(pt)["s"] == "=" and not g2.node(pt)["l"]["p"] and g2.node(pt)["l"]["l"] == 0
                        and g2.node(pt)["rv"]["r"] == "use" and const_int(g2, g2.node(pt)["rv"]["o"]) == 1]
            ctx.guarded(T, ret_true, variant_of_call(A("fetch_update"), "Ok"), "true-only-on-cas-ok", "try_wait reports success only when its update succeeded", pred_label="edge fetch_update is Ok")
        else:
            ctx.ob("R-EXIT", T, "true-only-on-cas-ok", True, "try_wait returns fetch_update(..).is_ok(): success is reported only when the decrement was stored", ft.where(fu_sites[0]))
        ctx.never(T, SB_PARK, "never-blocks", "try_wait never blocks")
    else:
        # try_wait: decrement only by CAS behind cnt > 0
        T = S + "::try_wait"
        cas = A("compare_exchange(_weak)?")
        ctx.guarded(T, Call(cas, on=S + ".cnt"), lambda a: a.kind == "cmp" and a.op in ("Gt",) and is_const(0)(a.b) or (a.kind == "cmp" and a.op == "Lt" and is_const(0)(a.a)),
                    "cas-only-if-positive", "try_wait attempts the decrement only while the observed count is > 0 (never takes a permit that is not there)",
                    pred_label="edge `cnt > 0`")
        def ret_true(g):
            return [pt for pt in g.points() if not g.is_term(pt) and g.node(pt)["s"] == "=" and not g.node(pt)["l"]["p"] and g.node(pt)["l"]["l"] == 0
                    and g.node(pt)["rv"]["r"] == "use" and const_int(g, g.node(pt)["rv"]["o"]) == 1]
        ctx.guarded(T, ret_true, variant_of_call(cas, "Ok"), "true-only-on-cas-ok", "try_wait reports success only when its CAS succeeded", pred_label="edge CAS is Ok")
        ctx.never(T, SB_PARK, "never-blocks", "try_wait never blocks")
        # the CAS stores cnt-1
        f = ctx.fn("R-EXIT", T, "cas-decrements-by-one")
        if f is not None:
            ok = False; site = None
            for pt in ctx.an.sites(f, Call(cas, on=S + ".cnt"), "must"):
                site = pt
                t = f.node(pt)
                cur = simplify(trace_operand(f, t["args"][1])); new = simplify(trace_operand(f, t["args"][2]))
                # new == cur - 1
                def is_sub1(o, base):
                    while o[0] == "field" and o[2] == "(tuple)": o = simplify(o[1])   # checked-sub tuple .0
                    return o[0] == "bin" and o[1] in ("Sub", "SubWithOverflow", "SubUnchecked") and simplify(o[2]) == base and is_const(1)(simplify(o[3]))
                ok = is_sub1(new, cur)
            ctx.ob("R-EXIT", T, "cas-decrements-by-one", ok, "try_wait's CAS replaces the observed count c by c-1" if ok else
                   "try_wait's CAS no longer is (c -> c-1): permits are not conserved", f.where(site))
    # R-MO
    ctx.mo_floor(S + ".cnt", ("fetch_add",), "REL", "post-release", "what the poster did happens-before the waiter proceeds", only_in=re.escape(P))
    ctx.mo_floor(S + ".cnt", ("fetch_sub",), "ACQ", "wait-acquire", "", only_in=re.escape(W))
    ctx.mo_floor(S + ".cnt", ("compare_exchange", "compare_exchange_weak", "fetch_update"), "ACQ", "trywait-acquire", "", only_in=re.escape(T))

    # ---- SyncFlag
    FW = F + "::wait_timeout_impl"
    ctx.order(FW, Call(SEGQ + "push", on=F + ".to_wake"), atomic("fetch_sub", F + ".cnt"), "flag/enqueue-then-count",
              "a SyncFlag waiter is queued before its decrement")
    ctx.must_follow(FW, None, Call(re.escape(F) + "::wakeup_all"), "flag/late-fire-self-wake",
                    "a waiter whose decrement found the flag already fired wakes everybody (incl. itself)", edge=
                    lambda a: (a.kind == "cmp" and a.op == "Gt" and fs(a.a) and is_const(0)(a.b)) or (a.kind == "cmp" and a.op == "Lt" and fs(a.b) and is_const(0)(a.a)),
                    edge_label="edge `cnt.fetch_sub(1) > 0`", exits=lambda g: ctx.an.sites(g, SB_PARK, "may"))
    handshake_waiter(ctx, FW, Call(re.escape(F) + "::fire"), "flag/handshake", "fired state", park_err, exits_kind="ret+trigger")
    handshake_waker(ctx, F + "::wakeup_all", Call(re.escape(F) + "::fire"), "flag/waker", "fired state")
    ctx.order(F + "::fire", atomic("store", F + ".cnt"), Call(re.escape(F) + "::wakeup_all"), "flag/store-then-wake",
              "fire publishes the latched value before waking the waiters")
    # writers of SyncFlag.cnt: store(isize::MAX) in fire, fetch_sub(1) in wait_timeout_impl, (new/default)
    writers = {}
    for (f, pt, t, m) in ctx.mo_sites(F + ".cnt", ("store", "swap", "fetch_add", "fetch_sub", "fetch_and", "fetch_or", "fetch_xor", "compare_exchange", "compare_exchange_weak", "fetch_max", "fetch_min", "fetch_update", "fetch_nand")):
        writers.setdefault(f.id, []).append((m, pt))
    allowed = {F + "::fire": {"store"}, FW: {"fetch_sub"}}
    ok = True; msg = []
    for fid, ms in writers.items():
        for m, pt in ms:
            if m not in allowed.get(fid, set()):
                ok = False; msg.append("%s in %s" % (m, fid))
    if not writers:
        ctx.missing("R-WHO", F + ".cnt", "flag/writers", "no writer of SyncFlag.cnt found")
    else:
        ctx.ob("R-WHO", F + ".cnt", "flag/writers", ok, "SyncFlag.cnt is written only by fire (store) and the waiter's decrement" if ok else
               "SyncFlag.cnt has an additional writer (%s): a fired flag could read un-fired again" % ", ".join(msg), None)
    f = ctx.fn("R-WHO", F + "::fire", "flag/fire-stores-max")
    if f is not None:
        ok = False; site = None
        for pt in ctx.an.sites(f, atomic("store", F + ".cnt"), "must"):
            site = pt
            o = simplify(trace_operand(f, f.node(pt)["args"][1]))
            ok = o[0] == "const" and ("isize>::MAX" in (o[1] or "") or "isize::MAX" in (o[1] or "") or o[2] == str(2**63 - 1))
        ctx.ob("R-WHO", F + "::fire", "flag/fire-stores-max", ok, "fire stores isize::MAX (no number of later waiter decrements un-fires the flag)" if ok else
               "fire no longer stores isize::MAX: later waiters' decrements can bring the count back to ≤ 0 (un-fired)", f.where(site))
    # is_fired is cnt > 0
    f = ctx.fn("R-EXIT", F + "::is_fired", "flag/is-fired-positive")
    if f is not None:
        ok = False
        for pt in f.points():
            n = f.node(pt)
            if not f.is_term(pt) and n["s"] == "=" and not n["l"]["p"] and n["l"]["l"] == 0:
                o = simplify(trace_rvalue(f, n["rv"], 0))
                if o[0] == "bin" and ((o[1] == "Gt" and is_call_result(A("load"))(simplify(o[2])) and is_const(0)(simplify(o[3]))) or
                                      (o[1] == "Lt" and is_call_result(A("load"))(simplify(o[3])) and is_const(0)(simplify(o[2])))):
                    ok = True
        ctx.ob("R-EXIT", F + "::is_fired", "flag/is-fired-positive", ok, "is_fired() is `cnt.load() > 0`" if ok else "is_fired() is no longer `cnt.load() > 0`", f.where())
    ctx.import_rules("C02", r"^(sync-blocker|blocker|fast-blocker|thread-park)/")
    sync_wrapper_forwarding(ctx)
    wait_success_evidence(ctx, "may::sync::sync_flag::SyncFlag::wait_timeout_impl", r"may::sync::sync_flag::SyncFlag::is_fired", "flag/true-only-with-evidence", "the flag was seen fired")
    wait_success_evidence(ctx, "may::sync::semphore::Semphore::wait_timeout_impl", r"may::sync::semphore::Semphore::try_wait", "sem/true-only-with-evidence", "try_wait took a permit")
    shared.handoff_not_recursive(ctx, "may::sync::semphore")
    shared.handoff_not_recursive(ctx, "may::sync::sync_flag")
