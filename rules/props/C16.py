"""C16 — cqueue consumes each event once; select! returns a fully run arm (structural clauses)."""
from lib import *
import witness
from props import shared
from props.shared import *
import macrowit

EXPLANATION = ("R-ORDER EventSender::subscribe pushes the event (with the suspended coroutine) before waking the poller, Drop for "
               "EventSender pushes Done before decrementing cnt before waking; R-SLOT register-then-recheck of Cqueue.to_wake; R-EXIT "
               "poll returns Ok(ev) only after continue_bottom ran on that event, Done events go to check_panic and never to the "
               "caller, Finished only behind cnt==0, continue_bottom takes the coroutine out of the event (at most one run); macro "
               "expansion witnesses (analysed MIR of the expansions): top half, then send, then bottom half; select! returns the "
               "token of the polled event")
EXPLANATION_2 = ('EventSender.id is the selectors slot index (read from `total`, one push and one increment per add, Done carries the own id); every popped event is dispatched before the next pop/park/return; the poller taken out of to_wake is unparked; yield_back raises the Cancel panic exactly when the event was not sent (F30); Cqueue is !Sync (F33, compile-fail witness)')
NOT_DECIDED = "exactly-once under simultaneous arms; the Finished-vs-queued-Done window (see findings); liveness"
CONFIGS_QUICK = ["default"]
NEEDS_TARGET = True

CQ = "may::cqueue::Cqueue"
ESD = "may::cqueue::EventSender"
EV = "may::cqueue::Event"

def check(ctx):
    SUB = "<may::cqueue::EventSender as may::coroutine_impl::EventSource>::subscribe"
    push = Call(MQ_MPSC + "push", on=CQ + ".ev_queue", transitive=False)
    take = ao("take", CQ + ".to_wake")
    ctx.must_follow(SUB, push, take, "subscribe/always-wakes", "every queued event is followed by taking the poller out of to_wake (a conditional wake-up loses an event when the poller parked in between)")
    ctx.order(SUB, push, take, "subscribe/push-then-wake", "the event is queued before the poller is taken out of to_wake (the woken poller must find it)")
    f = ctx.fn("R-ORDER", SUB, "subscribe/event-carries-coroutine")
    if f is not None:
        ok = False
        for pt in f.points():
            n = f.node(pt)
            if not f.is_term(pt) and n["s"] == "=" and n["rv"]["r"] == "agg" and n["rv"].get("ak") == "adt" and norm(n["rv"]["adt"]) == EV:
                names = n["rv"]["fields"]
                co = simplify(trace_operand(f, n["rv"]["ops"][names.index("co")]))
                kd = simplify(trace_operand(f, n["rv"]["ops"][names.index("kind")]))
                ok = co[0] == "agg" and co[2] == "Some" and simplify(co[3][0])[0] == "arg" and kd[0] == "agg" and kd[2] == "Normal"
        ctx.ob("R-ORDER", SUB, "subscribe/event-carries-coroutine", ok, "a Normal event carries exactly the suspended select coroutine (Some(co))" if ok else
               "EventSender::subscribe no longer queues Event{kind: Normal, co: Some(co)}", f.where())
    DR = "<may::cqueue::EventSender as std::ops::Drop>::drop"
    ctx.must_follow(DR, push, take, "sender-drop/always-wakes", "the Done event always wakes the poller")
    ctx.order(DR, push, atomic("fetch_sub", CQ + ".cnt"), "sender-drop/done-then-count", "the Done event is queued before the count is decremented (cnt == 0 implies all Done events are queued)")
    ctx.order(DR, atomic("fetch_sub", CQ + ".cnt"), take, "sender-drop/count-then-wake", "the count is decremented before the poller is woken (a poller woken for the last Done sees cnt == 0 afterwards)")
    f = ctx.fn("R-ORDER", DR, "sender-drop/done-has-no-coroutine")
    if f is not None:
        ok = False
        for pt in f.points():
            n = f.node(pt)
            if not f.is_term(pt) and n["s"] == "=" and n["rv"]["r"] == "agg" and n["rv"].get("ak") == "adt" and norm(n["rv"]["adt"]) == EV:
                names = n["rv"]["fields"]
                co = simplify(trace_operand(f, n["rv"]["ops"][names.index("co")])); kd = simplify(trace_operand(f, n["rv"]["ops"][names.index("kind")]))
                ok = co[0] == "agg" and co[2] == "None" and kd[0] == "agg" and kd[2] == "Done"
        ctx.ob("R-ORDER", DR, "sender-drop/done-has-no-coroutine", ok, "a Done event is constructed with co: None" if ok else "the Done event is no longer Event{kind: Done, co: None}", f.where())
    # ---- poll
    PL = CQ + "::poll"
    pop = Call(MQ_MPSC + "pop", on=CQ + ".ev_queue", transitive=False)
    BLK = r"may::sync::blocking::Blocker::"
    ctx.must_follow(PL, ao("store", CQ + ".to_wake"), [pop, Ev("ret")], "poll/register-then-recheck", "the poller registers, then pops again before it may park", rule="R-SLOT",
                    exits=lambda g: ctx.an.sites(g, Call(BLK + "park", transitive=False), "may"))
    ctx.guarded(PL, Call(BLK + "park", transitive=False), variant_of_call(MQ_MPSC + "pop", "None"), "poll/park-only-if-empty", "the poller parks only when the re-check pop returned None",
                rule="R-SLOT", pred_label="edge `ev_queue.pop()` is None")
    ctx.order(PL, ao("store", CQ + ".to_wake"), Call(BLK + "park", transitive=False), "poll/register-before-park", "the poller registers before parking", rule="R-SLOT")
    # Ok(ev) only after continue_bottom on it; Done never returned
    f = ctx.fn("R-EXIT", PL, "poll/ok-only-after-bottom")
    if f is not None:
        oks = [pt for pt in f.points() if direct_match(f, pt, Agg(r"(std|core)::result::Result", "Ok", transitive=False))]
        cb = ctx.an.sites(f, Call(re.escape(EV) + "::continue_bottom", transitive=False), "must")
        pops = ctx.an.sites(f, pop, "must")
        if not oks or not cb:
            ctx.missing("R-EXIT", PL, "poll/ok-only-after-bottom", "Ok construction (%d) / continue_bottom (%d)" % (len(oks), len(cb)))
        else:
            # from each pop, Ok is reachable only through continue_bottom
            r = ctx.an.reach(f, [q for s in pops for q in ctx.an.after(f, s)], blocked=cb | pops)
            bad = [o for o in oks if o in r]
            r0 = ctx.an.reach(f, [Point(0, 0)], blocked=cb)
            bad += [o for o in oks if o in r0]
            ctx.ob("R-EXIT", PL, "poll/ok-only-after-bottom", not bad, "poll returns Ok(ev) only after ev.continue_bottom() ran (the arm's bottom half has run when the caller sees the event)" if not bad else
                   "poll can return an event whose bottom half has not run", f.where((bad or oks)[0]))
            # same event: continue_bottom's receiver and the returned value are the popped event
        done_edge = lambda a: a.kind == "call" and a.truth is True and (a.name or "").endswith("PartialEq>::eq")
        not_done_edge = lambda a: a.kind == "call" and a.truth is False and (a.name or "").endswith("PartialEq>::eq")
        ctx.guarded(PL, Call(re.escape(EV) + "::continue_bottom", transitive=False), not_done_edge, "poll/bottom-only-after-kind-test",
                    "every popped event is tested for kind == Done before it is run as a bottom half / returned (also on the re-check pop after registering)", pred_label="edge `ev.kind == Done` is false",
                    invalidate=pop)
        ctx.guarded(PL, Call(re.escape(CQ) + "::check_panic", transitive=False), done_edge, "poll/done-to-check-panic", "only Done events go to check_panic", pred_label="edge `ev.kind == Done`")
        es = ctx.edges(f, done_edge)
        okd = bool(es)
        for (bi, tb, lab) in es:
            r = ctx.an.reach(f, [Point(tb, 0)], blocked=pops)
            if any(o in r for o in oks) or any(c in r for c in cb): okd = False
        ctx.ob("R-EXIT", PL, "poll/done-never-returned", okd, "a Done event is never returned to the caller nor run as a bottom half" if okd else
               "a Done event can reach continue_bottom / the caller", f.where())
        ctx.must_follow(PL, None, Call(re.escape(CQ) + "::check_panic", transitive=False), "poll/done-always-checked", "every Done event joins its selector (panic propagation, and the selector has really ended)",
                        edge=done_edge, edge_label="edge `ev.kind == Done`", exits=lambda g: set(g.ret_points()) | pops)
    cnt_zero = lambda a: a.kind == "cmp" and a.op == "Eq" and is_call_result(A("load"), CQ + ".cnt")(a.a) and is_const(0)(a.b)
    ctx.guarded(PL, Agg("may::cqueue::PollError", "Finished", transitive=False), cnt_zero, "poll/finished-only-if-cnt-zero", "Finished only behind `cnt == 0`", pred_label="edge `cnt.load() == 0`")
    ctx.guarded(PL, Agg("may::cqueue::PollError", "Finished", transitive=False), variant_of_call(MQ_MPSC + "pop", "None"), "poll/finished-only-if-queue-empty", "Finished only after pop returned None",
                pred_label="edge `ev_queue.pop()` is None")
    shared.cqueue_finished_rules(ctx)
    # (seed C16-3) check_panic: the "only the first panic is re-raised" latch is touched only for a REAL panic. A selector that was
    # removed ends with a Cancel panic; if that sets the latch, the panic of a selector that really failed is swallowed afterwards
    CP = CQ + "::check_panic"
    f = ctx.fn("R-EXIT", CP, "check-panic/latch-only-for-real-panic")
    if f is not None:
        latch = ctx.an.sites(f, Call(A("(swap|compare_exchange|fetch_or|store)"), on=CQ + ".is_panicking", transitive=False), "must")
        is_cancel = lambda a: a.kind == "call" and a.truth is True and re.search(r"PartialEq.*::eq$", a.name or "") is not None
        es = ctx.edges(f, is_cancel)
        filt = ctx.an.sites(f, Call(r".*::downcast_ref", transitive=False), "must")
        if not latch or not es or not filt:
            ctx.missing("R-EXIT", CP, "check-panic/latch-only-for-real-panic", "latch sites=%d `== Cancel` edges=%d downcast_ref=%d" % (len(latch), len(es), len(filt)))
        else:
            r1 = ctx.an.reach(f, [Point(tb, 0) for _, tb, _ in es])
            r2 = ctx.an.reach(f, [Point(0, 0)], blocked=filt)
            bad = [x for x in latch if x in r1 or x in r2]
            ctx.ob("R-EXIT", CP, "check-panic/latch-only-for-real-panic", not bad,
                   "is_panicking is latched only behind the Cancel filter (downcast_ref + `== Error::Cancel` false)" if not bad else
                   "check_panic latches is_panicking for a panic that was not (yet) told apart from Cancel: after a removed selector ended, the real panic of another "
                   "selector is no longer propagated to the poller", f.where(sorted(bad or latch)[0]))
        ctx.guarded(CP, Call(r"std::panic::resume_unwind", transitive=False), call_false(A("swap")), "check-panic/resume-only-first", "a selector's panic is re-raised only when the latch was clear",
                    pred_label="edge `is_panicking.swap(true)` is false")
        ctx.must_follow(CP, None, Call(r"std::panic::resume_unwind", transitive=False), "check-panic/first-real-panic-resumed", "the first real panic is always re-raised in the poller",
                        edge=call_false(A("swap")), edge_label="edge `is_panicking.swap(true)` is false", rule="R-EXIT")
    # continue_bottom: Option::take
    CB = EV + "::continue_bottom"
    ctx.order(CB, Call(r"(std|core)::option::Option::take", on=EV + ".co", transitive=False), Call(r"may::coroutine_impl::run_coroutine", transitive=False), "bottom/take-then-run",
              "the bottom half runs the coroutine moved out of the event by Option::take (a second continue_bottom finds None: at most one run per event)")
    # add_impl: count before the coroutine can finish? cnt.fetch_add after spawn
    AI = CQ + "::add_impl"
    ctx.must_call(AI, atomic("fetch_add", CQ + ".cnt"), "add/counts-selector", "every added selector is counted")
    shared.cqueue_selector_slot_rules(ctx)
    # EventSender::send checks cancel before yielding
    SD = ESD + "::send"
    ctx.order(SD, Call(r"may::cancel::CancelImpl::check_cancel", transitive=False), Call(r"may::yield_now::yield_with", transitive=False), "send/cancel-check-before-yield",
              "a removed selector stops in send() before publishing an event")
    ctx.must_call(SD, Call(r"may::yield_now::yield_with", transitive=False), "send/always-yields", "send always hands the bottom half to the poller")
    # ---- macro expansion witnesses
    if ctx.cfg == "default":
        mw = macrowit.load(ctx.prog.extract_info)
        mctx = Ctx(ctx.prop, mw, ctx.cfg, ctx.tier)
        SEND = Call(r"may::cqueue::EventSender::send", transitive=False)
        for w, tops in (("macrowit::w_oneshot", ["a"]), ("macrowit::w_loop", ["a"]), ("macrowit::w_select", ["a", "b"])):
            wf = mw.fn(w)
            if wf is None:
                ctx.missing("R-ORDER", w, "expansion", "witness function %s not found" % w); continue
            found = 0
            stack = [wf]
            cls = []
            seen_ids = set()
            while stack:
                g = stack.pop()
                if g.id in seen_ids: continue
                seen_ids.add(g.id); cls.append(g); stack.extend(mw.closures_of(g))
            for g in cls:
                for x in tops:
                    top = Call(r"macrowit::marker_top_" + x, transitive=False); bot = Call(r"macrowit::marker_bottom_" + x, transitive=False)
                    if mctx.an.sites(g, top, "must"):
                        found += 1
                        a = mctx.order(g.id, top, SEND, "expansion/%s/top-then-send:%s" % (w.split("::")[-1], x), "in the expansion the top half runs before the event is sent")
                        b = mctx.order(g.id, SEND, bot, "expansion/%s/send-then-bottom:%s" % (w.split("::")[-1], x), "in the expansion the bottom half runs only after send() returned (i.e. inside the poller's continue_bottom)")
            if found != len(tops):
                ctx.missing("R-ORDER", w, "expansion", "expected %d arm closure(s) in the expansion of %s, found %d" % (len(tops), w, found))
        # select! returns ev.token of the polled event
        sf = [g for g in mw.fns.values() if g.id.startswith("macrowit::w_select::{closure#0}") and mctx.an.sites(g, Call(re.escape(CQ) + "::poll", transitive=False), "must")]
        ok = False
        if len(sf) == 1:
            g = sf[0]
            for pt in g.points():
                n = g.node(pt)
                if not g.is_term(pt) and n["s"] == "=" and not n["l"]["p"] and n["l"]["l"] == 0:
                    o = simplify(trace_rvalue(g, n["rv"], 0))
                    if all_fields(o)[-1:] == [EV + ".token"] and root_of(o)[0] == "call" and root_of(o)[2] == CQ + "::poll": ok = True
        mctx.ob("R-EXIT", "macrowit::w_select", "expansion/select-returns-polled-token", ok, "select! returns the token of the event returned by poll" if ok else
                "the expansion of select! does not return `ev.token` of the polled event", None)
        # distinct coroutine_local keys
        k1 = mw.fn("macrowit::KEY_ONE::__key"); k2 = mw.fn("macrowit::KEY_TWO::__key")
        def key_ty(g):
            for pt in g.points():
                if g.is_term(pt) and g.node(pt)["t"] == "call" and (callee_name(g.node(pt)) or "").endswith("TypeId::of"):
                    ga = callee_generic_args(g.node(pt)); return ga[0] if ga else None
        okk = k1 is not None and k2 is not None and key_ty(k1) and key_ty(k2) and key_ty(k1) != key_ty(k2)
        mctx.ob("R-TYPE", "macrowit::KEY_*", "expansion/distinct-local-keys", bool(okk), "two coroutine_local! keys of the same value type get distinct TypeId keys (%s vs %s)" % (key_ty(k1) if k1 else None, key_ty(k2) if k2 else None)
                if okk else "two coroutine_local! keys of the same type share a TypeId: they alias each other's storage", None)
        ctx.obs.extend(mctx.obs)
        for k, v in mctx.rule_counts.items(): ctx.rule_counts[k] = ctx.rule_counts.get(k, 0) + v
    shared.taken_waiter_is_woken(ctx, only=r"cqueue::Cqueue\.to_wake$")
    # every event popped by poll is dispatched: its bottom half runs (Normal) or its selector is joined (Done) before poll pops again,
    # parks or returns - an event that is popped and dropped is consumed without its bottom half having run
    PL = CQ + "::poll"
    f = ctx.fn("R-PAIR", PL, "poll/popped-event-dispatched")
    if f is not None:
        POP = Call(MQ_MPSC + "pop", on=CQ + ".ev_queue", transitive=False)
        pops = ctx.an.sites(f, POP, "must")
        disp = ctx.an.sites(f, Call(re.escape(EV) + "::continue_bottom", transitive=False), "must") | ctx.an.sites(f, Call(re.escape(CQ) + "::check_panic", transitive=False), "must")
        es = ctx.edges(f, variant_of_call(MQ_MPSC + "pop", "Some"))
        if not pops or not disp or not es:
            ctx.missing("R-PAIR", PL, "poll/popped-event-dispatched", "pop sites=%d dispatch sites=%d pop-Some edges=%d" % (len(pops), len(disp), len(es)))
        else:
            stops = set(f.ret_points()) | pops | ctx.an.sites(f, Call(r"may::sync::blocking::Blocker::park", transitive=False), "must")
            r = ctx.an.reach(f, [Point(tb, 0) for _, tb, _ in es], blocked=disp)
            bad = sorted(x for x in stops if x in r)
            ctx.ob("R-PAIR", PL, "poll/popped-event-dispatched", not bad, "every event popped by poll goes through continue_bottom (Normal) or check_panic (Done) before poll pops again, parks or returns" if not bad else
                   "poll can pop an event and go on without running its bottom half / joining its selector: the event is consumed (dropped) although its bottom half never ran", f.where(bad[0]) if bad else f.where(sorted(pops)[0]))
    ctx.import_rules("C02", r"^atomic-option/")
    # an event that was queued is consumed with its bottom half: once the select coroutine is resumed by continue_bottom nothing may stop it
    # before the bottom half - EventSender::yield_back (which runs on that resume) is not a cancellation point (seed C16-8)
    YB = "<may::cqueue::EventSender as may::coroutine_impl::EventSource>::yield_back"
    ctx.never(YB, Call(r"may::cancel::CancelImpl::check_cancel"),
              "yield-back/not-a-cancellation-point", "EventSender::yield_back never looks at the cancel bit: a cancel that landed after the event was queued must not skip the bottom half of an event "
              "that poll (or the final drain) has already consumed")
    # (F30) the one exception is told apart by the passed-in result: only yield_with's user-space short-circuit (cancel seen before subscribe:
    # the event was never queued) passes one in; then the bottom half must not run - no poll will ever consume that event
    PARA_SOME = variant_of_call(r"may::yield_now::get_co_para", "Some")
    ctx.guarded(YB, Call(r"may::cancel::trigger_cancel_panic", transitive=False), PARA_SOME, "yield-back/cancel-panic-only-if-event-not-sent",
                "EventSender::yield_back raises the Cancel panic only when a result was passed in (the event was not sent)", pred_label="edge `get_co_para()` is Some")
    ctx.guarded(YB, Call(r"may::cancel::trigger_cancel_panic", transitive=False), call_false(r"std::thread::panicking"), "yield-back/no-double-panic",
                "…and not while the coroutine is already unwinding", pred_label="edge `thread::panicking()` is false")
    f = ctx.fn("R-EXIT", YB, "yield-back/unsent-event-never-runs-bottom")
    if f is not None:
        es = ctx.edges(f, PARA_SOME)
        blk, _ = ctx.edge_blocker(f, call_true(r"std::thread::panicking"))
        trig = ctx.an.sites(f, Call(r"may::cancel::trigger_cancel_panic", transitive=False), "must")
        r = ctx.an.reach(f, [Point(tb, 0) for _, tb, _ in es], blocked=trig, blocked_edges=blk)
        bad = [x for x in f.ret_points() if x in r]
        ctx.ob("R-EXIT", YB, "yield-back/unsent-event-never-runs-bottom", bool(es) and not bad,
               "when yield_with short-circuits on a cancel (result passed in, subscribe skipped, no event queued) yield_back does not return into the bottom half" if es and not bad else
               "EventSender::yield_back returns normally when yield_with skipped subscribe because of a cancel: send() returns, the bottom half runs although no event was queued and no poll "
               "ever consumes it", f.where())
    # ---- R-TYPE (F33): only the owner polls the single-consumer event queue
    witness.run_witness(ctx, "c16_cqueue", ctx.prog.extract_info.get("target"))
    shared.no_blocking_landing_pad(ctx)
    # dependency (seed C16-9): the final drain really blocks until Finished only with the owner's cancel disabled (rules owned by C14)
    ctx.import_rules("C14", r"^cqueue/drain-cancel-masked$|^scope/every-child-join")
