"""C03 — mpsc / spsc block queues: publication and claim discipline (structural clauses, NOT linearizability)."""
from lib import *
from props import shared
from props.shared import *

EXPLANATION = ("R-ORDER write-before-publish in the producers (slot written before `ready`/`tail.index` is stored; a slot is written "
               "only by the producer whose CAS reserved it), R-EXIT read-behind-publish in the consumers (a slot is read only behind "
               "an observation that it is published) and `None`/empty only behind `pop_index >= push_index`, delayed free of consumed "
               "blocks, Drop drains, R-MO Release/Acquire floors on the publishing atomics, R-WHO single-consumer confinement of "
               "every may_queue::mpsc/spsc queue field used by may")
EXPLANATION_2 = ("block-boundary discipline (the committing side moves its block pointer iff the committed index is block-aligned) for mpsc pop/fast_bulk_pop/bulk_pop and spsc push/pop/bulk_pop; mpsc packed tail word (pack(block,id+1) inside a block, lock bit exactly at the last slot, lock released on every path, plain store only under the lock, next-next block installed before unlock); fast_bulk_pop commits iff it took values, bulk_pop drops the fast batch only when empty; spsc block recycling only behind the consumer's head")
NOT_DECIDED = ("linearizability and FIFO order of histories; index arithmetic across block boundaries and wrap-around; ABA on recycled "
               "blocks (inner_cache); the cross-thread unsync_load in spsc::alloc_node")
CONFIGS_QUICK = ["default"]
CONFIGS_THOROUGH = ["default", "nosteal"]

MQ = "may_queue::mpsc"; SQ = "may_queue::spsc"
PTRW = r"(std|core)::ptr::(mut_ptr::)?write"
PTRR = r"(std|core)::ptr::(mut_ptr::|const_ptr::)?read"

def check(ctx):
    cas = A("compare_exchange(_weak)?")
    # ================= mpsc
    SET = MQ + "::BlockNode::set"
    ctx.order(SET, Call(PTRW, on=MQ + "::Slot.value"), atomic("store", MQ + "::Slot.ready"), "mpsc/write-then-ready",
              "the slot payload is written before `ready` is published")
    f = ctx.fn("R-ORDER", SET, "mpsc/ready-stores-nonzero")
    if f is not None:
        ok = False; site = None
        for pt in ctx.an.sites(f, atomic("store", MQ + "::Slot.ready"), "must"):
            site = pt; ok = (const_int(f, f.node(pt)["args"][1]) or 0) != 0
        ctx.ob("R-ORDER", SET, "mpsc/ready-stores-nonzero", ok, "set() marks the slot ready with a non-zero value" if ok else "set() no longer stores a non-zero `ready`", f.where(site))
    ctx.mo_floor(MQ + "::Slot.ready", ("store",), "REL", "mpsc/ready-store", "publishes the slot payload", only_in=re.escape(SET))
    ctx.mo_floor(MQ + "::Slot.ready", ("load",), "ACQ", "mpsc/ready-load", "the consumer reads the payload after seeing ready", min_sites=3)
    # consumers read a slot only behind a ready observation
    rd = Call(PTRR + r"|std::mem::MaybeUninit::assume_init_ref", on_any=MQ + "::Slot.value", transitive=False)
    ready_set = lambda a: (a.kind == "cmp" and a.op == "Ne" and is_call_result(A("load"))(a.a) and is_const(0)(a.b))
    ctx.guarded(MQ + "::BlockNode::try_get", rd, ready_set, "mpsc/try-get-behind-ready", "try_get reads the slot only when `ready != 0`", pred_label="edge `ready.load() != 0`")
    for fn in ("get", "peek"):
        ctx.guarded(MQ + "::BlockNode::" + fn, rd, ready_set, "mpsc/%s-behind-ready" % fn, "%s reads the slot only after the spin saw `ready != 0`" % fn, pred_label="edge `ready.load() == 0` is false")
    # producers: a slot is written only by the producer whose CAS reserved it
    PUSH = MQ + "::Queue::push"
    ctx.guarded(PUSH, Call(re.escape(MQ) + "::BlockNode::set"), variant_of_call(cas, "Ok"), "mpsc/set-behind-cas", "a producer writes the slot only after its CAS on tail reserved it",
                pred_label="edge `tail.compare_exchange_weak` is Ok")
    ctx.guarded(PUSH, atomic("store", on=MQ + "::BlockPtr.0"), variant_of_call(cas, "Ok"), "mpsc/tail-advance-behind-cas", "only the producer that filled the last slot installs the next block",
                pred_label="edge CAS is Ok")
    ctx.order(PUSH, atomic("store", MQ + "::BlockNode.next"), atomic("store", MQ + "::BlockPtr.0"), "mpsc/next-next-then-tail",
              "the next-next block is linked before the tail moves to the next block (a producer that fills it must find `next`)")
    ctx.order(PUSH, Call(re.escape(MQ) + "::BlockNode::set"), atomic("store", MQ + "::BlockPtr.0"), "mpsc/set-then-tail-advance",
              "the last slot of a block is written before the tail is released to the next block")
    ctx.mo_floor(MQ + "::BlockPtr.0", ("compare_exchange", "compare_exchange_weak"), "ACQ", "mpsc/tail-cas", "a producer dereferences the block read from tail", only_in=re.escape(PUSH))
    ctx.mo_floor(MQ + "::BlockPtr.0", ("store",), "REL", "mpsc/tail-store", "publishes the next block to the other producers", only_in=re.escape(PUSH))
    ctx.mo_floor(MQ + "::BlockPtr.0", ("load",), "ACQ", "mpsc/tail-load", "block pointer is dereferenced", only_in=re.escape(MQ) + r"::Queue::(push|push_index)")
    ctx.mo_floor(MQ + "::BlockNode.next", ("store",), "REL", "mpsc/next-store", "publishes a freshly allocated block", only_in=re.escape(PUSH))
    ctx.mo_floor(MQ + "::BlockNode.next", ("load",), "ACQ", "mpsc/next-load", "", only_in=re.escape(MQ) + "::BlockNode::wait_next_block", min_sites=2)
    ctx.guarded(MQ + "::BlockNode::wait_next_block", Ev("ret"), call_false(r"(std|core)::ptr::(mut_ptr::|const_ptr::)?is_null"), "mpsc/wait-next-non-null",
                "wait_next_block returns only a non-null next block", pred_label="edge `next.is_null()` is false")
    # pop: None only behind pop_index >= push_index; a reserved but unwritten slot is waited for
    POP = MQ + "::Queue::pop"
    pidx = is_call_result(re.escape(MQ) + "::Queue::push_index")
    empty = lambda a: a.kind == "cmp" and ((a.op == "Ge" and pidx(a.b)) or (a.op == "Le" and pidx(a.a)))
    ctx.guarded(POP, Agg(r"(std|core)::option::Option", "None", transitive=False), empty, "mpsc/none-only-if-empty",
                "pop returns None only when pop_index >= push_index (a reserved but not yet written slot is waited for, not reported as empty)",
                pred_label="edge `pop_index >= push_index()`")
    ctx.order(POP, Call(re.escape(MQ) + "::BlockNode::(try_get|get)"), atomic("store", MQ + "::Position.index"), "mpsc/take-then-commit", "the value is taken before the pop index is committed")
    BP = MQ + "::Queue::bulk_pop"
    ctx.guarded(BP, Call(r"smallvec::SmallVec::new", transitive=False), empty, "mpsc/bulk-empty-only-if-empty", "bulk_pop returns an empty vector only when pop_index >= push_index",
                pred_label="edge `pop_index >= push_index`")
    ctx.guarded(BP, Call(re.escape(MQ) + "::BlockNode::copy_to_bulk"), lambda a: a.kind == "cmp" and ((a.op == "Lt" and True) or (a.op == "Gt" and True)) and (pidx(a.a) or pidx(a.b) or True) and a.op in ("Lt", "Gt"),
                "mpsc/bulk-copy-only-if-nonempty", "bulk_pop copies slots only when pop_index < push_index (each copied slot was reserved)", pred_label="edge `pop_index < push_index`")
    shared.queue_commit_rules(ctx)
    shared.mpsc_fast_bulk_contiguous(ctx)
    # delayed free of consumed blocks
    for fn in ("pop", "bulk_pop", "fast_bulk_pop"):
        fid = MQ + "::Queue::" + fn
        ctx.must_follow(fid, Call(r"(std|alloc)::boxed::Box::from_raw", transitive=False), Call(r"(std|core)::option::Option::replace", transitive=False),
                        "mpsc/%s-delayed-free" % fn, "a consumed block is parked in old_block (its producer may still be inside wait_next_block), never freed at once")
        ctx.order(fid, Call(r"(std|alloc)::boxed::Box::from_raw", transitive=False), Call(A("store"), on=MQ + "::Position.block", transitive=False), "mpsc/%s-next-block" % fn,
                  "the head moves to the next block only after the old one was retired", need_b=True)
    # (seed C03-3) the retired block is released ONLY by being replaced with the next retired block (one full block later) or
    # by Queue::drop: the producer that filled slot 63 still reads the block (`start`, `next`) after publishing its value
    sites = []; bad = []
    for f in ctx.prog.find(r"may_queue::mpsc::"):
        if f.id.startswith("<may_queue::mpsc::Queue as std::ops::Drop>") or f.id.endswith("::Queue::new"): continue
        for pt in f.points():
            n = f.node(pt)
            if n.get("t") == "call" and n["args"]:
                o = simplify(trace_operand(f, n["args"][0]))
                if (MQ + "::Queue.old_block") in all_fields(o):
                    nm = callee_name(n) or "?"
                    sites.append((f, pt, nm))
                    if not re.fullmatch(r"(std|core)::cell::UnsafeCell::get|(std|core)::option::Option::replace", nm): bad.append((f, pt, nm))
            elif n.get("s") == "=" and n["l"]["p"]:
                o = simplify(trace_place(f, n["l"]))
                if (MQ + "::Queue.old_block") in all_fields(o):
                    sites.append((f, pt, "assignment")); bad.append((f, pt, "assignment"))
    if len([x for x in sites if x[2].endswith("::replace")]) < 3:
        ctx.missing("R-WHO", MQ + "::Queue.old_block", "mpsc/retired-block-only-replaced", "expected >= 3 old_block.replace sites, found %d" % len(sites))
    else:
        ctx.ob("R-WHO", MQ + "::Queue.old_block", "mpsc/retired-block-only-replaced", not bad,
               "old_block is touched only by `replace(next retired block)` (%d sites): a retired block lives until the consumer retired one more block" % len(sites) if not bad else
               "%s uses old_block through %s: the retired block can be freed while the producer that filled its last slot is still inside push (reads `start`, spins on `next`): use-after-free" % (bad[0][0].id, bad[0][2]),
               (bad[0][0].where(bad[0][1]) if bad else sites[0][0].where(sites[0][1])))
    D = "<may_queue::mpsc::Queue as std::ops::Drop>::drop"
    ctx.guarded(D, Call(r"(std|alloc)::boxed::Box::from_raw", transitive=False), call_false(r"(std|core)::option::Option::is_some"), "mpsc/drop-drains",
                "Drop frees the blocks only after pop() returned None (remaining values are dropped once, by pop)", pred_label="edge `pop().is_some()` is false")
    # ================= spsc
    SPUSH = SQ + "::Queue::push"
    TIDX = dict(on=SQ + "::Position.index", on_any=SQ + "::Queue.tail")
    tail_index_store = Call(A("store"), **TIDX, label="tail.index.store")
    ctx.order(SPUSH, Call(re.escape(SQ) + "::BlockNode::set"), tail_index_store, "spsc/write-then-publish", "the slot is written before tail.index publishes it")
    ctx.order(SQ + "::BlockNode::set", Call(PTRW, on=SQ + "::Slot.value"), Call(r"(std|core)::sync::atomic::fence"), "spsc/write-then-fence", "set(): payload write, then the release fence")
    f = ctx.fn("R-ORDER", SPUSH, "spsc/link-then-publish")
    if f is not None:
        ns = ctx.an.sites(f, atomic("store", SQ + "::BlockNode.next"), "may") | ctx.an.sites(f, Call(A("store"), on=SQ + "::Position.block", on_any=SQ + "::Queue.tail"), "may")
        pub = ctx.an.sites(f, tail_index_store, "must")
        if not ns or not pub:
            ctx.missing("R-ORDER", SPUSH, "spsc/link-then-publish", "next/tail.block stores (%d) or tail.index.store (%d) not found" % (len(ns), len(pub)))
        else:
            r = ctx.an.reach(f, [q for s in pub for q in ctx.an.after(f, s)])
            bad = [s for s in ns if s in r]
            ctx.ob("R-ORDER", SPUSH, "spsc/link-then-publish", not bad, "a new block is linked (`next`, `tail.block`) before tail.index publishes the index that makes the consumer follow it" if not bad else
                   "spsc push links the new block after publishing tail.index: the consumer can follow a null/stale `next`", f.where((bad or sorted(ns))[0]))
    ctx.must_call(SPUSH, tail_index_store, "spsc/always-publish", "every push publishes its index")
    ctx.mo_floor(SQ + "::Position.index", ("store",), "REL", "spsc/tail-index-store", "publishes slot + next + tail.block", only_in=re.escape(SPUSH))
    for fn in ("pop", "bulk_pop", "peek"):
        fid = SQ + "::Queue::" + fn
        ld = Call(A("load"), **TIDX, label="tail.index.load")
        ne = lambda a: a.kind == "cmp" and a.op == "Ne" and (is_call_result(A("load"))(a.a) or is_call_result(A("load"))(a.b))
        ctx.guarded(fid, Call(re.escape(SQ) + "::BlockNode::(get|copy_to_bulk|peek)"), ne, "spsc/%s-read-behind-index" % fn,
                    "the consumer reads a slot only behind `index != tail.index.load()`", pred_label="edge `index == push_index` is false")
        f = ctx.fn("R-MO", fid, "spsc/%s-load-acq" % fn)
        if f is not None:
            sites = [(pt, f.node(pt)) for pt in ctx.an.sites(f, ld, "must")]
            if not sites:
                ctx.missing("R-MO", fid, "spsc/%s-load-acq" % fn, "no tail.index.load in %s" % fid)
            for pt, t in sites:
                o = ordering_of(f, t["args"][1])
                good = satisfies(o or "Relaxed", "ACQ")
                ctx.ob("R-MO", fid, "spsc/%s-load-acq" % fn, good, "tail.index.load(%s) in %s %s floor ACQ (its value guards the slot read)" % (o, fid, "meets" if good else "is BELOW"), f.where(pt))
    # (seed C03-4) the consumer reads the slots BEFORE it releases the block / commits the index: with `inner_cache` the producer
    # recycles every block in front of head.block, and reuses every slot in front of head.index
    for fn in ("pop", "bulk_pop"):
        fid = SQ + "::Queue::" + fn
        rd = Call(re.escape(SQ) + "::BlockNode::(get|copy_to_bulk)", transitive=False)
        ctx.order(fid, rd, Call(A("store"), on=SQ + "::Position.block", on_any=SQ + "::Queue.head", transitive=False), "spsc/%s-read-then-release-block" % fn,
                  "the slots are read before head.block hands the block back to the producer's free list", need_b=True)
        ctx.order(fid, rd, Call(A("store"), on=SQ + "::Position.index", on_any=SQ + "::Queue.head", transitive=False), "spsc/%s-read-then-commit" % fn,
                  "the slots are read before head.index commits the pop", need_b=True)
    ctx.guarded(SQ + "::Queue::pop", Agg(r"(std|core)::option::Option", "None", transitive=False),
                lambda a: a.kind == "cmp" and a.op == "Eq" and (is_call_result(A("load"))(a.a) or is_call_result(A("load"))(a.b)),
                "spsc/none-only-if-empty", "pop returns None only when index == tail.index", pred_label="edge `index == push_index`")
    SD = "<may_queue::spsc::Queue as std::ops::Drop>::drop"
    ctx.guarded(SD, Call(r"(std|alloc)::boxed::Box::from_raw", transitive=False), call_true(r"smallvec::SmallVec::is_empty"), "spsc/drop-drains",
                "Drop frees the blocks only after bulk_pop() returned empty", pred_label="edge `bulk_pop().is_empty()` is true")
    # ================= R-WHO: consumer side of every queue field in may
    frozen = {
        "may::sync::mutex::Mutex.to_wake": {"may::sync::mutex::Mutex::lock", "may::sync::mutex::Mutex::unlock"},
        "may::sync::mpsc::InnerQueue.queue": {"may::sync::mpsc::InnerQueue::try_recv", "may::sync::mpsc::InnerQueue::drop_port"},
        "may::sync::spsc::InnerQueue.queue": {"may::sync::spsc::InnerQueue::try_recv", "may::sync::spsc::InnerQueue::drop_port"},
        "may::cqueue::Cqueue.ev_queue": {"may::cqueue::Cqueue::poll"},
        "may::scheduler::Scheduler.global_queues": {"may::scheduler::Scheduler::collect_global"},
        "may::timeout_list::TimerThread.remove_list": {"may::timeout_list::TimerThread::run"},
        "may::io::sys::select::SingleSelector.free_ev": {"may::io::sys::select::Selector::free_unused_event_data"},
        "may::io::sys::select::SingleSelector.del_timers": {"may::io::sys::select::Selector::select"},
        "may::scheduler::Scheduler.local_queues": {"may::scheduler::Scheduler::run_queued_tasks"},
    }
    seen = {}
    cons = Call(r"may_queue::(mpsc|spsc)::Queue::(pop|bulk_pop|peek)", transitive=False)
    for f in ctx.prog.fns.values():
        if not f.id.startswith("may::") and not f.id.startswith("<may::"): continue
        for pt in f.points(cleanup=True):
            if f.is_term(pt) and direct_match(f, pt, cons):
                fs = receiver_fields(f, f.node(pt))
                key = None
                for x in reversed(fs):
                    if x in frozen: key = x; break
                seen.setdefault(key or ("?" + (fs[-1] if fs else "unknown")), []).append((f, pt))
    n = 0
    for fld, sites in sorted(seen.items()):
        for f, pt in sites:
            base = f.id.split("::{closure#")[0]
            n += 1
            if fld.startswith("?"):
                ctx.ob("R-WHO", fld[1:], "single-consumer@" + base, False, "a may_queue single-consumer operation is used on a queue that is not in the confinement table (%s in %s)" % (fld[1:], base), f.where(pt))
            else:
                ok = base in ctx.expand_allowed(frozen[fld])
                ctx.ob("R-WHO", fld, "single-consumer@" + base, ok, "consumer-side operation on %s in %s (allowed: one thread at a time by construction)" % (fld, base) if ok else
                       "%s uses the single-consumer side of %s; only %s may (two consumers corrupt the queue)" % (base, fld, sorted(frozen[fld])), f.where(pt))
    if n < 8:
        ctx.missing("R-WHO", "may_queue consumer sites", "single-consumer", "expected ≥8 consumer-side call sites in may, found %d" % n)
