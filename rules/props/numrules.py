"""R-NUM rule instances shared by C08 and C18 (duration encoding and timer arithmetic)."""
from lib import *
from props.shared import *
import rnum

AD = "may::sync::atomic_dur::AtomicDuration"
TL = "may::timeout_list"

def duration_rules(ctx):
    it = rnum.Interp(ctx.prog)
    # ---- R-NUM encode
    enc = {}
    for fn in ("new", "store"):
        fid = AD + "::" + fn
        f = ctx.fn("R-NUM", fid, "encode")
        if f is None: continue
        # the stored value
        val_op = None; site = None
        for pt in f.points():
            if not f.is_term(pt): continue
            t = f.node(pt)
            if t["t"] != "call": continue
            nm = callee_name(t) or ""
            if nm.endswith("Atomic::new") and fn == "new": val_op = t["args"][0]; site = pt
            if nm.endswith("Atomic::store") and fn == "store" and receiver_leaf(f, t) == AD + ".0": val_op = t["args"][1]; site = pt
        if val_op is None:
            ctx.missing("R-NUM", fid, "encode", "the atomic initialisation/store of the encoded value was not found"); continue
        o = simplify(trace_operand(f, val_op))
        # resolve through a local helper
        g = f
        if o[0] == "call" and o[2] in ctx.prog.fns:
            g = ctx.prog.fns[o[2]]; ctx.fns_touched.add(g.id)
            alts = it.return_alternatives(g)
        elif o[0] == "phi":
            alts = [simplify(a) for a in o[2]]
        else:
            alts = [o]
        consts = [a for a in alts if a[0] == "const"]
        somes = [a for a in alts if a[0] != "const"]
        none_zero = len(consts) == 1 and rnum.const_of(consts[0]) == 0
        ctx.ob("R-NUM", fid, "encode/none-is-zero", none_zero, "None encodes to the sentinel 0" if none_zero else "None no longer encodes to the single constant 0: %s" % [fmt_origin(c) for c in consts], g.where())
        if len(somes) != 1:
            ctx.ob("R-NUM", fid, "encode/decided", False, "UNDECIDED: expected one Some(d) alternative for the encoded value, found %d (%s)" % (len(somes), [fmt_origin(s) for s in somes]), g.where())
            continue
        it.notes = []
        v = it.eval(g, somes[0])
        if v is None:
            ctx.ob("R-NUM", fid, "encode/decided", False, "UNDECIDED (failing closed): the Some(d) encoding `%s` uses an operation outside the interpreter's transfer functions" % fmt_origin(somes[0]), g.where())
            continue
        ctx.ob("R-NUM", fid, "encode/decided", True, "Some(d) encodes to %s with n = d.as_nanos()" % v, g.where(), nontrivial=False)
        enc[fn] = v
        A_ok = v.k >= 1 or v.a >= v.b
        ctx.ob("R-NUM", fid, "encode/A-some-never-none", A_ok,
               "(A) Some(d) never encodes to the None sentinel: %s ≥ 1 for every d ≥ 0" % v if A_ok else
               "(A) Some(d) encodes to 0 = None for d < %d ns (incl. Duration::ZERO): such a timed wait never times out (%s)" % (v.b - v.a, v), g.where())
        B_ok = v.a >= v.b - 1
        ctx.ob("R-NUM", fid, "encode/B-rounds-up", B_ok,
               "(B) the stored count rounds up: count × %d ns ≥ d for every d" % v.b if B_ok else
               "(B) the stored count rounds DOWN (%s): e.g. d = %d ns is stored as %d × %d ns, so the wait can return before d elapsed" % (v, v.b + v.b // 2, 1, v.b), g.where())
        ctx.ob("R-NUM", fid, "encode/no-wrap", not v.trunc, "the conversion to the atomic's integer type saturates (no wrap-around for huge durations)" if not v.trunc else
               "the encoded value is narrowed with a wrapping cast (%s): a huge duration wraps to a short one and fires early" % "; ".join(it.notes), g.where())
    # ---- decode
    dec = {}
    for fn in ("get", "take"):
        fid = AD + "::" + fn
        f = ctx.prog.fn(fid)
        if f is None:
            if fn == "take": ctx.missing("R-NUM", fid, "decode", "AtomicDuration::take not found")
            continue
        ctx.fns_touched.add(fid)
        unit = None; ok_src = False; site = None
        for pt in f.points():
            if not f.is_term(pt): continue
            t = f.node(pt)
            if t["t"] != "call": continue
            nm = callee_name(t) or ""
            m = nm.rsplit("::", 1)[-1]
            if (nm.startswith("std::time::Duration::") or nm.startswith("core::time::Duration::")) and m in rnum.FROM_UNITS:
                unit = rnum.FROM_UNITS[m]; site = pt
                o = simplify(trace_operand(f, t["args"][0]))
                while o[0] == "cast": o = o[1]
                ok_src = o[0] == "call" and re.fullmatch(A("(load|swap)"), o[2] or "") is not None
        if unit is None:
            ctx.ob("R-NUM", fid, "decode/decided", False, "UNDECIDED: no Duration::from_* construction found in %s" % fid, f.where()); continue
        ctx.ob("R-NUM", fid, "decode/value-unchanged", ok_src, "the decoded count is the loaded value itself" if ok_src else "the decoded count is not the plain loaded value (arithmetic in decode is outside the rule)", f.where(site))
        dec[fn] = unit
        # 0 -> None
        ctx.guarded(fid, Agg(r"(std|core)::option::Option", "None", transitive=False), lambda a: a.kind == "val" and a.eq and a.vals == (0,), "decode/zero-is-none:" + fn,
                    "%s returns None exactly for the sentinel" % fn, rule="R-NUM", pred_label="edge `value == 0`")
    for fn, v in enc.items():
        for dn, unit in dec.items():
            ctx.ob("R-NUM", AD, "C-unit-agrees:%s/%s" % (fn, dn), v.b == unit,
                   "(C) %s encodes in units of %d ns and %s decodes in units of %d ns" % (fn, v.b, dn, unit) if v.b == unit else
                   "(C) unit mismatch: %s encodes in units of %d ns but %s decodes in units of %d ns (the timeout is %s by a factor of %g)" %
                   (fn, v.b, dn, unit, "stretched" if unit > v.b else "cut short", max(unit, v.b) / min(unit, v.b)), None)
    # consumers of the encoding
    users = []
    for path, a in ctx.prog.adts.items():
        for var in a["variants"]:
            for fld in var["fields"]:
                if "AtomicDuration" in fld["t"]: users.append("%s.%s" % (path, fld["n"]))
    io_to = ctx.prog.fn("may::io::sys::timeout_handler") is not None
    ctx.ob("R-WHO", AD, "consumers", len(users) >= (5 if io_to else 1), "fields holding an encoded timeout: %s" % sorted(users), None, nontrivial=len(users) > 0)
    # ---- add_timer arithmetic
    AT = TL + "::TimeOutList::add_timer"
    f = ctx.fn("R-NUM", AT, "interval")
    if f is not None:
        iv = None; tm = None; site = None
        for pt in f.points():
            n = f.node(pt)
            if not f.is_term(pt) and n["s"] == "=" and n["rv"]["r"] == "agg" and n["rv"].get("ak") == "adt" and norm(n["rv"]["adt"]) == TL + "::TimeoutData":
                names = n["rv"]["fields"]; tm = simplify(trace_operand(f, n["rv"]["ops"][names.index("time")])); site = pt
        if tm is None:
            ctx.missing("R-NUM", AT, "interval", "construction of TimeoutData not found")
        else:
            # time = now() (+|saturating_add) interval ; interval = conv(dur.as_nanos())
            sat = tm[0] == "call" and (tm[2] or "").endswith("saturating_add")
            plain = tm[0] == "bin" or (tm[0] == "field" and tm[2] == "(tuple)")
            ops = None
            if sat: ops = [simplify(trace_operand(f, a)) for a in f.term(tm[1])["args"]]
            elif plain:
                b = tm
                while b[0] == "field": b = simplify(b[1])
                ops = [simplify(b[2]), simplify(b[3])]
            ctx.ob("R-NUM", AT, "expiry-saturates", sat, "expiry = now().saturating_add(interval): no overflow for huge durations" if sat else
                   "expiry is computed with a plain `+` (%s): a huge duration overflows (debug: panic on the runtime thread; release: wraps and fires early)" % fmt_origin(tm), f.where(site))
            ivv = None
            if ops:
                for o in ops:
                    if not (o[0] == "call" and o[2] == TL + "::now"):
                        it.notes = []; ivv = it.eval(f, o); ivo = o
            if ivv is None:
                ctx.ob("R-NUM", AT, "interval-decided", False, "UNDECIDED (failing closed): the timer interval is not derived from the duration by operations the interpreter understands", f.where(site))
            else:
                ctx.ob("R-NUM", AT, "interval-exact", ivv.a == 0 and ivv.b == 1 and ivv.k == 0, "the timer interval is d.as_nanos() (%s)" % ivv, f.where(site))
                ctx.ob("R-NUM", AT, "interval-no-wrap", not ivv.trunc, "the u128 → u64 conversion of the interval saturates" if not ivv.trunc else
                       "the interval is narrowed with a wrapping cast (%s): durations ≥ 2^64 ns wrap to short ones and fire early" % "; ".join(it.notes), f.where(site))
