"""C07 — channel disconnect is always observed (structural clauses)."""
from lib import *
from props.shared import *

EXPLANATION = ("R-SLOT coverage: every waker's condition (queue, channels) is re-read by every waiter path after registering; R-EXIT "
               "drain-before-Disconnected: Disconnected is reported only after observing zero senders and then (or under a held "
               "permit) finding the queue empty; R-PAIR the mpmc disconnect permit is sticky (a receiver that holds a permit and "
               "finds nothing re-posts it), the last sender wakes/posts, RAII Drop impls call drop_chan/drop_port, drop_port drains")
EXPLANATION_2 = ("channel bookkeeping and spsc Blocker tag rules (see C06); the waiter taken out of a channel's slot is always unparked")
NOT_DECIDED = "hang-freedom in general; exactly-once for values left in the channel (C03)"
CONFIGS_QUICK = ["default"]

MP = "may::sync::mpsc::InnerQueue"; SP = "may::sync::spsc::InnerQueue"; MM = "may::sync::mpmc::InnerQueue"
SPQ = r"may_queue::spsc::Queue::"
SEM = r"may::sync::semphore::Semphore::"
DISC = Agg(r"std::sync::\w+::(TryRecvError|RecvTimeoutError)", "Disconnected", transitive=False)

def senders_zero(field):
    """edge on which `field.load()` was observed to be 0"""
    ld = is_call_result(A("load"))
    def p(a):
        if a.kind == "cmp":
            if a.op == "Le" and ld(a.a) and is_const(0)(a.b): return True     # !(x > 0)
            if a.op == "Ge" and ld(a.b) and is_const(0)(a.a): return True
            if a.op == "Eq" and ((ld(a.a) and is_const(0)(a.b)) or (ld(a.b) and is_const(0)(a.a))): return True
        if a.kind == "val" and a.eq and a.vals == (0,) and ld(a.origin): return True
        return False
    return p

def check(ctx):
    drain_rules(ctx)
    rest(ctx)

def drain_rules(ctx):
    # ---- drain before Disconnected: mpsc / spsc
    for inner, q, pop in ((MP, MP + ".queue", Call(MQ_MPSC + "pop", on=MP + ".queue", transitive=False)),
                          (SP, SP + ".queue", Call(SPQ + "pop", on=SP + ".queue", transitive=False))):
        tag = inner.split("::")[-2]
        fid = inner + "::try_recv"
        f = ctx.fn("R-EXIT", fid, tag + "/drain-before-disconnected")
        if f is None: continue
        ctx.guarded(fid, DISC, senders_zero(inner + ".channels"), tag + "/disconnected-only-if-no-sender",
                    "%s try_recv reports Disconnected only after observing zero senders" % tag, pred_label="edge `channels.load() == 0`")
        es = ctx.edges(f, senders_zero(inner + ".channels"))
        ds = ctx.an.sites(f, DISC, "may"); ps = ctx.an.sites(f, pop, "must")
        if not es or not ds or not ps:
            ctx.missing("R-EXIT", fid, tag + "/drain-before-disconnected", "zero-sender edges=%d Disconnected=%d pop=%d" % (len(es), len(ds), len(ps)))
        else:
            r = ctx.an.reach(f, [Point(tb, 0) for _, tb, _ in es], blocked=ps)
            bad = [d for d in ds if d in r]
            ctx.ob("R-EXIT", fid, tag + "/drain-before-disconnected", not bad,
                   "after seeing zero senders the queue is popped once more before Disconnected is reported (a value pushed just before the last sender left is not lost)" if not bad else
                   "%s try_recv reports Disconnected right after seeing zero senders, without re-checking the queue: a value sent just before the drop is missed" % tag,
                   f.where((bad or sorted(ds))[0]))
        ctx.guarded(fid, Agg(r"std::sync::\w+::TryRecvError", "Empty", transitive=False), variant_of_call(pop.fn.pattern, "None"), tag + "/empty-only-if-pop-none",
                    "Empty is reported only after pop returned None", pred_label="edge `queue.pop()` is None")
def rest(ctx):
    # ---- mpmc
    for fn in ("try_recv", "recv"):
        fid = MM + "::" + fn
        f = ctx.fn("R-EXIT", fid, "mpmc/" + fn + "/drain-before-disconnected")
        if f is None: continue
        zero = senders_zero(MM + ".tx_ports")
        deleg = lambda a: a.kind == "variant" and a.name == "Disconnected" and root_of(a.origin)[0] == "call" and root_of(a.origin)[2] == MM + "::try_recv"
        ctx.guarded(fid, DISC, any_of(zero, deleg), "mpmc/" + fn + "/disconnected-only-if-no-sender",
                    "mpmc %s reports Disconnected only after observing tx_ports == 0" % fn, pred_label="edge `tx_ports.load() == 0`")
        es = ctx.edges(f, zero)
        tw = Call(SEM + "try_wait", on=MM + ".sem", transitive=False)
        after_zero = ctx.an.reach(f, [Point(tb, 0) for _, tb, _ in es])
        recheck_bbs = set(s.bb for s in ctx.an.sites(f, tw, "must") if s in after_zero)
        def evidence(a):
            if a.kind == "call" and a.truth is False and a.name == "may::sync::semphore::Semphore::try_wait" and a.site in recheck_bbs: return True
            if variant_of_call(SEGQ + "pop", "None")(a): return True
            if deleg(a): return True
            return False
        ctx.guarded(fid, DISC, evidence, "mpmc/" + fn + "/drain-before-disconnected",
                    "mpmc %s reports Disconnected only after a permit re-check that follows the zero-senders observation failed, or after popping None while "
                    "holding a permit (a value sent just before the last sender left is not missed)" % fn,
                    pred_label="edge re-check `try_wait()` is false / `queue.pop()` is None")
        # sticky permit: from a held permit every path to return passes pop-Some or post
        post = ctx.an.sites(f, Call(SEM + "post", on=MM + ".sem", transitive=False), "must")
        blk_some, good_some = ctx.edge_blocker(f, variant_of_call(SEGQ + "pop", "Some"))
        starts = [Point(tb, 0) for _, tb, _ in ctx.edges(f, any_of(call_true(SEM + "try_wait"), call_true(SEM + "wait_timeout")))]
        for s in ctx.an.sites(f, Call(SEM + "wait", on=MM + ".sem", transitive=False), "must"):
            starts.extend(ctx.an.after(f, s))
        if not starts or not post or not good_some:
            ctx.missing("R-PAIR", fid, "mpmc/" + fn + "/permit-returned", "permit acquisition (%d) / post (%d) / pop-Some edge (%d) not found" % (len(starts), len(post), len(good_some)))
        else:
            r = ctx.an.reach(f, starts, blocked=post, blocked_edges=blk_some)
            bad = [x for x in f.ret_points() if x in r]
            ctx.ob("R-PAIR", fid, "mpmc/" + fn + "/permit-returned", not bad,
                   "a receiver that holds a permit either takes a message or re-posts the permit before returning (the disconnect permit is never used up)" if not bad else
                   "mpmc %s can return holding a permit it neither used for a message nor re-posted: the next receiver blocks forever after disconnect" % fn,
                   f.where(sorted(post)[0]), detail=ctx.an.fmt_path(f, ctx.an.path(f, starts, bad, blocked=post, blocked_edges=blk_some)) if bad else None)
    # last sender posts
    DT = MM + "::drop_tx"
    last = lambda a: a.kind == "val" and a.eq and a.vals == (1,) and is_call_result(A("fetch_sub"))(a.origin)
    ctx.must_follow(DT, None, Call(SEM + "post", on=MM + ".sem", transitive=False), "mpmc/last-sender-posts", "the last sender posts the disconnect permit", edge=last,
                    edge_label="edge `tx_ports.fetch_sub(1) == 1`")
    ctx.order(DT, atomic("fetch_sub", MM + ".tx_ports"), Call(SEM + "post", on=MM + ".sem", transitive=False), "mpmc/count-then-post",
              "tx_ports reaches 0 before the disconnect permit is posted (whoever gets the permit sees 0)", rule="R-SLOT")
    # ---- R-SLOT coverage: mpsc
    DC = MP + "::drop_chan"
    ctx.must_follow(DC, None, ao("take", MP + ".to_wake"), "mpsc/last-sender-wakes", "the last sender takes the waiting receiver", edge=last, edge_label="edge `channels.fetch_sub(1) == 1`")
    slot_waker(ctx, DC, atomic("fetch_sub", MP + ".channels"), ao("take", MP + ".to_wake"), "mpsc/drop-chan", "mpsc drop_chan")
    f = ctx.fn("R-SLOT", MP + "::try_recv", "mpsc/recheck-covers-channels")
    if f is not None:
        cov = ctx.an.may(f, atomic("load", MP + ".channels")) and ctx.an.may(f, Call(MQ_MPSC + "pop", on=MP + ".queue"))
        ctx.ob("R-SLOT", MP + "::try_recv", "mpsc/recheck-covers-channels", cov,
               "the receiver's re-check (try_recv) reads both conditions published by its wakers: queue (send) and channels (drop_chan)" if cov else
               "mpsc try_recv (the receiver's re-check after registering) no longer reads `channels`/queue: a disconnect between check and registration is lost", f.where())
    # ---- spsc
    SDC = SP + "::drop_chan"
    slot_waker(ctx, SDC, atomic("store|swap|fetch_sub", SP + ".channels"), ao("take", SP + ".wait_co"), "spsc/drop-chan", "spsc drop_chan")
    ctx.must_call(SDC, ao("take", SP + ".wait_co"), "spsc/drop-chan-wakes", "dropping the sender always takes the waiting receiver")
    SUB = "<may::sync::spsc::Park as may::coroutine_impl::EventSource>::subscribe"
    ctx.must_follow(SUB, ao("store", SP + ".wait_co"), [atomic("load", SP + ".channels"), ao("take", SP + ".wait_co")], "spsc/co-recheck-covers-channels",
                    "the coroutine receiver, after registering, re-reads `channels` (published by drop_chan) on every path on which it stays parked", rule="R-SLOT")
    zero_sp = senders_zero(SP + ".channels")
    ctx.must_follow(SUB, None, ao("take", SP + ".wait_co"), "spsc/co-selfwake-on-disconnect", "a coroutine receiver that sees zero senders after registering takes itself back",
                    rule="R-SLOT", edge=zero_sp, edge_label="edge `channels.load() == 0`")
    f = ctx.fn("R-SLOT", SP + "::try_recv", "spsc/thread-recheck-covers-channels")
    if f is not None:
        cov = ctx.an.may(f, atomic("load", SP + ".channels"))
        ctx.ob("R-SLOT", SP + "::try_recv", "spsc/thread-recheck-covers-channels", cov, "the thread receiver's re-check (try_recv) reads `channels`" if cov else
               "spsc try_recv no longer reads `channels`", f.where())
    # ---- RAII
    for drop_impl, callee_rx, what in (
        ("<may::sync::mpsc::Sender as std::ops::Drop>::drop", re.escape(MP) + "::drop_chan", "mpsc Sender"),
        ("<may::sync::spsc::Sender as std::ops::Drop>::drop", re.escape(SP) + "::drop_chan", "spsc Sender"),
        ("<may::sync::mpmc::Sender as std::ops::Drop>::drop", re.escape(MM) + "::drop_tx", "mpmc Sender"),
        ("<may::sync::mpsc::Receiver as std::ops::Drop>::drop", re.escape(MP) + "::drop_port", "mpsc Receiver"),
        ("<may::sync::spsc::Receiver as std::ops::Drop>::drop", re.escape(SP) + "::drop_port", "spsc Receiver"),
        ("<may::sync::mpmc::Receiver as std::ops::Drop>::drop", re.escape(MM) + "::drop_rx", "mpmc Receiver")):
        ctx.must_call(drop_impl, Call(callee_rx), "raii/" + what.replace(" ", "-"), "dropping a %s always signals the channel" % what)
    for inner, pop in ((MP, Call(MQ_MPSC + "pop", on=MP + ".queue", transitive=False)), (SP, Call(SPQ + "pop", on=SP + ".queue", transitive=False))):
        tag = inner.split("::")[-2]
        DP = inner + "::drop_port"
        ctx.order(DP, atomic("store", inner + ".port_dropped"), pop, tag + "/flag-then-drain", "the receiver publishes port_dropped before draining (a later send fails)")
        ctx.guarded(DP, Ev("ret"), call_false(r"std::option::Option::is_some"), tag + "/drain-to-empty", "drop_port returns only after pop() returned None",
                    pred_label="edge `pop().is_some()` is false")
    DR = MM + "::drop_rx"
    ctx.must_follow(DR, None, Call(SEGQ + "pop", on=MM + ".queue", transitive=False), "mpmc/last-receiver-drains", "the last receiver drains the queue", edge=last,
                    edge_label="edge `rx_ports.fetch_sub(1) == 1`")
    # Clone for senders counts before the clone exists
    ctx.must_call("<may::sync::mpsc::Sender as std::clone::Clone>::clone", Call(re.escape(MP) + "::clone_chan"), "raii/mpsc-clone-counts", "a cloned Sender is counted")
    ctx.must_call("<may::sync::mpmc::Sender as std::clone::Clone>::clone", Call(re.escape(MM) + "::clone_tx"), "raii/mpmc-clone-tx-counts", "a cloned Sender is counted")
    ctx.must_call("<may::sync::mpmc::Receiver as std::clone::Clone>::clone", Call(re.escape(MM) + "::clone_rx"), "raii/mpmc-clone-rx-counts", "a cloned Receiver is counted")
    # dependencies (round-3 seeds C07-5, C07-6): the disconnect permit travels through the Semphore hand-off; the spsc thread receiver's re-check
    ctx.import_rules("C10", r"^handshake|^waker")
    ctx.import_rules("C06", r"^spsc/thread-register-then-recheck|^mpsc/recv/|^spsc/co-")
    taken_waiter_is_woken(ctx, only=r"sync::(mpsc|spsc)::InnerQueue\.(to_wake|wait_co)$")
    channel_bookkeeping_rules(ctx)
    spsc_blocker_tag_rules(ctx)
