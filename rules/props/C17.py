"""C17 — network I/O never misses a readiness edge (structural clauses of the edge-triggered protocol)."""
from lib import *
from props import shared
from props.shared import *

EXPLANATION = ("R-SIB sibling agreement over the io event sources (enumerated from the EventSource impl list) and their front-ends: "
               "done(): consume result, clear io_flag, syscall, re-check io_flag, yield only on the flag==0 edge with no flag clear "
               "between the syscall and the yield; subscribe(): publish the coroutine, then re-check io_flag, non-zero edge resumes; "
               "front-ends: reset before the early syscall, no second clear before yielding, done() after the yield. R-ORDER selector "
               "sets io_flag before taking the coroutine and schedules on its own worker; epoll registration flag sets; R-MO floors; "
               "thread path stores the result before unparking")
EXPLANATION_2 = ('would-block classification in every done() and front-end (re-check/yield only after EAGAIN, EAGAIN never returned); one data syscall per completion for sources serving datagram sockets; early attempts through CoIo::inner recognised; add/mod/del_socket, io cancel set/clear, del_io_timer forwarding; run budget of the worker (F32); thread io parks in a loop on its done flag (F35)')
NOT_DECIDED = "the kernel; payload integrity and stream order (the buffer/count pass-through is not tracked); readiness timing"
CONFIGS_QUICK = ["default"]
CONFIGS_THOROUGH = ["default", "nosteal", "bare"]

ED = "may::io::sys::EventData"
IOF = ED + ".io_flag"
ES = "may::coroutine_impl::EventSource"
SYSCALL = Call(r"(nix|socket2|libc)::.*|<?(std::net|std::os::unix::net|socket2|std::os::fd)::.*|std::io::(Read|Write)::.*|<(std::net|std::os::unix::net|&std::net|&std::os::unix::net|socket2)[^ ]* as std::io::(Read|Write)>::.*",
               transitive=False, where=lambda g, pt, t: (callee_name(t) or "").rsplit("::", 1)[-1] not in ("borrow_raw", "as_raw_fd", "as_fd", "into", "from", "raw_os_error", "kind", "from_raw_os_error", "last_os_error", "into_raw_fd", "from_raw_fd", "try_clone", "new", "other"),
               label="syscall")
CLEAR = [Call(A("(store|swap)"), on=IOF, transitive=False), Call(r"may::io::sys::IoData::reset|.*::io_reset|.*::reset_io", transitive=False)]
YIELD = Call(r"may::yield_now::yield_with_io", transitive=False)
DATA_CALLS = {"read", "recv", "recv_from", "recvfrom", "recvmsg", "write", "send", "send_to", "sendto", "sendmsg", "readv", "writev", "read_vectored", "write_vectored", "peek", "peek_from"}

def flag_zero(a):
    ld = is_call_result(A("load"))
    if a.kind == "cmp" and a.op == "Eq" and ld(a.a) and is_const(0)(a.b): return True
    return False
def flag_nonzero(a):
    ld = is_call_result(A("load"))
    return a.kind == "cmp" and a.op == "Ne" and ld(a.a) and is_const(0)(a.b)

def would_block(d, truth):
    """edge predicate: the comparison of an io error with EAGAIN / EWOULDBLOCK / ErrorKind::WouldBlock in function d came out `truth`"""
    WB = ("EAGAIN", "EWOULDBLOCK", "WouldBlock")
    def p(a):
        # `match e { Err(Errno::EAGAIN) => .., Err(e) => .. }`: the test is a discriminant switch on the error code
        if a.kind == "variant" and re.search(r"Errno|ErrorKind", str(type_of_origin(d, simplify(a.origin)) or "") + fmt_origin(a.origin)):
            return (a.name in WB) is truth
        if a.kind == "variant_in" and re.search(r"Errno|ErrorKind", str(type_of_origin(d, simplify(a.origin)) or "") + fmt_origin(a.origin)) and a.names:
            return (not truth) and not any(n in WB for n in a.names)
        # ... of a foreign enum (nix::errno::Errno has no variant table in the facts): discriminant value 11 = EAGAIN = EWOULDBLOCK on Linux
        if a.kind == "val" and simplify(a.origin)[0] == "discr" and a.vals == (11,) and root_of(simplify(a.origin)[1])[0] == "call" and \
           re.search(r"^(nix|libc|std::io|socket2)", root_of(simplify(a.origin)[1])[2] or ""):
            return a.eq is truth
        if a.kind != "call" or not re.search(r"PartialEq>::(eq|ne)$", a.name or ""): return False
        eq = a.truth if (a.name or "").endswith("::eq") else (not a.truth)
        if eq is not truth: return False
        t = d.term(a.site)
        def names(o, k=0):
            o = simplify(o)
            if o[0] == "const": return " ".join(str(x) for x in (o[3] or ())) + " " + (o[1] or "")
            if o[0] in ("ref", "deref", "cast", "field") and k < 5: return names(o[1], k + 1)
            if o[0] == "agg": return str(o[2]) + " " + " ".join(names(x, k + 1) for x in (o[3] or ()))
            return ""
        return any(re.search(r"EAGAIN|EWOULDBLOCK|WouldBlock", names(trace_operand(d, x))) for x in t["args"][:2])
    return p

def check(ctx):
    an = ctx.an
    impls = ctx.prog.impls_of(ES)
    io_srcs = []
    for im in impls:
        adt = norm(im.get("self_adt") or im["self_ty"])
        if "::io::sys::" in adt:
            io_srcs.append((adt, im))
    if len(io_srcs) < 13:
        ctx.missing("R-SIB", ES, "io-sources", "expected ≥13 io EventSource impls, found %d" % len(io_srcs))
    # io sources constructed by the datagram front-ends (derived from the code: who calls <source>::new)
    dgram_srcs = {}
    for adt, im in io_srcs:
        for gid, lst in ctx.callers_of(re.escape(adt) + "::new").items():
            if gid.startswith("may::net::udp::UdpSocket::") or gid.startswith("may::os::unix::net::UnixDatagram::"):
                dgram_srcs.setdefault(adt, set()).add(gid)
    if len(dgram_srcs) < 4:
        ctx.missing("R-SIB", ES, "datagram-sources", "expected >=4 io sources constructed by UdpSocket / UnixDatagram front-ends, found %s" % sorted(dgram_srcs))
    for adt, im in sorted(io_srcs):
        short = adt.rsplit("::", 1)[-1]
        sub = [norm(m["id"]) for m in im["methods"] if m["n"] == "subscribe"]
        f = ctx.prog.fn(sub[0]) if sub else None
        if f is None:
            ctx.missing("R-SIB", adt, "subscribe", "subscribe of %s not found" % adt); continue
        ctx.fns_touched.add(f.id)
        shared.slot_waiter(ctx, f.id, Call(AO + "store", on=ED + ".co", transitive=True), Call(A("load"), on=IOF, transitive=False), flag_nonzero, Call(re.escape(ED) + "::fast_schedule", transitive=False),
                           "subscribe:" + short, "%s::subscribe" % short, "io_flag.load() != 0")
        # done()
        d = ctx.prog.fn(adt + "::done")
        if d is None:
            if short != "RawIoBlock":
                ctx.missing("R-SIB", adt, "done", "%s::done not found" % adt)
            continue
        ctx.fns_touched.add(d.id)
        ys = an.sites(d, YIELD, "must"); lds = an.sites(d, Call(A("load"), on=IOF, transitive=False), "must")
        clr = set()
        for c in CLEAR: clr |= an.sites(d, c, "must")
        sysc = an.sites(d, SYSCALL, "must")
        res = an.sites(d, Call(r"may::io::sys::co_io_result", transitive=False), "must")
        if not (ys and lds and clr and sysc and res):
            ctx.missing("R-SIB", d.id, "done-template", "%s::done does not have the template's anchors: yield=%d flag-load=%d flag-clear=%d syscall=%d co_io_result=%d" %
                        (short, len(ys), len(lds), len(clr), len(sysc), len(res)))
            continue
        ctx.guarded(d.id, YIELD, flag_zero, "done/yield-only-if-flag-clear:" + short, "%s::done yields only when the re-check after the syscall found io_flag == 0" % short, rule="R-SIB",
                    pred_label="edge `io_flag.load() != 0` is false")
        # clear -> syscall -> load
        r = an.reach(d, [q for s in clr for q in an.after(d, s)], blocked=sysc)
        bad = [l for l in lds if l in r]
        ctx.ob("R-SIB", d.id, "done/clear-syscall-recheck:" + short, not bad, "io_flag is cleared, then the syscall runs, then io_flag is re-checked" if not bad else
               "%s::done can re-check io_flag after clearing it without a syscall in between (or clears it after the syscall): an edge that arrived before the clear is wiped" % short, d.where(sorted(lds)[0]))
        r0 = an.reach(d, [Point(0, 0)], blocked=clr)
        bad0 = [s for s in sysc if s in r0 and s in an.reach(d, [q for y in ys for q in an.after(d, y)] + [Point(0, 0)], blocked=clr)]
        # the syscall inside the loop is always preceded by a clear in the same iteration
        r1 = an.reach(d, [q for y in ys for q in an.after(d, y)], blocked=clr)
        bad1 = [s for s in sysc if s in r1]
        ctx.ob("R-SIB", d.id, "done/clear-before-syscall:" + short, not bad1, "after every resume the flag is cleared before the syscall is retried" if not bad1 else
               "%s::done retries the syscall after a resume without clearing io_flag first (the stale flag makes the next would-block spin or hides the next edge)" % short, d.where(sorted(sysc)[0]))
        # no clear between the re-check (flag==0 edge) and the yield
        es = ctx.edges(d, flag_zero)
        r2 = an.reach(d, [Point(tb, 0) for _, tb, _ in es], blocked=ys)
        bad2 = [c for c in clr if c in r2]
        ctx.ob("R-SIB", d.id, "done/no-clear-before-yield:" + short, bool(es) and not bad2, "nothing clears io_flag between the re-check and the yield" if es and not bad2 else
               "%s::done clears io_flag between its re-check and yield_with_io: an edge that arrived in between is lost and the coroutine stays suspended" % short, d.where(sorted(ys)[0]))
        ctx.must_follow(d.id, YIELD, Call(r"may::io::sys::co_io_result", transitive=False), "done/result-after-resume:" + short, "after a resume the passed-in result (timeout) is looked at first", rule="R-SIB")
        # would-block classification: the source goes on to the flag re-check / yield exactly when the syscall failed with EAGAIN/EWOULDBLOCK;
        # any other error is returned (a negated test hands EAGAIN to the caller of a blocking API and parks on a real error)
        wb = lambda truth, d=d: would_block(d, truth)
        wbt = ctx.edges(d, wb(True))
        if wbt:
            first_err = [x for x in lds if True]
            ctx.guarded(d.id, lambda g, lds=lds: sorted(lds), wb(True), "done/recheck-only-after-would-block:" + short, "%s::done re-checks io_flag (and may yield) only after its syscall reported would-block" % short, rule="R-SIB",
                        invalidate=SYSCALL, pred_label="edge `err == EAGAIN/EWOULDBLOCK`")
            r = an.reach(d, [Point(tb, 0) for _, tb, _ in wbt], blocked=set(lds))
            badw = [x for x in d.ret_points() if x in r]
            ctx.ob("R-SIB", d.id, "done/would-block-never-returned:" + short, not badw, "a would-block result never leaves %s::done: it always leads to the io_flag re-check" % short if not badw else
                   "%s::done can return on the would-block edge: the caller of a blocking API gets EAGAIN/WouldBlock instead of waiting" % short, d.where(badw[0]) if badw else d.where(sorted(lds)[0]))
        elif short not in ("TcpStreamConnect", "UnixStreamConnect"):
            ctx.missing("R-SIB", d.id, "done/recheck-only-after-would-block:" + short, "no comparison with EAGAIN / EWOULDBLOCK in %s::done" % short)
        # a source that serves a datagram socket moves exactly one message per completion: after its data syscall no second data syscall
        # runs in the same iteration (a second recv concatenates two datagrams into one message / a second send splits the accounting)
        if adt in dgram_srcs:
            data = set(x for x in sysc if (callee_name(d.node(x)) or "").rsplit("::", 1)[-1] in DATA_CALLS)
            if not data:
                ctx.missing("R-SIB", d.id, "done/one-message-per-completion:" + short, "no data-moving syscall (%s) found in %s::done" % ("/".join(sorted(DATA_CALLS)), short))
            else:
                r = an.reach(d, [q for x in data for q in an.after(d, x)], blocked=clr | ys)
                bad = sorted(x for x in data if x in r)
                ctx.ob("R-SIB", d.id, "done/one-message-per-completion:" + short, not bad, "%s::done (used by a datagram socket) performs one data syscall per iteration" % short if not bad else
                       "%s::done serves a datagram socket (%s) and can perform a second data syscall after the first one in the same completion: two datagrams are returned as one message "
                       "(boundaries lost) and the next receive waits for a datagram that was already consumed" % (short, sorted(dgram_srcs[adt])[0]), d.where(bad[0]) if bad else d.where(sorted(data)[0]))
    # ---- front-ends
    n_fe = 0
    for f in sorted(ctx.prog.fns.values(), key=lambda x: x.id):
        if f.id.endswith("::done") and "::io::sys::" in f.id: continue
        ys = an.sites(f, YIELD, "must")
        if not ys: continue
        short = f.id
        resets = set()
        for c in CLEAR: resets |= an.sites(f, c, "must")
        dones = an.sites(f, Call(r"may::io::sys::.*::done", transitive=False), "must")
        if "wait_io" in f.id:
            ctx.guarded(f.id, YIELD, lambda a: (a.kind == "cmp" and a.op == "Eq" and is_const(0)(a.b)), "frontend/wait-io-yield-only-if-clear", "wait_io blocks only when io_flag is 0", rule="R-SIB",
                        pred_label="edge `io_flag.load() != 0` is false")
            n_fe += 1
            continue
        n_fe += 1
        ctx.fns_touched.add(f.id)
        if dones:
            r = an.reach(f, [q for y in ys for q in an.after(f, y)], blocked=dones)
            bad = [x for x in f.ret_points() if x in r]
            ctx.ob("R-SIB", f.id, "frontend/done-after-yield", not bad, "after the yield the operation is completed by <source>::done()" if not bad else
                   "%s can return after yield_with_io without calling done()" % f.id, f.where(sorted(ys)[0]))
        else:
            ctx.ob("R-SIB", f.id, "frontend/done-after-yield", False, "%s yields on an io source but never calls its done()" % f.id, f.where(sorted(ys)[0]))
        sysc = an.sites(f, SYSCALL, "must")
        def on_own_socket(g, t):
            # the attempt is made on the socket this front-end wraps: a field of self, or what CoIo::inner() of such a field returns
            if receiver_fields(g, t): return True
            if not t["args"]: return False
            o = simplify(trace_operand(g, t["args"][0]))
            while o[0] in ("ref", "deref"): o = simplify(o[1])
            return o[0] == "call" and re.search(r"co_io::CoIo::inner(_mut)?$", o[2] or "") is not None
        early = [s for s in sysc if s in an.reach(f, [Point(0, 0)], blocked=ys) and on_own_socket(f, f.node(s))]
        if not early:
            ctx.ob("R-SIB", f.id, "frontend/reset-before-early-syscall", True, "no early non-blocking attempt in this front-end", f.where(), nontrivial=False)
            continue
        if not resets:
            ctx.ob("R-SIB", f.id, "frontend/reset-before-early-syscall", False, "%s makes an early non-blocking attempt but never resets io_flag" % f.id, f.where(early[0])); continue
        r = an.reach(f, [Point(0, 0)], blocked=resets)
        bad = [s for s in early if s in r]
        ctx.ob("R-SIB", f.id, "frontend/reset-before-early-syscall", not bad, "io_flag is reset before the early non-blocking attempt" if not bad else
               "%s resets io_flag AFTER (or not before) its early non-blocking syscall: an edge that arrives between the failed attempt and the reset is wiped, the coroutine parks with data/space available" % f.id,
               f.where((bad or early)[0]))
        if ctx.edges(f, would_block(f, True)):
            ctx.guarded(f.id, YIELD, would_block(f, True), "frontend/yield-only-after-would-block", "%s suspends the caller only after its early attempt reported would-block (every other error is returned)" % f.id, rule="R-SIB",
                        pred_label="edge `err == EAGAIN/EWOULDBLOCK`")
            # (the constructor of the io source may fail with its own error between the attempt and the yield)
            ctor = an.sites(f, Call(r"may::io::sys::.*::new", transitive=False), "must")
            rw = an.reach(f, [Point(tb, 0) for _, tb, _ in ctx.edges(f, would_block(f, True))], blocked=ys | ctor)
            badw = [x for x in f.ret_points() if x in rw]
            ctx.ob("R-SIB", f.id, "frontend/would-block-never-returned", not badw, "a would-block result of the early attempt always leads to the yield" if not badw else
                   "%s returns on the would-block edge of its early attempt: the caller of a blocking API gets EAGAIN/WouldBlock" % f.id, f.where(badw[0]) if badw else f.where(sorted(ys)[0]))
        r2 = an.reach(f, [q for s in early for q in an.after(f, s)], blocked=ys)
        bad2 = [c for c in resets if c in r2]
        ctx.ob("R-SIB", f.id, "frontend/no-clear-after-attempt", not bad2, "nothing clears io_flag between the early attempt and the yield" if not bad2 else
               "%s clears io_flag between its early attempt and yield_with_io" % f.id, f.where((bad2 or sorted(ys))[0]))
    if n_fe < 18:
        ctx.missing("R-SIB", "io front-ends", "count", "expected ≥18 io front-ends (callers of yield_with_io outside done), found %d" % n_fe)
    # ---- selector
    SEL = "may::io::sys::select::Selector"
    ctx.order(SEL + "::select", Call(A("fetch_or"), on=IOF, transitive=False), ao("take", ED + ".co"), "selector/flag-then-take",
              "the selector publishes the readiness bits before it takes the coroutine (a subscriber that stores its coroutine afterwards re-checks the flag)")
    ctx.mo_floor(IOF, ("fetch_or",), "REL", "io-flag-set", "readiness is published to the subscriber's acquire load", min_sites=2)
    subs = [norm(m["id"]) for adt, im in io_srcs for m in im["methods"] if m["n"] == "subscribe"]
    for sid in subs:
        f = ctx.prog.fn(sid)
        if f is None: continue
        for pt in sorted(an.sites(f, Call(A("load"), on=IOF, transitive=False), "must")):
            o = ordering_of(f, f.node(pt)["args"][1]); good = satisfies(o or "Relaxed", "ACQ")
            ctx.ob("R-MO", IOF, "subscribe-load@" + sid.split("::")[-3 if sid.startswith("<") else -2][:40], good, "io_flag.load(%s) in %s %s floor ACQ" % (o, sid, "meets" if good else "is BELOW"), f.where(pt))
    ctx.order("may::io::sys::wait_io::WaitIoWaker::wakeup", Call(A("fetch_or"), on=IOF, transitive=False), Call(re.escape(ED) + "::schedule", transitive=False), "waker/flag-then-schedule",
              "WaitIoWaker sets the flag before scheduling the waiter")
    for fn in ("schedule", "fast_schedule"):
        ctx.order(ED + "::" + fn, ao("take", ED + ".co"), Call(r"may::scheduler::Scheduler::schedule|may::coroutine_impl::run_coroutine", transitive=False), fn + "/take-then-resume",
                  "the coroutine that is resumed is the one taken from the slot")
    # epoll flags
    def flag_names(f, o, acc, depth=0):
        o = simplify(o)
        if depth > 10: return
        if o[0] == "call":
            t = f.term(o[1])
            for a in t["args"]: flag_names(f, trace_operand(f, a), acc, depth + 1)
        elif o[0] == "const" and o[1]:
            m = re.findall(r"EPOLL[A-Z]+", o[1])
            acc.update(m)
    for fid, need, label in ((SEL + "::add_fd", [{"EPOLLIN", "EPOLLOUT", "EPOLLET"}], "add-fd"), (SEL + "::mod_fd", [{"EPOLLIN", "EPOLLET"}, {"EPOLLOUT", "EPOLLET"}], "mod-fd")):
        f = ctx.fn("R-SIB", fid, "epoll/" + label)
        if f is None: continue
        sets = []
        for pt in sorted(an.sites(f, Call(r"nix::sys::epoll::EpollEvent::new", transitive=False), "must")):
            o = simplify(trace_operand(f, f.node(pt)["args"][0]))
            # one registration per alternative: two `EpollEvent::new` calls, or one call on `if is_read { A } else { B }`
            for alt in (o[2] if o[0] == "phi" else [o]):
                acc = set(); flag_names(f, alt, acc); sets.append(acc)
        ok = bool(sets) and all(any(n <= s for s in sets) for n in need) and all(any(n <= s for n in need) for s in sets)
        ctx.ob("R-SIB", fid, "epoll/" + label, ok, "%s registers %s (edge-triggered, both directions)" % (fid, [sorted(s) for s in sets]) if ok else
               "%s registers %s; required ⊇ %s: a direction that is not registered never produces a readiness edge" % (fid, [sorted(s) for s in sets], [sorted(n) for n in need]), f.where())
    # thread path: result stored before the thread is unparked
    for f in ctx.prog.fns.values():
        if f.id.startswith("may::io::thread::") and an.sites(f, Call(r"std::thread::Thread::unpark", transitive=False), "must"):
            ctx.order(f.id, Call(r"generator::(\w+::)*co_yield_with", transitive=False), Call(r"std::thread::Thread::unpark", transitive=False), "thread-proxy/yield-then-unpark",
                      "the proxy coroutine wakes the blocked thread only after the io event resumed it")
            st = an.sites(f, Call(AO + "store", transitive=False), "may")
            if st:
                r = an.reach(f, [q for s in an.sites(f, Call(r"std::thread::Thread::unpark", transitive=False), "must") for q in an.after(f, s)],
                             blocked=an.sites(f, Call(r"generator::(\w+::)*co_yield_with", transitive=False), "must"))
                bad = [s for s in st if s in r]
                ctx.ob("R-ORDER", f.id, "thread-proxy/store-then-unpark", not bad, "the io result is stored before the thread is unparked" if not bad else
                       "the proxy coroutine unparks the thread before storing the io result", f.where(sorted(st)[0]))
    # (seed C17-4) SplitIo::split re-registers the two halves for ONE direction each (mod_fd: is_read=true -> EPOLLIN only,
    # false -> EPOLLOUT only). The io data registered for reading must be the one handed to SplitReader::new and the one registered
    # for writing the one handed to SplitWriter::new: a half registered for the wrong direction never sees its readiness edge
    def base_of(f, operand):
        o = simplify(trace_operand(f, operand))
        for _ in range(4):
            while o[0] in ("ref", "deref"): o = simplify(o[1])
            if o[0] == "call" and re.search(r"::as_io_data$|::deref$|::as_ref$|::borrow$", o[2] or ""):
                t = f.term(o[1])
                if t["args"]: o = simplify(trace_operand(f, t["args"][0])); continue
            break
        return fmt_origin(o)
    splits = [f for f in ctx.prog.find(r"as may::io::split_io::SplitIo>::split$")]
    if not splits:
        ctx.missing("R-SIB", "may::io::split_io::SplitIo::split", "split/half-registered-for-its-direction", "no SplitIo::split implementation found")
    for f in splits:
        regs = {}
        for pt in sorted(an.sites(f, Call(r"may::io::sys::mod_socket", transitive=False), "must")):
            t = f.node(pt)
            flag = simplify(trace_operand(f, t["args"][1]))
            regs.setdefault(flag[1] if flag[0] == "const" else "?", set()).add(base_of(f, t["args"][0]))
        halves = {}
        for pt in sorted(an.sites(f, Call(r"may::io::split_io::Split(Reader|Writer)::new", transitive=False), "must")):
            t = f.node(pt)
            halves["true" if "SplitReader" in (callee_name(t) or "") else "false"] = base_of(f, t["args"][0])
        if not regs and "may::io::sys::mod_socket" not in ctx.prog.fns:
            continue    # not a unix build
        ok = len(halves) == 2 and regs.get("true") == {halves.get("true")} and regs.get("false") == {halves.get("false")} and "?" not in regs
        ctx.ob("R-SIB", f.id, "split/half-registered-for-its-direction", ok,
               "split registers the reader half for reading and the writer half for writing (mod_socket(x, true) on the value given to SplitReader::new, "
               "mod_socket(y, false) on the value given to SplitWriter::new)" if ok else
               "%s: mod_socket(.., true) is applied to %s and mod_socket(.., false) to %s, but SplitReader gets %s and SplitWriter gets %s: a half that is registered for the "
               "other direction only is never resumed when its own direction becomes ready" % (f.id, sorted(regs.get("true", [])), sorted(regs.get("false", [])), halves.get("true"), halves.get("false")), f.where())
    # (F19) drop order of the socket owners: the selector registration (IoData; its Drop does epoll_ctl(DEL, fd)) must be dropped
    # BEFORE the value that owns and closes the fd. Fields drop in declaration order. If the fd is closed first its number is free:
    # a socket created on another thread gets the same number, registers with the same selector, and the late DEL removes the NEW
    # socket's registration - it never sees a readiness edge again.
    FD_OWNER = re.compile(r"^(may::io::OptionCell<)?(std::net::|std::os::unix::net::|std::os::fd::|std::fs::File|socket2::|[A-Z]\w{0,2}$)")
    IO_OWNER = re.compile(r"^(may::io::OptionCell<)?may::io::sys::IoData>?$")
    drops = set(norm(im.get("self_adt") or "") for im in ctx.prog.impls_of("std::ops::Drop"))
    n_own = 0
    for k, a in sorted(ctx.prog.adts.items()):
        if not k.startswith("may::") or a.get("kind") != "Struct": continue
        fs = [(fl["n"], fl["t"]) for v in a["variants"] for fl in v["fields"]]
        io_i = [i for i, (n, t) in enumerate(fs) if IO_OWNER.match(t)]
        fd_i = [i for i, (n, t) in enumerate(fs) if FD_OWNER.match(t)]
        if not io_i or not fd_i: continue
        n_own += 1
        ok = max(io_i) < min(fd_i) or k in drops
        ctx.ob("R-SIB", k, "drop-order/deregister-before-close", ok,
               "%s declares its IoData (`%s`) before the fd owner (`%s`): the fd leaves the selector while it is still open" % (k, fs[io_i[0]][0], fs[fd_i[0]][0]) if ok else
               "%s declares the fd owner `%s` before its IoData `%s`: the fd is closed first and deregistered afterwards; a socket created in between on another "
               "thread reuses the fd number and loses its selector registration to the late EPOLL_CTL_DEL (its blocked reads never return)" % (k, fs[fd_i[0]][0], fs[io_i[0]][0]),
               "%s:%s" % (a.get("file"), a.get("line")))
    if n_own < 6:
        ctx.missing("R-SIB", "may::io::sys::IoData", "drop-order/deregister-before-close", "expected >= 6 structs owning an IoData and an fd (TcpStream, TcpListener, UdpSocket, CoIo, 2 connectors), found %d" % n_own)
    shared.io_helper_forwarding(ctx)
    shared.registered_sockets_are_nonblocking(ctx)
    shared.worker_run_budget_rules(ctx)
    shared.thread_park_in_loop(ctx)
    shared.thread_io_rules(ctx)
